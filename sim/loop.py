"""Virtual-time, single-threaded asyncio event loop owned by the simulator.

Everything the properties depend on that is scheduling- or clock-related goes
through this class:

* ``time()`` is a virtual monotonic clock ``vt``.
* ``_run_once`` jumps the clock to the next timer when nothing is runnable and
  charges a per-pass execution cost (see DESIGN.md 2.1: a frozen clock makes
  ``period(now, ..)`` re-fire for ever, real machines never run two passes in the
  same microsecond).
* ``run_in_executor`` runs the job inline and completes its future after a
  seeded latency: no thread is ever started.
* hooks: ``on_quiescent`` (just before a clock jump), ``at_iteration``.

The ready queue is never reordered (asyncio documents FIFO and pyscript/HA rely
on it).
"""

from __future__ import annotations

import asyncio
import heapq
import random


class SimDeadlock(RuntimeError):
    """Nothing runnable and no timer pending: the simulated system is stuck."""


class SimCapExceeded(RuntimeError):
    """A per-run cap (loop passes or virtual time) was exceeded."""


class EnvStream:
    """A seeded stream of environment draws indexed by draw number.

    Separate streams are used for executor latency and timer lateness so that
    removing an operation while shrinking does not reshuffle unrelated draws more
    than necessary.
    """

    def __init__(self, seed: int, name: str) -> None:
        self.rng = random.Random(f"{seed}/{name}")
        self.count = 0

    def uniform(self, lo: float, hi: float) -> float:
        self.count += 1
        if hi <= lo:
            return lo
        return self.rng.uniform(lo, hi)


class SimLoop(asyncio.SelectorEventLoop):
    """asyncio loop on a virtual clock."""

    def __init__(self) -> None:
        super().__init__()
        self.vt = 1000.0  # virtual monotonic seconds
        self.iterations = 0
        self.jumps = 0
        # environment; all zero until the world enables them (zero-cost set-up rule)
        self.cost = 0.0
        self.exec_latency = (0.0, 0.0)
        self.timer_late = 0.0
        self.exec_stream: EnvStream | None = None
        self.late_stream: EnvStream | None = None
        # caps
        self.max_iterations = 400_000
        self.max_vt = None
        # hooks
        self.on_quiescent = None  # callable(loop) -> None, called before each clock jump
        self._iter_hooks: list[tuple[int, int, object]] = []  # heap of (iteration, seq, fn)
        self._iter_seq = 0
        # statistics
        self.stats = {
            "exec_jobs": 0,
            "exec_delayed": 0,
            "exec_reordered": 0,
            "timer_late": 0,
            "stall": 0,
        }
        self._exec_outstanding: list[float] = []
        self.exec_job_log = None  # optional list collecting job names
        self._clock_resolution = 1e-9
        self.slow_callback_duration = 1e9

    # ------------------------------------------------------------------ clock
    def time(self) -> float:
        return self.vt

    def stall(self, seconds: float) -> None:
        """Slow-node fault: the loop thread was busy for ``seconds``."""
        self.vt += seconds
        self.stats["stall"] += 1

    # ------------------------------------------------------------------ hooks
    def at_iteration(self, delta: int, fn) -> None:
        """Run ``fn()`` at the start of loop pass ``iterations + delta`` (delta >= 1)."""
        self._iter_seq += 1
        heapq.heappush(self._iter_hooks, (self.iterations + max(1, delta), self._iter_seq, fn))

    # ------------------------------------------------------------------ executor
    def run_in_executor(self, executor, func, *args):  # noqa: D401
        """Run ``func`` inline; resolve the future after a seeded latency."""
        fut = self.create_future()
        self.stats["exec_jobs"] += 1
        if self.exec_job_log is not None:
            self.exec_job_log.append(getattr(func, "__name__", repr(func)))
        try:
            result = func(*args)
            exc = None
        except BaseException as err:  # pylint: disable=broad-except
            if isinstance(err, (SystemExit, KeyboardInterrupt)):
                raise
            result = None
            exc = err

        def _finish():
            if fut.done():
                return
            if exc is not None:
                fut.set_exception(exc)
            else:
                fut.set_result(result)

        lat = 0.0
        if self.exec_stream is not None:
            lat = self.exec_stream.uniform(*self.exec_latency)
        if lat > 0.0:
            self.stats["exec_delayed"] += 1
            due = self.vt + lat
            # count completion-order inversions among outstanding jobs
            self._exec_outstanding = [d for d in self._exec_outstanding if d > self.vt]
            if any(d > due for d in self._exec_outstanding):
                self.stats["exec_reordered"] += 1
            self._exec_outstanding.append(due)
            self.call_later(lat, _finish)
        else:
            self.call_soon(_finish)
        return fut

    def set_default_executor(self, executor) -> None:  # never start threads
        self._default_executor = None

    # ------------------------------------------------------------------ core
    def _run_once(self) -> None:
        self.iterations += 1
        if self.iterations > self.max_iterations:
            raise SimCapExceeded(f"loop pass cap {self.max_iterations} exceeded at vt={self.vt}")
        while self._iter_hooks and self._iter_hooks[0][0] <= self.iterations:
            _, _, fn = heapq.heappop(self._iter_hooks)
            fn()
        if not self._ready and not self._stopping:
            sched = self._scheduled
            while sched and sched[0]._cancelled:
                self._timer_cancelled_count -= 1
                handle = heapq.heappop(sched)
                handle._scheduled = False
            if not sched:
                if self._iter_hooks:
                    # only iteration hooks pending; let passes elapse
                    self.vt += self.cost
                    return
                raise SimDeadlock(f"no runnable callback and no timer at vt={self.vt}")
            when = sched[0]._when
            if when > self.vt:
                if self.on_quiescent is not None:
                    self.on_quiescent(self)
                    if self._ready:
                        # the hook scheduled work; run it before jumping
                        super()._run_once()
                        self.vt += self.cost
                        return
                    # the hook may have cancelled timers
                    while sched and sched[0]._cancelled:
                        self._timer_cancelled_count -= 1
                        handle = heapq.heappop(sched)
                        handle._scheduled = False
                    if not sched:
                        raise SimDeadlock(f"no runnable callback and no timer at vt={self.vt}")
                    when = sched[0]._when
                if when > self.vt:
                    late = 0.0
                    if self.late_stream is not None and self.timer_late > 0.0:
                        late = self.late_stream.uniform(0.0, self.timer_late)
                        if late > 0.0:
                            self.stats["timer_late"] += 1
                    self.vt = when + late
                    self.jumps += 1
                    if self.max_vt is not None and self.vt > self.max_vt:
                        raise SimCapExceeded(f"virtual time cap exceeded vt={self.vt}")
        super()._run_once()
        self.vt += self.cost


def new_loop() -> SimLoop:
    """Create a SimLoop and make it the current loop."""
    loop = SimLoop()
    asyncio.set_event_loop(loop)
    return loop
