"""Batch driver: worker processes, verdicts, known findings, evidence, replay.

Commands (cwd=/verif):
  python -m sim check CXX --tier quick|thorough
  python -m sim replay replays/CXX-<seed>.json
  python -m sim worker ...       (internal)
  python -m sim shrink in out    (internal)
  python -m sim selftest determinism CXX [--seeds N]
"""

from __future__ import annotations

import argparse
import concurrent.futures
import faulthandler
import hashlib
import importlib
import json
import os
import random
import subprocess
import sys
import time
import traceback

from . import VERIF

# sensitivity runs against scratch copies write their evidence and replay files elsewhere (tools/seedcheck.sh)
OUT = os.environ.get("VERIF_OUT", VERIF)

PY = sys.executable
DEFAULT_SEED = 20260923
EXIT_OK, EXIT_VIOLATION, EXIT_HARNESS = 0, 1, 2

REAL_COMPONENTS = [
    "custom_components/pyscript (all modules, unmodified, from the working tree)",
    "homeassistant.core: HomeAssistant, EventBus, StateMachine, ServiceRegistry",
    "homeassistant.config_entries + pyscript config flow",
    "homeassistant.setup.async_setup_component, loader",
    "homeassistant.components.webhook registry/dispatch",
    "croniter, astral, zoneinfo",
]
STUB_COMPONENTS = [
    "event loop clock/timers (sim.loop.SimLoop, virtual time)",
    "thread pool (inline executor with seeded completion latency)",
    "watchdog observer (replaced)",
    "MQTT broker (in-process fake behind mqtt.async_subscribe)",
    "HTTP transport for webhooks (MockRequest into HA's real dispatcher)",
    "YAML loader (load_yaml_config_file returns simulator config)",
    "TCP transport for Jupyter (asyncio.start_server replaced; real StreamReader fed by simulator)",
    "package installer / importlib.metadata (C20 only)",
]


def load_prop(prop: str):
    return importlib.import_module(f"sim.props.{prop.lower()}")


def derive(base: int, *parts) -> int:
    h = hashlib.sha256(("/".join([str(base), *map(str, parts)])).encode()).digest()
    return int.from_bytes(h[:6], "big")


def canon(obj) -> str:
    return json.dumps(obj, sort_keys=True, separators=(",", ":"), default=repr)


def scen_digest(scn: dict) -> str:
    core = {k: v for k, v in scn.items() if k not in ("seed", "hashseed", "expect", "files_rendered")}
    return hashlib.sha256(canon(core).encode()).hexdigest()[:16]


# ----------------------------------------------------------------------------- known findings
def load_known() -> list[dict]:
    path = os.path.join(VERIF, "known_findings.json")
    if not os.path.exists(path):
        return []
    with open(path, encoding="utf-8") as fdesc:
        return json.load(fdesc).get("findings", [])


def _entry_applies(ent: dict, viol: dict, prop: str) -> bool:
    if ent.get("status") != "known" or ent.get("property") != prop:
        return False
    cls = ent.get("class")
    if isinstance(cls, list):
        if viol.get("class") not in cls:
            return False
    elif cls != viol.get("class"):
        return False
    sig = viol.get("sig", {})
    return all(sig.get(k) == v for k, v in ent.get("signature", {}).items())


def match_known(viol: dict, known: list[dict], prop: str) -> list[dict] | None:
    """Return the known-finding entries that together account for the violation, or None.

    An entry matches on class (string or list) and on every key of its ``signature``.  An entry with
    ``why_any`` covers the listed labels of the violation's ``sig["why"]`` (labels joined by "+": the
    smallest set of already-known deviations that reproduces the observation); the violation is known
    only if every label is covered by some applicable entry.
    """
    sig = viol.get("sig", {})
    applicable = [ent for ent in known if _entry_applies(ent, viol, prop)]
    if not applicable:
        return None
    plain = [ent for ent in applicable if "why_any" not in ent]
    if plain:
        return plain[:1]
    parts = set(str(sig.get("why", "")).split("+"))
    covered = set()
    used = []
    for ent in applicable:
        hit = parts & set(ent["why_any"])
        if hit:
            covered |= hit
            used.append(ent)
    if parts and parts <= covered:
        return used
    return None


def viol_key(viol: dict) -> str:
    return viol["class"] + "|" + canon(viol.get("sig", {}))


# ----------------------------------------------------------------------------- one run
def run_one(mod, scn: dict) -> dict:
    """Run one scenario; never raises for harness problems (reports them)."""
    t0 = time.time()
    try:
        res = mod.run(scn)
        res.setdefault("violations", [])
        res["wall"] = time.time() - t0
        return res
    except Exception:  # pylint: disable=broad-except
        return {"harness_error": traceback.format_exc()[-3000:], "violations": [], "wall": time.time() - t0}


def worker_main(args) -> int:
    faulthandler.enable()
    mod = load_prop(args.prop)
    hashseed = int(os.environ.get("PYTHONHASHSEED", "0") or 0)
    indices = range(args.start, args.start + args.count)
    faulthandler.dump_traceback_later(args.timeout, exit=True)
    if hasattr(mod, "warmup"):
        try:
            mod.warmup()
        except Exception:  # pylint: disable=broad-except
            pass
    import gc

    gc.collect()
    gc.freeze()  # the warm heap (HA, pyscript, croniter ...) is never collected again: cheap per-run gc.collect()
    out = sys.stdout
    for i in indices:
        seed = derive(args.base_seed, args.prop, i)
        rng = random.Random(seed)
        try:
            if hasattr(mod, "gen_indexed"):
                scn = mod.gen_indexed(i, rng, args.tier)  # lets a module enumerate a finite sub-space by index
            else:
                scn = mod.gen(rng, args.tier)
        except Exception:  # pylint: disable=broad-except
            out.write(json.dumps({"i": i, "seed": seed, "harness_error": traceback.format_exc()[-3000:]}) + "\n")
            continue
        scn.update({"format": 1, "property": args.prop, "seed": seed, "hashseed": hashseed})
        res = run_one(mod, scn)
        if res.get("scn_patch"):
            scn.update(res["scn_patch"])  # e.g. the cancellation point an enumeration found failing
        line = {
            "i": i,
            "seed": seed,
            "scen": scen_digest(scn),
            "trace": res.get("trace_digest"),
            "nontrivial": bool(res.get("nontrivial")),
            "violations": res.get("violations", []),
            "faults": res.get("faults", {}),
            "reach": res.get("reach", {}),
            "sim_seconds": res.get("sim_seconds", 0.0),
            "iterations": res.get("iterations", 0),
            "subsystem": res.get("subsystem"),
            "wall": round(res.get("wall", 0.0), 4),
            "extra": res.get("extra", {}),
        }
        if "harness_error" in res:
            line["harness_error"] = res["harness_error"]
        if res.get("violations") or args.emit_scn or i < args.start + args.samples:
            line["scn"] = scn
        out.write(json.dumps(line, default=repr) + "\n")
        out.flush()
    faulthandler.cancel_dump_traceback_later()
    return 0


# ----------------------------------------------------------------------------- shrink
def shrink_main(args) -> int:
    from .shrink import shrink

    faulthandler.enable()
    faulthandler.dump_traceback_later(args.timeout, exit=True)
    with open(args.infile, encoding="utf-8") as fdesc:
        scn = json.load(fdesc)
    mod = load_prop(scn["property"])
    target = scn["expect"]
    small, res, steps = shrink(mod, scn, target, budget_s=args.budget)
    small["expect"] = {
        "class": target["class"],
        "sig": target.get("sig", {}),
        "trace_digest": res.get("trace_digest"),
        "detail": next(
            (v.get("detail") for v in res.get("violations", []) if viol_key(v) == viol_key(target)), None
        ),
        "shrink_steps": steps,
    }
    if hasattr(mod, "render"):
        try:
            small["files_rendered"] = mod.render(small)
        except Exception:  # pylint: disable=broad-except
            pass
    with open(args.outfile, "w", encoding="utf-8") as fdesc:
        json.dump(small, fdesc, indent=1, sort_keys=True, default=repr)
    return 0


# ----------------------------------------------------------------------------- replay
def replay_main(args) -> int:
    with open(args.file, encoding="utf-8") as fdesc:
        scn = json.load(fdesc)
    want_hs = str(scn.get("hashseed", 0))
    if os.environ.get("PYTHONHASHSEED") != want_hs:
        env = dict(os.environ, PYTHONHASHSEED=want_hs)
        return subprocess.call([PY, "-m", "sim", "replay", args.file], env=env, cwd=VERIF)
    mod = load_prop(scn["property"])
    res = run_one(mod, scn)
    if "harness_error" in res:
        print("HARNESS-ERROR", res["harness_error"])
        return EXIT_HARNESS
    exp = scn.get("expect") or {}
    found = False
    for viol in res["violations"]:
        print(f"violation class={viol['class']} sig={canon(viol.get('sig', {}))} detail={viol.get('detail')}")
        if exp and viol_key(viol) == viol_key(exp):
            found = True
    print(f"trace_digest={res.get('trace_digest')} expected={exp.get('trace_digest')}")
    if exp:
        if found and res.get("trace_digest") == exp.get("trace_digest"):
            print(f"REPRODUCED property={scn['property']} class={exp['class']}")
            print(f"VIOLATION property={scn['property']} replay={args.file}")
            return EXIT_VIOLATION
        if found:
            print("REPRODUCED-CLASS (trace digest differs)")
            print(f"VIOLATION property={scn['property']} replay={args.file}")
            return EXIT_VIOLATION
        print("NOT-REPRODUCED")
        return EXIT_OK
    if res["violations"]:
        print(f"VIOLATION property={scn['property']} replay={args.file}")
        return EXIT_VIOLATION
    return EXIT_OK


# ----------------------------------------------------------------------------- check
def _spawn_chunk(prop, tier, base_seed, start, count, hashseed, timeout, samples, emit_scn=False):
    env = dict(os.environ, PYTHONHASHSEED=str(hashseed))
    env.pop("PYTEST_CURRENT_TEST", None)
    cmd = [
        PY, "-m", "sim", "worker", prop, "--tier", tier, "--base-seed", str(base_seed),
        "--start", str(start), "--count", str(count), "--timeout", str(timeout), "--samples", str(samples),
    ]
    if emit_scn:
        cmd.append("--emit-scn")
    t0 = time.time()
    try:
        proc = subprocess.run(cmd, env=env, cwd=VERIF, capture_output=True, text=True, timeout=timeout + 30)
        rc, out, err = proc.returncode, proc.stdout, proc.stderr
    except subprocess.TimeoutExpired as exc:
        rc = -9
        out = exc.stdout.decode() if isinstance(exc.stdout, bytes) else (exc.stdout or "")
        err = "worker wall timeout"
    lines = []
    for raw in out.splitlines():
        raw = raw.strip()
        if raw.startswith("{"):
            try:
                lines.append(json.loads(raw))
            except json.JSONDecodeError:
                pass
    return {"rc": rc, "lines": lines, "stderr": err[-2000:], "start": start, "count": count,
            "hashseed": hashseed, "wall": time.time() - t0}


def tier_conf(mod, tier: str) -> dict:
    conf = dict(getattr(mod, "TIERS")[tier])
    scale = float(os.environ.get("VERIF_SCALE", "1"))
    conf["runs"] = max(16, int(conf["runs"] * scale))
    return conf


def check_main(args) -> int:
    prop = args.prop.upper()
    tier = args.tier or os.environ.get("VERIF_TIER", "quick")
    base_seed = int(os.environ.get("VERIF_SEED", DEFAULT_SEED))
    mod = load_prop(prop)
    conf = tier_conf(mod, tier)
    runs = args.runs or conf["runs"]
    workers = args.workers or int(os.environ.get("VERIF_WORKERS", min(16, os.cpu_count() or 4)))
    chunk = conf.get("chunk", 100)
    chunk_timeout = conf.get("chunk_timeout", 600)
    known = load_known()
    t0 = time.time()
    jobs = []
    pos = 0
    cidx = 0
    while pos < runs:
        cnt = min(chunk, runs - pos)
        hashseed = derive(base_seed, "hs", prop, cidx) % 1000 + 1
        jobs.append((pos, cnt, hashseed))
        pos += cnt
        cidx += 1
    results = []
    with concurrent.futures.ThreadPoolExecutor(max_workers=workers) as pool:
        futs = [
            pool.submit(_spawn_chunk, prop, tier, base_seed, st, cnt, hs, chunk_timeout, 1 if st == 0 else 0)
            for st, cnt, hs in jobs
        ]
        for fut in concurrent.futures.as_completed(futs):
            results.append(fut.result())
    results.sort(key=lambda r: r["start"])

    lines = [ln for r in results for ln in r["lines"]]
    lines.sort(key=lambda ln: ln["i"])
    harness_errors = [ln for ln in lines if "harness_error" in ln]
    dead = [r for r in results if r["rc"] != 0 or len(r["lines"]) != r["count"]]

    # ---- classify violations
    known_obs: dict[str, int] = {}
    unknown: dict[str, dict] = {}
    n_viol_runs = 0
    for ln in lines:
        tainted = False
        had = False
        for viol in ln.get("violations", []):
            ents = match_known(viol, known, prop)
            if ents is not None:
                for ent in ents:
                    kid = ent.get("id") or viol_key(viol)
                    known_obs[kid] = known_obs.get(kid, 0) + 1
                tainted = True
                continue
            if tainted:
                continue  # run diverged at a known finding; later consequences are not judged
            had = True
            key = viol_key(viol)
            if key not in unknown:
                unknown[key] = {"viol": viol, "scn": ln.get("scn"), "count": 0, "seed": ln["seed"]}
            unknown[key]["count"] += 1
        if had:
            n_viol_runs += 1

    # ---- report
    rc = EXIT_OK
    for ent in known:
        if ent.get("status") == "known" and ent.get("property") == prop:
            kid = ent.get("id") or (ent["class"] + "|" + canon(ent.get("signature", {})))
            print(f"KNOWN-FINDING: property={prop} {ent.get('what')} observed={known_obs.get(kid, 0)}")
    replays = []
    if unknown:
        rc = EXIT_VIOLATION
        os.makedirs(os.path.join(OUT, "replays"), exist_ok=True)
        todo = sorted(unknown.items(), key=lambda kv: -kv[1]["count"])[: conf.get("max_shrink", 4)]
        with concurrent.futures.ThreadPoolExecutor(max_workers=min(len(todo), workers)) as pool:
            futs = {pool.submit(_shrink_one, prop, key, info, conf): key for key, info in todo}
            for fut in concurrent.futures.as_completed(futs):
                replays.append(fut.result())
        for rep in sorted(replays, key=lambda r: r["path"]):
            print(f"violation class={rep['class']} sig={rep['sig']} count={rep['count']} "
                  f"seed={rep['seed']} shrunk={rep['shrunk']} reproduced={rep['reproduced']}")
            print(f"VIOLATION property={prop} replay={rep['path']}")
        for key, info in sorted(unknown.items()):
            if key not in {r["key"] for r in replays}:
                print(f"violation (not minimised) class={info['viol']['class']} "
                      f"sig={canon(info['viol'].get('sig', {}))} count={info['count']} seed={info['seed']}")
    if harness_errors or dead:
        for ln in harness_errors[:3]:
            print("HARNESS-ERROR seed=%s\n%s" % (ln.get("seed"), ln["harness_error"]))
        for r in dead[:3]:
            print(f"HARNESS-ERROR worker start={r['start']} rc={r['rc']} got={len(r['lines'])}/{r['count']} "
                  f"stderr={r['stderr'][-800:]}")
        if rc == EXIT_OK:
            rc = EXIT_HARNESS

    wall = time.time() - t0
    write_evidence(prop, tier, base_seed, mod, lines, results, wall, unknown, known_obs, workers, replays)
    print(f"{prop} tier={tier} seed={base_seed} runs={len(lines)} violations={len(unknown)} "
          f"known_observed={sum(known_obs.values())} harness_errors={len(harness_errors) + len(dead)} "
          f"wall={wall:.1f}s")
    return rc


def _shrink_one(prop: str, key: str, info: dict, conf: dict) -> dict:
    scn = dict(info["scn"] or {})
    viol = info["viol"]
    seed = info["seed"]
    scn["expect"] = {"class": viol["class"], "sig": viol.get("sig", {})}
    tag = hashlib.sha256(key.encode()).hexdigest()[:6]
    os.makedirs(os.path.join(OUT, "replays"), exist_ok=True)
    raw_path = os.path.join(OUT, "replays", f"{prop}-{seed}-{tag}.raw.json")
    out_path = os.path.join(OUT, "replays", f"{prop}-{seed}-{tag}.json")
    with open(raw_path, "w", encoding="utf-8") as fdesc:
        json.dump(scn, fdesc, sort_keys=True, default=repr)
    env = dict(os.environ, PYTHONHASHSEED=str(scn.get("hashseed", 0)))
    budget = conf.get("shrink_budget", 60)
    shrunk = False
    try:
        proc = subprocess.run(
            [PY, "-m", "sim", "shrink", raw_path, out_path, "--budget", str(budget), "--timeout", str(budget + 60)],
            env=env, cwd=VERIF, capture_output=True, text=True, timeout=budget + 120,
        )
        shrunk = proc.returncode == 0 and os.path.exists(out_path)
    except subprocess.TimeoutExpired:
        shrunk = False
    if not shrunk:
        # keep the unminimised scenario as the replay file
        scn["expect"]["trace_digest"] = None
        with open(out_path, "w", encoding="utf-8") as fdesc:
            json.dump(scn, fdesc, indent=1, sort_keys=True, default=repr)
    with open(out_path, encoding="utf-8") as fdesc:
        small = json.load(fdesc)
    if small.get("expect", {}).get("trace_digest") is None:
        pass
    # verify in a fresh interpreter
    proc = subprocess.run([PY, "-m", "sim", "replay", out_path], env=env, cwd=VERIF, capture_output=True,
                          text=True, timeout=600)
    reproduced = any(line.startswith("REPRODUCED") for line in proc.stdout.splitlines())
    try:
        os.remove(raw_path)
    except OSError:
        pass
    rel = os.path.relpath(out_path, VERIF) if OUT == VERIF else out_path
    return {"key": key, "path": rel, "class": viol["class"], "sig": canon(viol.get("sig", {})),
            "count": info["count"], "seed": seed, "shrunk": shrunk, "reproduced": reproduced}


def write_evidence(prop, tier, base_seed, mod, lines, results, wall, unknown, known_obs, workers, replays):
    evaluations = len(lines)
    scen_all = {ln["scen"] for ln in lines if ln.get("scen")}
    nontrivial = {ln["scen"] for ln in lines if ln.get("nontrivial") and ln.get("scen")}
    traces = {ln["trace"] for ln in lines if ln.get("trace")}
    faults: dict[str, int] = {}
    reach: dict[str, int] = {}
    by_sub: dict[str, dict] = {}
    sim_seconds = 0.0
    iterations = 0
    extra_sum: dict[str, float] = {}
    for ln in lines:
        for k, v in (ln.get("faults") or {}).items():
            faults[k] = faults.get(k, 0) + v
        for k, v in (ln.get("reach") or {}).items():
            reach[k] = reach.get(k, 0) + v
        sim_seconds += ln.get("sim_seconds") or 0.0
        iterations += ln.get("iterations") or 0
        sub = ln.get("subsystem") or "n/a"
        ent = by_sub.setdefault(sub, {"runs": 0, "nontrivial": 0, "violating_runs": 0})
        ent["runs"] += 1
        ent["nontrivial"] += 1 if ln.get("nontrivial") else 0
        ent["violating_runs"] += 1 if ln.get("violations") else 0
        for k, v in (ln.get("extra") or {}).items():
            if isinstance(v, (int, float)) and not isinstance(v, bool):
                extra_sum[k] = extra_sum.get(k, 0) + v
    samples = []
    for ln in lines:
        if ln.get("scn") and len(samples) < 2:
            scn = dict(ln["scn"])
            if hasattr(mod, "render"):
                try:
                    scn["files_rendered"] = mod.render(scn)
                except Exception:  # pylint: disable=broad-except
                    pass
            samples.append({"seed": ln["seed"], "scenario": scn, "trace_digest": ln.get("trace"),
                            "nontrivial": ln.get("nontrivial")})
    if not samples and lines:
        samples.append({"seed": lines[0]["seed"], "scenario_digest": lines[0].get("scen")})
    level = getattr(mod, "LEVEL", "exploration")
    coverage = {
        "evaluations": evaluations,
        "distinct_nontrivial": len(nontrivial),
        "distinct_scenarios": len(scen_all),
        "rule": getattr(mod, "RULE", ""),
        "samples": samples,
        "runs_per_hour": int(evaluations / wall * 3600) if wall > 0 else 0,
        "seeds_per_hour": int(evaluations / wall * 3600) if wall > 0 else 0,
        "sim_seconds": round(sim_seconds, 3),
        "loop_passes": iterations,
        "faults_fired": dict(sorted(faults.items())),
        "reach": dict(sorted(reach.items())),
        "reach_stuck_at_zero": sorted(k for k in getattr(mod, "REACH_PROBES", [])
                                      if not reach.get(k) and k not in getattr(mod, "SYMPTOM_PROBES", [])),
        "symptom_probes": {k: reach.get(k, 0) for k in getattr(mod, "SYMPTOM_PROBES", [])},
        "distinct_traces": len(traces),
        "by_subsystem": by_sub,
        "known_findings_observed": known_obs,
        "unknown_violation_classes": sorted(unknown),
        "replays": [r["path"] for r in replays],
        "worker_processes": workers,
        "chunks": len(results),
        "hashseeds": sorted({r["hashseed"] for r in results}),
        "real_components": REAL_COMPONENTS,
        "stub_components": STUB_COMPONENTS,
        "exhaustive": bool(getattr(mod, "EXHAUSTIVE", False)),
        "sums": {k: round(v, 3) for k, v in sorted(extra_sum.items())},
    }
    if hasattr(mod, "evidence_extra"):
        try:
            coverage.update(mod.evidence_extra(lines))
        except Exception:  # pylint: disable=broad-except
            pass
    evidence = {
        "property_id": prop,
        "tier": tier,
        "seed": base_seed,
        "level": level,
        "coverage": coverage,
        "assumptions": getattr(mod, "ASSUMPTIONS", []),
        "wall_s": round(wall, 2),
        "violations": len(unknown),
    }
    os.makedirs(os.path.join(OUT, "evidence"), exist_ok=True)
    path = os.path.join(OUT, "evidence", f"{prop}.json")
    with open(path, "w", encoding="utf-8") as fdesc:
        json.dump(evidence, fdesc, indent=1, sort_keys=True, default=repr)


# ----------------------------------------------------------------------------- selftest
def selftest_main(args) -> int:
    prop = args.prop.upper()
    base_seed = int(os.environ.get("VERIF_SEED", DEFAULT_SEED))
    n = args.seeds
    hs = 7

    def collect(start, count, chunk, hashseed):
        out = {}
        jobs = []
        pos = start
        while pos < start + count:
            c = min(chunk, start + count - pos)
            jobs.append((pos, c))
            pos += c
        with concurrent.futures.ThreadPoolExecutor(max_workers=16) as pool:
            futs = [pool.submit(_spawn_chunk, prop, "quick", base_seed, st, c, hashseed, 900, 0) for st, c in jobs]
            for fut in futs:
                res = fut.result()
                for ln in res["lines"]:
                    out[ln["i"]] = (ln.get("trace"), canon(ln.get("violations", [])), ln.get("harness_error"))
        return out

    a = collect(0, n, max(1, n // 16), hs)  # 16 workers, seeds in order
    b = collect(0, n, n, hs)  # one worker, all seeds in a row (different batch positions)
    c = collect(0, n, 7, hs)  # small chunks: every seed near the start of a worker
    bad = 0
    for i in range(n):
        vals = {a.get(i), b.get(i), c.get(i)}
        if len(vals) != 1 or None in vals:
            bad += 1
            print(f"NONDETERMINISTIC i={i}: {a.get(i)} {b.get(i)} {c.get(i)}")
    herr = sum(1 for v in a.values() if v[2])
    print(f"selftest determinism {prop}: seeds={n} x3 layouts, divergent={bad}, harness_errors={herr}")
    return 0 if bad == 0 and herr == 0 else 2


# ----------------------------------------------------------------------------- main
def main(argv=None) -> int:
    parser = argparse.ArgumentParser(prog="sim")
    sub = parser.add_subparsers(dest="cmd", required=True)
    p = sub.add_parser("check")
    p.add_argument("prop")
    p.add_argument("--tier", default=None)
    p.add_argument("--runs", type=int, default=None)
    p.add_argument("--workers", type=int, default=None)
    p = sub.add_parser("worker")
    p.add_argument("prop")
    p.add_argument("--tier", default="quick")
    p.add_argument("--base-seed", type=int, default=DEFAULT_SEED)
    p.add_argument("--start", type=int, default=0)
    p.add_argument("--count", type=int, default=10)
    p.add_argument("--timeout", type=int, default=600)
    p.add_argument("--samples", type=int, default=0)
    p.add_argument("--emit-scn", action="store_true")
    p = sub.add_parser("shrink")
    p.add_argument("infile")
    p.add_argument("outfile")
    p.add_argument("--budget", type=float, default=60)
    p.add_argument("--timeout", type=int, default=180)
    p = sub.add_parser("replay")
    p.add_argument("file")
    p = sub.add_parser("selftest")
    p.add_argument("what", choices=["determinism"])
    p.add_argument("prop")
    p.add_argument("--seeds", type=int, default=200)
    args = parser.parse_args(argv)
    if args.cmd == "check":
        return check_main(args)
    if args.cmd == "worker":
        args.prop = args.prop.upper()
        return worker_main(args)
    if args.cmd == "shrink":
        return shrink_main(args)
    if args.cmd == "replay":
        return replay_main(args)
    if args.cmd == "selftest":
        return selftest_main(args)
    return 2
