"""C05 - state_check_now, state_hold and state_hold_false timing semantics.

Workload: one or two @state_trigger functions (or one task.wait_until call made from a service)
over all combinations of state_check_now in {unset, False, True} x state_hold in {None, 0, S} x
state_hold_false in {None, 0, H}, both initial truths; timed histories on a 0.25 s grid of relevant
flips, unwatched-entity changes and attribute-only updates, with bursts on one entity at one instant.
Expressions may read the previous value (NAME.old) and, with watch=[...], entities whose changes cause no
evaluation (and the list may name entities the expression does not read).
S and H are off the grid so no tie decides an outcome.

Oracle: sim.holdmodel.timeline (automaton written from the docs); expected fires are instants with
argument sets; observed runs must match within a slack of a few loop passes + timer lateness.
"""

from __future__ import annotations

import copy
import random

from .. import expr as X
from ..common import base_result, gen_cfg
from ..holdmodel import DEVIATIONS, timeline
from ..world import World

PROPERTY = "C05"
LEVEL = "exploration"
RULE = (
    "seeded generation over the 27 (check_now, hold, hold_false) combinations x initial truth x decorator or "
    "task.wait_until form x both subsystems x timed histories (<=18/30 instants on a 0.25 s grid, S and H off "
    "the grid) of value flips, attribute-only updates and unwatched changes; distinct = scenario digest; "
    "non-trivial = a hold or hold_false period was armed and an event fell inside it"
)
ASSUMPTIONS = [
    "event instants are on a 0.25 s grid (+ a few loop passes); S, H keep >= 0.1 s distance from every grid sum, "
    "so no oracle verdict depends on a tie; stalls are < 50 ms",
    "bursts at one instant touch a single entity (bursts across different never-notified variables are C04's finding)",
    "mixing any-change names with state_hold_false is not generated (undefined by docs)",
    "watch= is only combined with expressions over entity values (no .old: names that are not listed in watch= are "
    "C04's recorded finding C04-B1) and only entities that exist for the whole run; an entity the expression reads "
    "but watch= does not list is read when the expression is evaluated, its own changes cause no evaluation and "
    "touch no timer (property: 'changes that do not cause an evaluation (unwatched entities ...) affect none of "
    "these timers')",
    "hold timers are measured on the monotonic clock; wall-clock drift is irrelevant here",
]
TIERS = {
    "quick": {"runs": 1100, "chunk": 35, "max_inst": 18},
    "thorough": {"runs": 30000, "chunk": 150, "max_inst": 30},
}
REACH_PROBES = ["hold_armed", "hold_cancelled_by_false", "hold_expired_with_second_true", "nonevaluating_during_hold",
                "hold_false_too_soon", "hold_false_satisfied", "initial_check_fired", "attr_only_during_hold",
                "wait_until_form", "expression_reads_unwatched_entity", "watch_lists_entity_not_in_expression",
                "expression_reads_old", "unwatched_read_changed_during_hold", "attr_only_during_hold_old_expr"]
SHRINK_LISTS = [["ops"], ["spec", "funcs"]]

HOLDS = [0.6, 1.1, 2.35]
HOLD_FALSES = [0.4, 0.85, 1.6]
EXPRS = [
    ["cmp", ["v", "pyscript.v"], "==", "1"],
    ["cmp", ["v", "pyscript.v"], "!=", "0"],
    ["int", ["v", "pyscript.v"], ">=", 1],
    ["or", ["cmp", ["v", "pyscript.v"], "==", "1"], ["cmp", ["v", "pyscript.w"], "==", "1"]],
    ["and", ["cmp", ["v", "pyscript.v"], "!=", "0"], ["cmp", ["v", "pyscript.w"], "!=", "1"]],
]
# expressions that look at the previous value: an attribute-only update of pyscript.v (old value == new value) is
# still no evaluation for them
OLD_EXPRS = [
    ["and", ["cmp", ["v", "pyscript.v"], "==", "1"], ["cmp", ["old", "pyscript.v"], "!=", "1"]],
    ["cmp", ["old", "pyscript.v"], "==", "1"],
    ["or", ["cmp", ["old", "pyscript.v"], "==", "0"], ["cmp", ["v", "pyscript.w"], "==", "1"]],
]
GRID = 0.25
T_FIRST = 1.0


def gen(rng: random.Random, tier: str) -> dict:
    cfg = gen_cfg(rng)
    cfg["exec_latency_ms"] = [0.0, 0.0]
    cfg["drift"] = 0.0
    funcs = []
    form = "wait_until" if rng.random() < 0.3 else "decorator"
    for fi in range(1 if form == "wait_until" else rng.choice([1, 1, 2])):
        funcs.append({
            "name": f"f{fi}",
            # in task.wait_until an exception of the expression is raised to the caller (C15): no raising form
            "expr": rng.choice(EXPRS if form == "decorator" else EXPRS[:2] + EXPRS[3:]),
            "check_now": rng.choice([None, False, True]),
            "hold": rng.choice([None, None, 0, rng.choice(HOLDS), rng.choice(HOLDS)]),
            "hold_false": rng.choice([None, None, 0, rng.choice(HOLD_FALSES), rng.choice(HOLD_FALSES)]),
        })
        roll = rng.random()
        if roll < 0.2:
            funcs[-1]["expr"] = rng.choice(OLD_EXPRS)
        elif roll < 0.45 and form == "decorator":
            # watch=: only the listed entities cause evaluations; the expression may read entities that are not
            # listed (their changes touch no timer) and the list may name entities the expression does not read
            if rng.random() < 0.6:
                funcs[-1]["expr"] = rng.choice(EXPRS[3:])  # reads pyscript.v and pyscript.w
            if rng.random() < 0.5:
                funcs[-1]["hold"] = rng.choice(HOLDS)
            ents = sorted({r[1] for r in X.refs(funcs[-1]["expr"])})
            opts = [["pyscript.v"], ["pyscript.v", "pyscript.u"], ["pyscript.u", "pyscript.v", "pyscript.w"]]
            if "pyscript.w" in ents:
                opts += [["pyscript.w"], ["pyscript.v"], ["pyscript.v"]]
            funcs[-1]["watch"] = rng.choice(opts)
    initial = {"pyscript.v": [rng.choice(["0", "1", "1", "2"]), {"a": 0}],
               "pyscript.w": [rng.choice(["0", "0", "1"]), {}],
               "pyscript.u": ["0", {}]}
    ops = []
    k = 0
    if form == "wait_until":
        ops.append({"k": 0, "kind": "call"})
    # an entity the expression reads without watching it changes more often (between two evaluations, during holds)
    reads_unwatched = any(f.get("watch") is not None and "pyscript.w" not in f["watch"]
                          and any(r[1] == "pyscript.w" for r in X.refs(f["expr"])) for f in funcs)
    for _ in range(rng.randint(3, TIERS[tier]["max_inst"])):
        k += rng.choice([1, 1, 2, 3, 4, 6, 10])
        roll = rng.random()
        if reads_unwatched and roll < 0.3:
            roll = 0.7  # pyscript.w
        if roll < 0.6:
            ent = "pyscript.v"
        elif roll < 0.75:
            ent = "pyscript.w"
        elif roll < 0.88:
            ent = "pyscript.u"
        else:
            ent = "attr"
        n = rng.choice([1, 1, 1, 2, 3])
        for _j in range(n):
            if ent == "attr":
                ops.append({"k": k, "kind": "attr", "a": rng.randint(1, 99)})
            else:
                vals = ["0", "1", "2", "x"] if ent == "pyscript.v" else ["0", "1"]
                ops.append({"k": k, "kind": "set", "e": ent, "s": rng.choice(vals)})
        if rng.random() < 0.05:
            ops.append({"k": k, "kind": "stall", "s": rng.choice([0.005, 0.03])})
    cfg["initial_states"] = initial
    return {"cfg": cfg, "spec": {"form": form, "funcs": funcs}, "ops": ops}


def _kw_src(func: dict) -> str:
    parts = []
    if func["check_now"] is not None:
        parts.append(f"state_check_now={func['check_now']}")
    if func["hold"] is not None:
        parts.append(f"state_hold={func['hold']}")
    if func["hold_false"] is not None:
        parts.append(f"state_hold_false={func['hold_false']}")
    if func.get("watch") is not None:
        parts.append(f"watch={list(func['watch'])!r}")
    return ", ".join(parts)


def render(scn: dict) -> dict:
    lines = []
    for func in scn["spec"]["funcs"]:
        src = X.to_src(func["expr"])
        kw = _kw_src(func)
        if scn["spec"]["form"] == "decorator":
            lines.append(f"@state_trigger({src!r}{', ' + kw if kw else ''})")
            lines.append(f"def {func['name']}(**kw):")
            lines.append(f"    sim.mark({func['name']!r}, **kw)")
        else:
            lines.append("@service")
            lines.append(f"def {func['name']}():")
            lines.append(f"    sim.mark({func['name']!r}, 'called')")
            lines.append(f"    ret = task.wait_until(state_trigger={src!r}{', ' + kw if kw else ''})")
            lines.append(f"    sim.mark({func['name']!r}, 'ret', **ret)")
        lines.append("")
    return {"pyscript/c05.py": "\n".join(lines) + "\n"}


def normalize(scn: dict) -> dict | None:
    if not scn["spec"]["funcs"]:
        return None
    if scn["spec"]["form"] == "wait_until" and not any(op["kind"] == "call" for op in scn["ops"]):
        scn["ops"].insert(0, {"k": 0, "kind": "call"})
    return scn


def simplify(scn: dict):
    for fi, func in enumerate(scn["spec"]["funcs"]):
        if func["expr"] != EXPRS[0]:
            cand = copy.deepcopy(scn)
            cand["spec"]["funcs"][fi]["expr"] = EXPRS[0]
            yield cand
    for key, val in (("timer_late_ms", 0.0), ("cost_us", 50), ("set_order_salt", 0)):
        if scn["cfg"].get(key) != val:
            cand = copy.deepcopy(scn)
            cand["cfg"][key] = val
            yield cand


def warmup() -> None:
    scn = gen(random.Random(1), "quick")
    scn["ops"] = scn["ops"][:3]
    run(scn)


def run(scn: dict) -> dict:
    spec = scn["spec"]
    w = World(scn["cfg"], render(scn))
    info: dict = {}

    async def driver(w: World):
        await w.started()
        base = w.loop.vt
        info["base"] = base
        info["start_idx"] = len(w.bus_events)
        last_k = max([op["k"] for op in scn["ops"]] + [0])
        attrs = dict(w.hass.states.get("pyscript.v").attributes)
        for op in scn["ops"]:
            target = base + T_FIRST + op["k"] * GRID
            if target > w.loop.vt:
                await w.sleep(target - w.loop.vt)
            if op["kind"] == "set":
                if op["e"] == "pyscript.v":
                    w.set_state("pyscript.v", op["s"], attrs)
                else:
                    w.set_state(op["e"], op["s"], {})
            elif op["kind"] == "attr":
                cur = w.hass.states.get("pyscript.v")
                attrs = {"a": op["a"]}
                w.set_state("pyscript.v", cur.state if cur else "0", attrs)
            elif op["kind"] == "stall":
                w.loop.stall(op["s"])
                w.fault("stall")
            elif op["kind"] == "call":
                info["call_vt"] = w.loop.vt
                for func in spec["funcs"]:
                    await w.call_service("pyscript", func["name"], {}, blocking=False)
        end = base + T_FIRST + last_k * GRID + 4.0
        await w.sleep(end - w.loop.vt)
        await w.drain()
        info["end"] = w.loop.vt

    w.run(driver)
    violations, nontrivial, extra = oracle(w, scn, info)
    return base_result(w, violations, nontrivial, extra)


def _model_val(state_obj):
    return None if state_obj is None else (state_obj.state, dict(state_obj.attributes))


def _sv(val):
    return None if val is None else ["SV", val[0], {k: val[1][k] for k in sorted(val[1])}]


def oracle(w: World, scn: dict, info: dict):
    spec = scn["spec"]
    sub = "legacy" if w.cfg["legacy"] else "new"
    slack = 0.06 + w.cfg["timer_late_ms"] * 1e-3 + 60 * w.loop.cost
    violations = []
    # model values before the ops (initial states)
    model0 = {ent: (sv, dict(attrs or {})) for ent, (sv, attrs) in (w.cfg.get("initial_states") or {}).items()}
    # value history from the bus
    changes = []
    model = dict(model0)
    for idx, rec in enumerate(w.bus_events):
        if rec["type"] != "state_changed" or idx < info["start_idx"]:
            continue
        ent = rec["data"]["entity_id"]
        old, new = _model_val(rec["data"].get("old_state")), _model_val(rec["data"].get("new_state"))
        changes.append({"ent": ent, "old": old, "new": new, "vt": rec["vt"], "ctx": rec["ctx"].id,
                        "before": dict(model)})
        if new is None:
            model.pop(ent, None)
        else:
            model[ent] = new
    any_nontrivial = False
    for func in spec["funcs"]:
        watched = {r[1] for r in X.refs(func["expr"])}
        if func.get("watch") is not None:
            unread = set(func["watch"]) - watched
            unwatched = watched - set(func["watch"])
            watched = set(func["watch"])
            if unwatched:
                w.probe("expression_reads_unwatched_entity")
            if unread:
                w.probe("watch_lists_entity_not_in_expression")
        if any(r[0] == "old" for r in X.refs(func["expr"])):
            w.probe("expression_reads_old")
        check_now = func["check_now"]
        if spec["form"] == "wait_until":
            w.probe("wait_until_form")
            t0 = info.get("call_vt")
            if t0 is None:
                continue
            eff_check_now = True if check_now is None else check_now
            m_at = dict(model0)
            for ch in changes:
                if ch["vt"] <= t0:
                    if ch["new"] is None:
                        m_at.pop(ch["ent"], None)
                    else:
                        m_at[ch["ent"]] = ch["new"]
        else:
            t0 = w.vt_setup_done
            eff_check_now = bool(check_now)
            m_at = dict(model0)

        def env_at(mdl, ent=None, old=None, new=None):
            def env(kind, name):
                if kind == "v":
                    return new if name == ent else mdl.get(name)
                return old if name == ent else None
            return env

        init_truth, _ = X.truthy(func["expr"], env_at(m_at))
        evals = []
        nonevals = []
        for ch in changes:
            if ch["vt"] <= t0:
                continue
            args = {"trigger_type": "state", "var_name": ch["ent"], "value": _sv(ch["new"]),
                    "old_value": _sv(ch["old"])}
            is_eval = (ch["ent"] in watched and (ch["old"] or (None,))[0] != (ch["new"] or (None,))[0])
            if not is_eval:
                nonevals.append(ch)
                if ch["ent"] in watched:  # delivered to the trigger (subscribed entity) but not an evaluation
                    evals.append({"t": ch["vt"], "truth": None, "args": args, "id": ch["ctx"], "noneval": True})
                continue
            truth, _ = X.truthy(func["expr"], env_at(ch["before"], ch["ent"], ch["old"], ch["new"]))
            evals.append({"t": ch["vt"], "truth": truth, "args": args, "id": ch["ctx"]})
        first_only = spec["form"] == "wait_until"
        t_end = info["end"] - 0.5
        fires = timeline(t0, init_truth, evals, eff_check_now, func["hold"], func["hold_false"], t_end, first_only)
        if spec["form"] == "wait_until":
            obs = [m for m in w.marks if m["args"][0] == func["name"] and m["args"][1:2] == ["ret"]]
        else:
            obs = [m for m in w.marks if m["args"][0] == func["name"]]
        real_evals = [e for e in evals if not e.get("noneval")]
        desc = (f"{func['name']} [{spec['form']} {X.to_src(func['expr'])!r} {_kw_src(func)}] init={init_truth} "
                f"t0={t0 - info['base']:.3f}")
        sig = {"subsystem": sub, "form": spec["form"]}
        rel = lambda t: round(t - info["base"], 4)  # noqa: E731
        _probes(w, func, real_evals, nonevals, fires)
        if func["hold"] or func["hold_false"] is not None:
            if len(real_evals) >= 2 and (any(f["via"] == "hold" for f in fires) or func["hold_false"] is not None):
                any_nontrivial = True
        mism = _compare(fires, obs, slack)
        if not mism:
            continue
        # ---- label: smallest set of known deviations that reproduces the observation exactly
        why = "unexplained"
        import itertools
        found = False
        # only deviations already established for this subsystem / form are candidate explanations
        if sub == "new":
            cands = [d for d in DEVIATIONS if d != "wait_until_init_false_does_not_start_false_period"]
            if spec["form"] != "wait_until":
                cands.remove("wait_until_init_true_drops_hold_false")
        else:
            cands = ["wait_until_init_false_does_not_start_false_period"] if spec["form"] == "wait_until" else []
        for size in range(1, len(cands) + 1):
            for combo in itertools.combinations(cands, size):
                alt = timeline(t0, init_truth, evals, eff_check_now, func["hold"], func["hold_false"], t_end,
                               first_only, dev=frozenset(combo))
                if not _compare(alt, obs, slack):
                    why = "+".join(combo)
                    found = True
                    break
            if found:
                break
        exp_desc = [(rel(f["t"]), f["via"]) for f in fires]
        obs_desc = [rel(m["vt"]) for m in obs]
        history = (f"expected {exp_desc} observed {obs_desc}; evaluations "
                   f"{[(rel(e['t']), e['truth']) for e in real_evals]}; non-evaluating changes "
                   f"{[(rel(c['vt']), c['ent']) for c in nonevals]}")
        for kind, fexp, mobs in mism:
            vsig = dict(sig, why=why)
            if why == "unexplained":
                vsig.update({"check_now": func["check_now"], "hold": "S" if func["hold"] else func["hold"],
                             "hold_false": "H" if func["hold_false"] else func["hold_false"]})
            if kind == "args":
                got_kw = {k: v for k, v in mobs["kw"].items() if k != "context"}
                violations.append({"class": "C05.fire_args", "sig": vsig, "t": rel(mobs["vt"]),
                                   "detail": f"{desc}: fire at {rel(mobs['vt'])} carries {got_kw}, expected "
                                             f"{fexp['args']} (first event of the hold / the triggering event); {history}"})
            elif kind == "missing":
                violations.append({"class": "C05.missing_fire", "sig": vsig, "t": rel(fexp["t"]),
                                   "detail": f"{desc}: expected a fire at {rel(fexp['t'])} ({fexp['via']}, args "
                                             f"{fexp['args']}); {history}"})
            else:
                violations.append({"class": "C05.extra_fire", "sig": vsig, "t": rel(mobs["vt"]),
                                   "detail": f"{desc}: unexpected fire at {rel(mobs['vt'])} with {mobs['kw']}; {history}"})
    violations.sort(key=lambda v: v.get("t", 0.0))
    return violations, any_nontrivial, {"changes": len(changes)}


def _probes(w, func, evals, nonevals, fires):
    hold = func["hold"]
    if any(f["via"] == "hold" for f in fires) or (hold is not None and any(e["truth"] for e in evals)):
        w.probe("hold_armed")
    if any(f["id"] == "init" for f in fires):
        w.probe("initial_check_fired")
    if hold:
        for f in fires:
            if f["via"] != "hold":
                continue
            start = f["t"] - hold
            if any(start < e["t"] < f["t"] and e["truth"] for e in evals):
                w.probe("hold_expired_with_second_true")
            for ch in nonevals:
                if start < ch["vt"] < f["t"]:
                    w.probe("nonevaluating_during_hold")
                    if ch["ent"] == "pyscript.v":
                        w.probe("attr_only_during_hold")
                        if any(r[0] == "old" for r in X.refs(func["expr"])):
                            w.probe("attr_only_during_hold_old_expr")
                    elif func.get("watch") is not None and ch["ent"] in {r[1] for r in X.refs(func["expr"])}:
                        w.probe("unwatched_read_changed_during_hold")
        trues = [e for e in evals if e["truth"]]
        falses = [e for e in evals if not e["truth"]]
        if any(0 < fl["t"] - tr["t"] < hold for tr in trues for fl in falses):
            w.probe("hold_cancelled_by_false")
    if func["hold_false"] is not None:
        last_false = None
        for e in evals:
            if not e["truth"] and last_false is None:
                last_false = e["t"]
            elif e["truth"] and last_false is not None:
                if e["t"] - last_false < func["hold_false"]:
                    w.probe("hold_false_too_soon")
                else:
                    w.probe("hold_false_satisfied")
                last_false = None


def _compare(fires: list, obs: list, slack: float) -> list:
    """Align expected fires with observed runs in time order; return the mismatches."""
    out = []
    i = j = 0
    while i < len(fires) or j < len(obs):
        if i < len(fires) and j < len(obs):
            fexp, mobs = fires[i], obs[j]
            dt = mobs["vt"] - fexp["t"]
            if -1e-6 <= dt <= slack:
                got_kw = {k: v for k, v in mobs["kw"].items() if k != "context"}
                if got_kw != fexp["args"]:
                    out.append(("args", fexp, mobs))
                i += 1
                j += 1
            elif dt < -1e-6:
                out.append(("extra", None, mobs))
                j += 1
            else:
                out.append(("missing", fexp, None))
                i += 1
        elif i < len(fires):
            out.append(("missing", fires[i], None))
            i += 1
        else:
            out.append(("extra", None, obs[j]))
            j += 1
    return out
