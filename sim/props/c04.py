"""C04 - state triggers run the function for exactly the qualifying state changes.

Workload: 1-4 functions x 1-3 @state_trigger decorators (expressions, lists/sets,
any-change names, watch=, kwargs=) over 2-4 entities; histories of create / change
value / change attribute / re-set same / delete, one at a time, in bursts within one
loop pass or a few passes apart; bodies optionally sleep so earlier runs are alive.

Oracle: the state_changed events HA actually emitted are the history; for every
(event, decorator) the reference semantics (sim.expr + documented watch rules) say
must-run / must-not-run / don't-care.  Runs are attributed to events exactly through
the HA context id they receive.
"""

from __future__ import annotations

import random

from .. import expr as X
from ..common import apply_common, base_result, gen_cfg, gen_delay, wait_op
from ..world import World

PROPERTY = "C04"
LEVEL = "exploration"
RULE = (
    "seeded generation of (script with 1-4 functions x 1-3 @state_trigger decorators, timed history of "
    "<=25/40 set/remove ops incl. bursts); distinct = scenario digest; non-trivial = at least one expected "
    "run and at least one evaluated-but-false event"
)
ASSUMPTIONS = [
    "HA's state machine decides which async_set calls emit state_changed (observed on the real bus, not modelled)",
    "asyncio FIFO ready queue is kept; interleavings explored are stimulus timing, bursts, stalls, cost, hash order",
    "order is judged per decorator (each decorator is an independent trigger), not across decorators",
    "an expression that mentions X.old.attr but not X.attr: whether an attr-only change evaluates it is don't-care",
]
TIERS = {
    "quick": {"runs": 2400, "chunk": 75, "max_ops": 25},
    "thorough": {"runs": 60000, "chunk": 250, "max_ops": 40},
}
REACH_PROBES = ["burst3", "run_overlaps_event", "attr_only_update_value_watched", "delete_event",
                "expr_raised", "create_event", "same_set_no_event", "dontcare_eval"]
SHRINK_LISTS = [["ops"], ["spec", "funcs"], ["spec", "funcs", "*", "decs"]]

# one entity id is a string prefix of another, and so is one attribute name: names must be told apart as whole
# dotted components, not by prefix
ENT_POOL = ["pyscript.e", "pyscript.e1", "sensor.s2", "light.l3"]
ATTRS = ["a", "a1"]


# ------------------------------------------------------------------ generation
def _gen_dec(rng: random.Random, ents: list[str], attrs: list[str], idx: int) -> dict:
    args = []
    n = rng.choice([1, 1, 1, 2, 3])
    for _ in range(n):
        if rng.random() < 0.3:
            ent = rng.choice(ents)
            roll = rng.random()
            if roll < 0.5 or not attrs:
                name = ent
            elif roll < 0.8:
                name = f"{ent}.{rng.choice(attrs)}"
            else:
                name = f"{ent}.*"
            args.append({"t": "any", "name": name})
        else:
            args.append({"t": "expr", "e": X.gen_expr(rng, ents, attrs, depth=2)})
    dec = {"args": args, "group": rng.choice(["plain", "plain", "list", "set"]), "watch": None,
           "kwargs": {"dec": idx}}
    if rng.random() < 0.2 and all(a["t"] == "expr" for a in args):
        # watch= together with any-change names has no documented meaning: not generated
        pool = list(ents) + [f"{e}.{a}" for e in ents for a in attrs]
        dec["watch"] = sorted(rng.sample(pool, rng.randint(1, 2)))
        dec["watch_as"] = rng.choice(["list", "set"])
    if rng.random() < 0.15:
        dec["kwargs"]["var_name"] = "OVR"
    return dec


def gen(rng: random.Random, tier: str) -> dict:
    cfg = gen_cfg(rng)
    cfg["exec_latency_ms"] = [0.0, 0.0]  # no executor jobs on this path
    ents = ENT_POOL[: rng.randint(2, 4)]
    attrs = ATTRS[: rng.randint(0, 2)]
    funcs = []
    for fi in range(rng.randint(1, 4 if tier == "thorough" else 3)):
        decs = [_gen_dec(rng, ents, attrs, di) for di in range(rng.choice([1, 1, 2, 3]))]
        funcs.append({"name": f"f{fi}", "sleep": rng.choice([0, 0, 0.1, 0.6, 2.0]), "decs": decs})
    initial = {}
    for ent in ents:
        if rng.random() < 0.6:
            initial[ent] = [rng.choice(X.STATE_VALUES), {a: rng.choice(X.ATTR_VALUES) for a in attrs if rng.random() < 0.6}]
    cfg["initial_states"] = initial
    # a share of runs steers away from the two known findings (watch= with unlisted names; bursts that
    # change another, not yet notified variable) so that the rest of the property keeps being judged
    steer = rng.random() < 0.5
    if steer:
        for func in funcs:
            for dec in func["decs"]:
                dec["watch"] = None
    max_ops = TIERS[tier]["max_ops"]
    ops = []
    extra_ent = "input_text.unrelated"
    for _ in range(rng.randint(3, max_ops)):
        op = gen_delay(rng)
        roll = rng.random()
        if roll < 0.08:
            op.update({"kind": "remove", "e": rng.choice(ents)})
        elif roll < 0.13:
            op.update({"kind": "set", "e": extra_ent, "s": rng.choice(X.STATE_VALUES), "a": {}})
        elif roll < 0.16:
            op.update({"kind": "stall", "s": rng.choice([0.01, 0.2, 1.5])})
        elif roll < 0.19:
            op.update({"kind": "fire", "type": "unrelated_event", "data": {"n": rng.randint(0, 9)}})
        else:
            a = {at: rng.choice(X.ATTR_VALUES) for at in attrs if rng.random() < 0.6}
            op.update({"kind": "set", "e": rng.choice(ents), "s": rng.choice(X.STATE_VALUES), "a": a})
        if steer and ops and "dt" in op and op["dt"] == 0.0 or (steer and op.get("passes")):
            prev = ops[-1] if ops else None
            same = prev is not None and prev.get("e") == op.get("e") and op["kind"] in ("set", "remove")
            if not same:
                op.pop("passes", None)
                op["dt"] = 0.25 * rng.randint(1, 4)
        ops.append(op)
    return {"cfg": cfg, "spec": {"ents": ents, "attrs": attrs, "funcs": funcs, "steer": steer}, "ops": ops}


# ------------------------------------------------------------------ rendering
def _dec_src(dec: dict) -> str:
    items = []
    for arg in dec["args"]:
        items.append(arg["name"] if arg["t"] == "any" else X.to_src(arg["e"]))
    if dec["group"] == "plain" or not items:
        pos = ", ".join(repr(s) for s in items)
    elif dec["group"] == "list":
        pos = "[" + ", ".join(repr(s) for s in items) + "]"
    else:
        pos = "{" + ", ".join(repr(s) for s in items) + "}"
    kw = []
    if dec.get("watch") is not None:
        if dec.get("watch_as") == "set":
            kw.append("watch={" + ", ".join(repr(s) for s in dec["watch"]) + "}")
        else:
            kw.append(f"watch={dec['watch']!r}")
    kw.append(f"kwargs={dec['kwargs']!r}")
    return f"@state_trigger({', '.join([pos] + kw)})"


def render(scn: dict) -> dict:
    lines = []
    for func in scn["spec"]["funcs"]:
        if not func["decs"]:
            continue
        for dec in func["decs"]:
            if dec["args"]:
                lines.append(_dec_src(dec))
        lines.append(f"def {func['name']}(**kw):")
        lines.append(f"    sim.mark({func['name']!r}, **kw)")
        if func["sleep"]:
            lines.append("    mine = kw.get('value')")
            lines.append(f"    task.sleep({func['sleep']})")
            # after the suspension the run must still see its own arguments and locals
            lines.append(f"    sim.mark({func['name']!r}, 'after_sleep', mine=mine, **kw)")
        lines.append("")
    return {"pyscript/c04.py": "\n".join(lines) + "\n"}


def normalize(scn: dict) -> dict | None:
    funcs = [f for f in scn["spec"]["funcs"] if any(d["args"] for d in f["decs"])]
    if not funcs:
        return None
    scn["spec"]["funcs"] = funcs
    for func in funcs:
        func["decs"] = [d for d in func["decs"] if d["args"]]
    return scn


def simplify(scn: dict):
    """Per-op / per-decorator simplifications tried after ddmin."""
    import copy

    for i, op in enumerate(scn["ops"]):
        if op.get("passes"):
            cand = copy.deepcopy(scn)
            cand["ops"][i].pop("passes")
            cand["ops"][i]["dt"] = 0.25
            yield cand
        if op["kind"] == "set" and op.get("a"):
            cand = copy.deepcopy(scn)
            cand["ops"][i]["a"] = {}
            yield cand
    for fi, func in enumerate(scn["spec"]["funcs"]):
        if func["sleep"]:
            cand = copy.deepcopy(scn)
            cand["spec"]["funcs"][fi]["sleep"] = 0
            yield cand
        for di, dec in enumerate(func["decs"]):
            if len(dec["args"]) > 1:
                for ai in range(len(dec["args"])):
                    cand = copy.deepcopy(scn)
                    del cand["spec"]["funcs"][fi]["decs"][di]["args"][ai]
                    yield cand
            if dec.get("watch") is not None:
                cand = copy.deepcopy(scn)
                cand["spec"]["funcs"][fi]["decs"][di]["watch"] = None
                yield cand
            for ai, arg in enumerate(dec["args"]):
                if arg["t"] == "expr" and arg["e"][0] in ("and", "or"):
                    for sub in (1, 2):
                        cand = copy.deepcopy(scn)
                        cand["spec"]["funcs"][fi]["decs"][di]["args"][ai]["e"] = arg["e"][sub]
                        yield cand
                if arg["t"] == "expr" and arg["e"][0] == "not":
                    cand = copy.deepcopy(scn)
                    cand["spec"]["funcs"][fi]["decs"][di]["args"][ai]["e"] = arg["e"][1]
                    yield cand
    if scn["cfg"].get("initial_states"):
        for ent in list(scn["cfg"]["initial_states"]):
            cand = copy.deepcopy(scn)
            del cand["cfg"]["initial_states"][ent]
            yield cand
    for key, val in (("timer_late_ms", 0.0), ("drift", 0.0), ("cost_us", 50)):
        if scn["cfg"].get(key) != val:
            cand = copy.deepcopy(scn)
            cand["cfg"][key] = val
            yield cand


# ------------------------------------------------------------------ reference semantics
def _val(state_obj):
    """HA State -> model value."""
    if state_obj is None:
        return None
    return (state_obj.state, dict(state_obj.attributes))


def _sv(val):
    """Model value -> normalised StateVal as world.norm prints it."""
    if val is None:
        return None
    return ["SV", val[0], {k: val[1][k] for k in sorted(val[1])}]


def _attr(val, attr):
    return None if val is None else val[1].get(attr)


def _state(val):
    return None if val is None else val[0]


def any_match(name: str, ent: str, old, new) -> bool:
    parts = name.split(".")
    if f"{parts[0]}.{parts[1]}" != ent:
        return False
    if len(parts) == 2:
        return _state(old) != _state(new)
    if parts[2] == "*":
        keys = set(old[1] if old else {}) | set(new[1] if new else {})
        return any(_attr(old, k) != _attr(new, k) for k in keys)
    return _attr(old, parts[2]) != _attr(new, parts[2])


def watched_changed(names: set[str], ent: str, old, new) -> bool:
    for name in names:
        parts = name.split(".")
        if len(parts) < 2 or len(parts) > 3:
            continue
        if f"{parts[0]}.{parts[1]}" != ent:
            continue
        if len(parts) == 2 or parts[2] == "old":
            if _state(old) != _state(new):
                return True
        elif parts[2] == "*":
            continue
        elif _attr(old, parts[2]) != _attr(new, parts[2]):
            return True
    return False


def decide(dec: dict, ent: str, old, new, model: dict, future: dict | None = None,
           notified: set | None = None, watch_raise: bool = False) -> tuple[str, bool]:
    """Return (verdict, raised): verdict in must / no / may.

    The reference semantics are the defaults.  ``future``/``notified`` and ``watch_raise`` switch on
    *explanatory* alternative semantics that are only used to label a mismatch (never to excuse one):
    - future: another variable that has not been notified since the trigger started (or that is not
      subscribed at all because watch= leaves it out) is read when the expression is evaluated, i.e.
      possibly after later changes of the same burst;
    - watch_raise: with watch=, a name of the expression that is not listed in watch and whose value
      is undefined raises instead of reading as None.
    """
    anys = [a["name"] for a in dec["args"] if a["t"] == "any"]
    exprs = [a["e"] for a in dec["args"] if a["t"] == "expr"]
    if any(any_match(n, ent, old, new) for n in anys):
        return "must", False
    if dec.get("watch") is not None:
        strict = set(dec["watch"])
        loose = set(strict)
    else:
        strict = set(anys)
        loose = set(anys)
        for tree in exprs:
            for ref in X.refs(tree):
                if ref[0] == "oldattr":
                    loose.add(f"{ref[1]}.{ref[2]}")
                else:
                    strict.add(X.ref_src(ref))
                    loose.add(X.ref_src(ref))
    must_eval = watched_changed(strict, ent, old, new)
    may_eval = must_eval or watched_changed(loose, ent, old, new)
    if not may_eval:
        return "no", False
    if not exprs:
        return "no", False
    watch_ents = None
    if dec.get("watch") is not None:
        watch_ents = {".".join(n.split(".")[:2]) for n in dec["watch"]}

    def env(kind, name):
        if kind == "v":
            return new if name == ent else model.get(name)
        return old if name == ent else None

    def deferred(name):
        """In the alternative semantics: is this entity read when the expression is evaluated?"""
        return name != ent and (name not in (notified or ()) or (watch_ents is not None and name not in watch_ents))

    look = None
    if future is not None or watch_raise:
        def look(ref):
            kind, name = ref[0], ref[1]
            dotted = X.ref_src(ref)
            unlisted = (watch_raise and dec.get("watch") is not None and dotted not in dec["watch"]
                        and not (name == ent and kind in ("v", "old")))
            if kind in ("v", "attr") and future is not None and deferred(name) and not unlisted:
                snap = model.get(name)
                if snap is None or (kind == "attr" and ref[2] not in snap[1]):
                    return None  # undefined when the event was delivered: frozen as None
                fut = future.get(name)
                if fut is None or (kind == "attr" and ref[2] not in fut[1]):
                    raise X.EvalError("gone at evaluation time")
                return fut[0] if kind == "v" else fut[1][ref[2]]
            if unlisted:
                # not pre-set by the snapshot: resolved when evaluated, undefined raises
                # (an unlisted attribute of the changed entity itself is also resolved when evaluated)
                src = future if (future is not None and kind in ("v", "attr") and not (name == ent and kind == "v")) else None
                base = env("v" if kind in ("v", "attr") else "old", name) if src is None else src.get(name)
                if kind in ("old", "oldattr") and name != ent:
                    raise X.EvalError("undefined .old of unlisted name")
                if base is None:
                    raise X.EvalError("undefined unlisted name")
                if kind in ("attr", "oldattr"):
                    if ref[2] not in base[1]:
                        raise X.EvalError("undefined attribute of unlisted name")
                    return base[1][ref[2]]
                return base[0]
            return X._lookup(ref, env)  # pylint: disable=protected-access

    raised = False
    truth = False
    for tree in exprs:  # any([...]) evaluates every element; an exception in any makes the whole false
        val, rsd = X.truthy(tree, env, look)
        raised = raised or rsd
        truth = truth or val
    if raised:
        truth = False
    if must_eval:
        return ("must" if truth else "no"), raised
    return ("may" if truth else "no"), raised


# ------------------------------------------------------------------ run + oracle
def warmup() -> None:
    scn = gen(random.Random(1), "quick")
    scn["ops"] = scn["ops"][:2]
    run(scn)


def run(scn: dict) -> dict:
    spec = scn["spec"]
    w = World(scn["cfg"], render(scn))
    max_sleep = max([f["sleep"] for f in spec["funcs"]] + [0])

    async def driver(w: World):
        await w.started()
        w.natives["start_event_idx"] = len(w.bus_events)
        burst = 0
        for op in scn["ops"]:
            await wait_op(w, op)
            if op.get("dt", 0.0) > 0 or op.get("passes", 0) > 0:
                burst = 0
            burst += 1
            if burst == 3:
                w.probe("burst3")
            await apply_common(w, op)
        await w.settle(max_sleep + 1.0)

    w.run(driver)
    violations, nontrivial, extra = oracle(w, scn)
    return base_result(w, violations, nontrivial, extra)


def oracle(w: World, scn: dict):
    spec = scn["spec"]
    sub = "legacy" if w.cfg["legacy"] else "new"
    start = w.natives.get("start_event_idx", 0)
    # model of entity values as of each event, seeded from the events before the ops
    model: dict = {}
    events = []
    notified: set = set()
    for idx, rec in enumerate(w.bus_events):
        if rec["type"] != "state_changed":
            continue
        ent = rec["data"]["entity_id"]
        old, new = _val(rec["data"].get("old_state")), _val(rec["data"].get("new_state"))
        if idx >= start:
            events.append({"n": len(events), "ent": ent, "old": old, "new": new, "ctx": rec["ctx"].id,
                           "model": dict(model), "vt": rec["vt"], "iter": rec["iter"], "notified": set(notified)})
            notified.add(ent)
        if new is None:
            model.pop(ent, None)
        else:
            model[ent] = new
        if idx >= start:
            events[-1]["after"] = dict(model)
    # "future" model of an event: entity values after the last event of the same burst (a few passes)
    for i, ev in enumerate(events):
        futs = [ev["after"]]
        for later in events[i + 1 :]:
            if later["iter"] - ev["iter"] > 12:
                break
            futs.append(later["after"])
        ev["futures"] = futs
    by_ctx = {ev["ctx"]: ev for ev in events}
    # observed runs
    obs: dict = {}
    violations = []
    first_of_task: dict = {}
    for mark in w.marks:
        fname = mark["args"][0]
        raw = mark["raw_kw"]
        if mark["args"][1:2] == ["after_sleep"]:
            start = first_of_task.get(mark["task"])
            kw_after = {k: v for k, v in mark["kw"].items() if k != "mine"}
            if start is None or kw_after != start["kw"] or mark["kw"].get("mine") != start["kw"].get("value"):
                violations.append({"class": "C04.run_arguments_changed_while_suspended", "sig": {"subsystem": sub},
                                   "detail": f"{fname}: after task.sleep the run sees kwargs {kw_after} / local "
                                             f"{mark['kw'].get('mine')}, it started with {start and start['kw']}",
                                   "t": mark["t"]})
            continue
        first_of_task[mark["task"]] = mark
        dec_i = raw.get("dec")
        ctx = raw.get("context")
        ev = by_ctx.get(ctx.id) if ctx is not None else None
        if ev is None:
            violations.append({"class": "C04.spurious_run", "sig": {"subsystem": sub, "why": "unknown_event"},
                               "detail": f"{fname} dec {dec_i} ran for an event that is not a state change of the history: "
                                         f"{mark['kw']}", "t": mark["t"]})
            continue
        obs.setdefault((fname, dec_i), []).append((ev["n"], mark))
    n_expected = 0
    n_false_eval = 0
    for func in spec["funcs"]:
        for dec in func["decs"]:
            di = dec["kwargs"]["dec"]
            runs = obs.get((func["name"], di), [])
            seen: dict = {}
            last_n = -1
            for evn, mark in runs:
                seen.setdefault(evn, []).append(mark)
                if evn < last_n:
                    violations.append({"class": "C04.order", "sig": {"subsystem": sub},
                                       "detail": f"{func['name']} dec {di}: run for event {evn} started after event {last_n}",
                                       "t": mark["t"]})
                last_n = max(last_n, evn)
            for ev in events:
                verdict, raised = decide(dec, ev["ent"], ev["old"], ev["new"], ev["model"])
                if raised:
                    w.probe("expr_raised")
                got = seen.get(ev["n"], [])
                if verdict == "may":
                    w.probe("dontcare_eval")
                if verdict == "must":
                    n_expected += 1
                if verdict == "no" and not got:
                    n_false_eval += 1
                desc = (f"{func['name']} dec {di} [{_dec_src(dec)}] event#{ev['n']} {ev['ent']}: "
                        f"{ev['old']} -> {ev['new']} (others {ev['model']})")
                if len(got) > 1:
                    violations.append({"class": "C04.dup_run", "sig": {"subsystem": sub},
                                       "detail": desc + f" ran {len(got)} times", "t": got[1]["t"]})
                if verdict == "must" and not got:
                    violations.append({"class": "C04.lost_run", "sig": {"subsystem": sub, **_pattern(dec, ev, bool(got))},
                                       "detail": desc + " expected a run, none happened",
                                       "t": ev["vt"] - w.clock.vt0})
                if verdict == "no" and got:
                    violations.append({"class": "C04.spurious_run", "sig": {"subsystem": sub, **_pattern(dec, ev, bool(got))},
                                       "detail": desc + " expected no run, one happened", "t": got[0]["t"]})
                if got and verdict in ("must", "may"):
                    exp_kw = {"trigger_type": "state", "var_name": ev["ent"], "value": _sv(ev["new"]),
                              "old_value": _sv(ev["old"])}
                    exp_kw.update(dec["kwargs"])
                    got_kw = {k: v for k, v in got[0]["kw"].items() if k != "context"}
                    if got_kw != exp_kw:
                        violations.append({"class": "C04.wrong_kwargs", "sig": {"subsystem": sub},
                                           "detail": desc + f" kwargs {got_kw} != expected {exp_kw}",
                                           "t": got[0]["t"]})
    # reach probes computed from the history
    for ev in events:
        if ev["new"] is None:
            w.probe("delete_event")
        if ev["old"] is None:
            w.probe("create_event")
        if ev["old"] and ev["new"] and ev["old"][0] == ev["new"][0]:
            w.probe("attr_only_update_value_watched")
    n_sets = sum(1 for op in scn["ops"] if op["kind"] in ("set", "remove"))
    if n_sets > len(events):
        w.probe("same_set_no_event", n_sets - len(events))
    # a run still sleeping when a later event of the same function is handled
    for func in spec["funcs"]:
        if not func["sleep"]:
            continue
        times = sorted(m["vt"] for m in w.marks if m["args"][0] == func["name"])
        for a, b in zip(times, times[1:]):
            if b - a < func["sleep"]:
                w.probe("run_overlaps_event")
                break
    violations.sort(key=lambda v: v.get("t", 0.0))
    nontrivial = n_expected >= 1 and n_false_eval >= 1
    return violations, nontrivial, {"events": len(events), "expected_runs": n_expected, "runs": len(w.marks)}


def _pattern(dec: dict, ev: dict, ran: bool) -> dict:
    """Signature of a lost/spurious run: shape of the case and which alternative semantics explains it."""
    change = "create" if ev["old"] is None else "delete" if ev["new"] is None else (
        "attr_only" if ev["old"][0] == ev["new"][0] else "value")
    why = "unexplained"
    hyps = [("watch_unlisted_undefined_name_raises", {"watch_raise": True})]
    for fut in ev["futures"]:
        hyps.append(("other_var_read_at_eval_time", {"future": fut, "notified": ev["notified"]}))
    for fut in ev["futures"]:
        hyps.append(("other_var_read_at_eval_time+watch_unlisted_undefined_name_raises",
                     {"future": fut, "notified": ev["notified"], "watch_raise": True}))
    for label, kwargs in hyps:
        verdict, _ = decide(dec, ev["ent"], ev["old"], ev["new"], ev["model"], **kwargs)
        if (verdict in ("must", "may")) == ran or (verdict == "may"):
            why = label
            break
    return {"watch": dec.get("watch") is not None, "why": why, "change": change if why == "unexplained" else "*"}
