"""C04 - state triggers run the function for exactly the qualifying state changes.

Workload: 1-4 functions x 1-3 @state_trigger decorators (expressions, lists/sets,
any-change names, watch=, kwargs=) over 2-4 entities; histories of create / change
value / change attribute / re-set same / delete, one at a time, in bursts within one
loop pass or a few passes apart; bodies optionally sleep so earlier runs are alive.
A share of the scripts also uses calls inside the expressions (a method of the state value such as
``d.e.as_int()`` / ``d.e.lower()``, the pyscript function ``state.get('d.e')``), an attribute whose
name is also the name of a method of str (``count``), or an empty ``watch=`` list.

Oracle: the state_changed events HA actually emitted are the history; for every
(event, decorator) the reference semantics (sim.expr + documented watch rules) say
must-run / must-not-run / don't-care.  Runs are attributed to events exactly through
the HA context id they receive.
"""

from __future__ import annotations

import itertools
import random

from .. import expr as X
from ..common import apply_common, base_result, gen_cfg, gen_delay, wait_op
from ..world import World

PROPERTY = "C04"
LEVEL = "exploration"
RULE = (
    "seeded generation of (script with 1-4 functions x 1-3 @state_trigger decorators, timed history of "
    "<=25/40 set/remove ops incl. bursts); distinct = scenario digest; non-trivial = at least one expected "
    "run and at least one evaluated-but-false event; 25% of the scripts get call atoms (method of the value, "
    "state.get) in place of 35% of their atoms, 15% name an attribute like a method of str, 12% of the watch= "
    "lists are empty"
)
ASSUMPTIONS = [
    "HA's state machine decides which async_set calls emit state_changed (observed on the real bus, not modelled)",
    "asyncio FIFO ready queue is kept; interleavings explored are stimulus timing, bursts, stalls, cost, hash order",
    "order is judged per decorator (each decorator is an independent trigger), not across decorators",
    "an expression that mentions X.old.attr but not X.attr: whether an attr-only change evaluates it is don't-care",
    "a method call on a state value (d.e.as_int(), d.e.lower()) mentions the state variable d.e: its value is watched "
    "and read; only calls on current values (not on d.e.old) are generated",
    "state.get('d.e') inside an expression does not make d.e watched (reference.rst, watch=); it reads d.e when the "
    "expression is evaluated: the value right after the delivered change or after any later change of the same burst "
    "(0.2 s / 16 loop passes) - if those differ in truth the event is don't-care; an undefined name raises (false)",
    "an attribute whose name is also a method of str (count) and that neither the old nor the new value has: "
    "reference.rst says both 'undefined attributes read as None' and 'the value is a str with its methods', so for "
    "exactly that case it is don't-care whether the name reads as None or as a (non-None) method of the value and "
    "whether a change of the value counts as a change of the name; any-change names keep the attribute meaning",
    "watch=[] (or set()): nothing is watched, the expression is never evaluated",
]
TIERS = {
    "quick": {"runs": 2400, "chunk": 75, "max_ops": 25},
    "thorough": {"runs": 60000, "chunk": 250, "max_ops": 40},
}
REACH_PROBES = ["burst3", "run_overlaps_event", "attr_only_update_value_watched", "delete_event",
                "expr_raised", "create_event", "same_set_no_event", "dontcare_eval",
                "method_call_attr_only_event", "method_call_expected_run", "state_get_evaluated",
                "state_get_expected_run", "state_get_timing_dontcare", "method_named_attr_absent_event",
                "method_named_attr_ambiguous", "empty_watch_expr_names_changed"]
SHRINK_LISTS = [["ops"], ["spec", "funcs"], ["spec", "funcs", "*", "decs"]]

# one entity id is a string prefix of another, and so is one attribute name: names must be told apart as whole
# dotted components, not by prefix
GET_WINDOW_ITERS = 16
GET_WINDOW_S = 0.2
ENT_POOL = ["pyscript.e", "pyscript.e1", "sensor.s2", "light.l3"]
ATTRS = ["a", "a1"]


# ------------------------------------------------------------------ expressions with calls (local extension of sim.expr)
# ["meth", ["v", ent], name, op, rhs]   ->  ent.name() op rhs      (a method of the state value)
# ["get", [ent] | [ent, attr], op, rhs] ->  state.get('ent[.attr]') op rhs
METHOD_ATTR = "count"  # an attribute name that is also the name of a method of str
STATEVAL_METHODS = {"as_float", "as_int", "as_bool", "as_round", "as_datetime", "is_unknown", "is_unavailable",
                    "has_value"}


class _Method:
    """Stands for 'a bound method of the state value': not None, equal to nothing."""

    def __repr__(self):
        return "<method>"


_METHOD = _Method()


def is_method_name(attr: str) -> bool:
    return attr in STATEVAL_METHODS or callable(getattr(str, attr, None))


def e_src(node: list) -> str:
    kind = node[0]
    if kind == "meth":
        return f"{node[1][1]}.{node[2]}() {node[3]} {node[4]!r}"
    if kind == "get":
        return f"state.get({'.'.join(node[1])!r}) {node[2]} {node[3]!r}"
    if kind in ("and", "or"):
        return f"({e_src(node[1])} {kind} {e_src(node[2])})"
    if kind == "not":
        return f"(not {e_src(node[1])})"
    return X.to_src(node)


def e_atoms(node: list, out: list | None = None) -> list[list]:
    """All atoms of the expression, in source order."""
    if out is None:
        out = []
    if node[0] in ("and", "or"):
        e_atoms(node[1], out)
        e_atoms(node[2], out)
    elif node[0] == "not":
        e_atoms(node[1], out)
    else:
        out.append(node)
    return out


def e_refs(node: list) -> list[list]:
    """The refs to state variables the expression mentions (a method call mentions the value; state.get nothing)."""
    out = []
    for atom in e_atoms(node):
        if atom[0] == "meth":
            out.append(atom[1])
        elif atom[0] != "get":
            X.refs(atom, out)
    return out


def e_evaluate(node: list, look, getter):
    """Value of the expression; ``look(ref)`` reads a state variable ref (["meth", ent, name] = the value a
    method is called on), ``getter(target)`` is state.get; both may raise X.EvalError."""
    kind = node[0]
    if kind == "meth":
        base = look(["meth", node[1][1], node[2]])
        if base is None:
            raise X.EvalError("method of an undefined variable")
        if node[2] == "as_int":
            try:
                val = int(base)
            except (TypeError, ValueError) as exc:
                raise X.EvalError(type(exc).__name__) from exc
        else:
            val = getattr(base, node[2])()
        return X._REL[node[3]](val, node[4])  # pylint: disable=protected-access
    if kind == "get":
        return X._REL[node[2]](getter(node[1]), node[3])  # pylint: disable=protected-access
    if kind == "and":
        left = e_evaluate(node[1], look, getter)
        return e_evaluate(node[2], look, getter) if left else left
    if kind == "or":
        left = e_evaluate(node[1], look, getter)
        return left if left else e_evaluate(node[2], look, getter)
    if kind == "not":
        return not e_evaluate(node[1], look, getter)
    return X.evaluate(node, None, look)


def e_truthy(node: list, look, getter) -> tuple[bool, bool]:
    try:
        return bool(e_evaluate(node, look, getter)), False
    except X.EvalError:
        return False, True


def _gen_call_atom(rng: random.Random, ents: list[str], attrs: list[str]) -> list:
    ent = rng.choice(ents)
    roll = rng.random()
    if roll < 0.5:
        if attrs and rng.random() < 0.3:
            return ["get", [ent, rng.choice(attrs)], rng.choice(["==", "!="]), rng.choice(X.ATTR_VALUES)]
        return ["get", [ent], rng.choice(["==", "==", "!="]), rng.choice(X.STATE_VALUES)]
    if roll < 0.8:
        return ["meth", ["v", ent], "as_int", rng.choice(["<", "<=", ">", ">=", "=="]), rng.choice([0, 1, 2])]
    meth = rng.choice(["lower", "upper"])
    return ["meth", ["v", ent], meth, rng.choice(["==", "==", "!="]), getattr(rng.choice(X.STATE_VALUES), meth)()]


def _inject_calls(node: list, rng: random.Random, ents: list[str], attrs: list[str], rate: float) -> list:
    if node[0] in ("and", "or"):
        return [node[0], _inject_calls(node[1], rng, ents, attrs, rate), _inject_calls(node[2], rng, ents, attrs, rate)]
    if node[0] == "not":
        return ["not", _inject_calls(node[1], rng, ents, attrs, rate)]
    return _gen_call_atom(rng, ents, attrs) if rng.random() < rate else node


def _rename_attr(scn: dict, old: str, new: str) -> None:
    """Rename an attribute in every place of a scenario where attribute names occur."""

    def dotted(name: str) -> str:
        parts = name.split(".")
        return ".".join(parts[:2] + [new]) if len(parts) == 3 and parts[2] == old else name

    def tree(node: list) -> list:
        if node[0] in ("and", "or"):
            return [node[0], tree(node[1]), tree(node[2])]
        if node[0] == "not":
            return ["not", tree(node[1])]
        if node[0] == "const":
            return node
        if node[0] == "get":
            return ["get", [new if (i == 1 and p == old) else p for i, p in enumerate(node[1])]] + node[2:]
        ref = node[1]
        if ref[0] in ("attr", "oldattr") and ref[2] == old:
            return [node[0], [ref[0], ref[1], new]] + node[2:]
        return node

    spec = scn["spec"]
    spec["attrs"] = [new if a == old else a for a in spec["attrs"]]
    for func in spec["funcs"]:
        for dec in func["decs"]:
            for arg in dec["args"]:
                if arg["t"] == "any":
                    arg["name"] = dotted(arg["name"])
                else:
                    arg["e"] = tree(arg["e"])
            if dec.get("watch") is not None:
                dec["watch"] = [dotted(n) for n in dec["watch"]]
    for op in scn["ops"]:
        if op.get("a"):
            op["a"] = {(new if k == old else k): v for k, v in op["a"].items()}
    for val in scn["cfg"]["initial_states"].values():
        val[1] = {(new if k == old else k): v for k, v in val[1].items()}


def _extend(scn: dict, rng: random.Random) -> dict:
    """Round-5 situations, drawn from their own stream so that the rest of the scenario is what it was."""
    spec = scn["spec"]
    if rng.random() < 0.25:
        for func in spec["funcs"]:
            for dec in func["decs"]:
                for arg in dec["args"]:
                    if arg["t"] == "expr":
                        arg["e"] = _inject_calls(arg["e"], rng, spec["ents"], spec["attrs"], 0.35)
    for func in spec["funcs"]:
        for dec in func["decs"]:
            if dec.get("watch") is not None and rng.random() < 0.12:
                dec["watch"] = []
    if spec["attrs"] and rng.random() < 0.15:
        _rename_attr(scn, spec["attrs"][-1], METHOD_ATTR)
    return scn


# ------------------------------------------------------------------ generation
def _gen_dec(rng: random.Random, ents: list[str], attrs: list[str], idx: int) -> dict:
    args = []
    n = rng.choice([1, 1, 1, 2, 3])
    for _ in range(n):
        if rng.random() < 0.3:
            ent = rng.choice(ents)
            roll = rng.random()
            if roll < 0.5 or not attrs:
                name = ent
            elif roll < 0.8:
                name = f"{ent}.{rng.choice(attrs)}"
            else:
                name = f"{ent}.*"
            args.append({"t": "any", "name": name})
        else:
            args.append({"t": "expr", "e": X.gen_expr(rng, ents, attrs, depth=2)})
    dec = {"args": args, "group": rng.choice(["plain", "plain", "list", "set"]), "watch": None,
           "kwargs": {"dec": idx}}
    if rng.random() < 0.2 and all(a["t"] == "expr" for a in args):
        # watch= together with any-change names has no documented meaning: not generated
        pool = list(ents) + [f"{e}.{a}" for e in ents for a in attrs]
        dec["watch"] = sorted(rng.sample(pool, rng.randint(1, 2)))
        dec["watch_as"] = rng.choice(["list", "set"])
    if rng.random() < 0.15:
        dec["kwargs"]["var_name"] = "OVR"
    return dec


def gen(rng: random.Random, tier: str) -> dict:
    cfg = gen_cfg(rng)
    cfg["exec_latency_ms"] = [0.0, 0.0]  # no executor jobs on this path
    ents = ENT_POOL[: rng.randint(2, 4)]
    attrs = ATTRS[: rng.randint(0, 2)]
    funcs = []
    for fi in range(rng.randint(1, 4 if tier == "thorough" else 3)):
        decs = [_gen_dec(rng, ents, attrs, di) for di in range(rng.choice([1, 1, 2, 3]))]
        funcs.append({"name": f"f{fi}", "sleep": rng.choice([0, 0, 0.1, 0.6, 2.0]), "decs": decs})
    initial = {}
    for ent in ents:
        if rng.random() < 0.6:
            initial[ent] = [rng.choice(X.STATE_VALUES), {a: rng.choice(X.ATTR_VALUES) for a in attrs if rng.random() < 0.6}]
    cfg["initial_states"] = initial
    # a share of runs steers away from the two known findings (watch= with unlisted names; bursts that
    # change another, not yet notified variable) so that the rest of the property keeps being judged
    steer = rng.random() < 0.5
    if steer:
        for func in funcs:
            for dec in func["decs"]:
                dec["watch"] = None
    max_ops = TIERS[tier]["max_ops"]
    ops = []
    extra_ent = "input_text.unrelated"
    for _ in range(rng.randint(3, max_ops)):
        op = gen_delay(rng)
        roll = rng.random()
        if roll < 0.08:
            op.update({"kind": "remove", "e": rng.choice(ents)})
        elif roll < 0.13:
            op.update({"kind": "set", "e": extra_ent, "s": rng.choice(X.STATE_VALUES), "a": {}})
        elif roll < 0.16:
            op.update({"kind": "stall", "s": rng.choice([0.01, 0.2, 1.5])})
        elif roll < 0.19:
            op.update({"kind": "fire", "type": "unrelated_event", "data": {"n": rng.randint(0, 9)}})
        else:
            a = {at: rng.choice(X.ATTR_VALUES) for at in attrs if rng.random() < 0.6}
            op.update({"kind": "set", "e": rng.choice(ents), "s": rng.choice(X.STATE_VALUES), "a": a})
        if steer and ops and "dt" in op and op["dt"] == 0.0 or (steer and op.get("passes")):
            prev = ops[-1] if ops else None
            same = prev is not None and prev.get("e") == op.get("e") and op["kind"] in ("set", "remove")
            if not same:
                op.pop("passes", None)
                op["dt"] = 0.25 * rng.randint(1, 4)
        ops.append(op)
    scn = {"cfg": cfg, "spec": {"ents": ents, "attrs": attrs, "funcs": funcs, "steer": steer}, "ops": ops}
    return _extend(scn, random.Random(rng.getrandbits(48)))


# ------------------------------------------------------------------ rendering
def _dec_src(dec: dict) -> str:
    items = []
    for arg in dec["args"]:
        items.append(arg["name"] if arg["t"] == "any" else e_src(arg["e"]))
    if dec["group"] == "plain" or not items:
        pos = ", ".join(repr(s) for s in items)
    elif dec["group"] == "list":
        pos = "[" + ", ".join(repr(s) for s in items) + "]"
    else:
        pos = "{" + ", ".join(repr(s) for s in items) + "}"
    kw = []
    if dec.get("watch") is not None:
        if dec.get("watch_as") == "set":
            kw.append("watch={" + ", ".join(repr(s) for s in dec["watch"]) + "}" if dec["watch"] else "watch=set()")
        else:
            kw.append(f"watch={dec['watch']!r}")
    kw.append(f"kwargs={dec['kwargs']!r}")
    return f"@state_trigger({', '.join([pos] + kw)})"


def render(scn: dict) -> dict:
    lines = []
    for func in scn["spec"]["funcs"]:
        if not func["decs"]:
            continue
        for dec in func["decs"]:
            if dec["args"]:
                lines.append(_dec_src(dec))
        lines.append(f"def {func['name']}(**kw):")
        lines.append(f"    sim.mark({func['name']!r}, **kw)")
        if func["sleep"]:
            lines.append("    mine = kw.get('value')")
            lines.append(f"    task.sleep({func['sleep']})")
            # after the suspension the run must still see its own arguments and locals
            lines.append(f"    sim.mark({func['name']!r}, 'after_sleep', mine=mine, **kw)")
        lines.append("")
    return {"pyscript/c04.py": "\n".join(lines) + "\n"}


def normalize(scn: dict) -> dict | None:
    funcs = [f for f in scn["spec"]["funcs"] if any(d["args"] for d in f["decs"])]
    if not funcs:
        return None
    scn["spec"]["funcs"] = funcs
    for func in funcs:
        func["decs"] = [d for d in func["decs"] if d["args"]]
    return scn


def simplify(scn: dict):
    """Per-op / per-decorator simplifications tried after ddmin."""
    import copy

    for i, op in enumerate(scn["ops"]):
        if op.get("passes"):
            cand = copy.deepcopy(scn)
            cand["ops"][i].pop("passes")
            cand["ops"][i]["dt"] = 0.25
            yield cand
        if op["kind"] == "set" and op.get("a"):
            cand = copy.deepcopy(scn)
            cand["ops"][i]["a"] = {}
            yield cand
    for fi, func in enumerate(scn["spec"]["funcs"]):
        if func["sleep"]:
            cand = copy.deepcopy(scn)
            cand["spec"]["funcs"][fi]["sleep"] = 0
            yield cand
        for di, dec in enumerate(func["decs"]):
            if len(dec["args"]) > 1:
                for ai in range(len(dec["args"])):
                    cand = copy.deepcopy(scn)
                    del cand["spec"]["funcs"][fi]["decs"][di]["args"][ai]
                    yield cand
            if dec.get("watch") is not None:
                cand = copy.deepcopy(scn)
                cand["spec"]["funcs"][fi]["decs"][di]["watch"] = None
                yield cand
            for ai, arg in enumerate(dec["args"]):
                if arg["t"] == "expr" and arg["e"][0] in ("and", "or"):
                    for sub in (1, 2):
                        cand = copy.deepcopy(scn)
                        cand["spec"]["funcs"][fi]["decs"][di]["args"][ai]["e"] = arg["e"][sub]
                        yield cand
                if arg["t"] == "expr" and arg["e"][0] == "not":
                    cand = copy.deepcopy(scn)
                    cand["spec"]["funcs"][fi]["decs"][di]["args"][ai]["e"] = arg["e"][1]
                    yield cand
    if scn["cfg"].get("initial_states"):
        for ent in list(scn["cfg"]["initial_states"]):
            cand = copy.deepcopy(scn)
            del cand["cfg"]["initial_states"][ent]
            yield cand
    for key, val in (("timer_late_ms", 0.0), ("drift", 0.0), ("cost_us", 50)):
        if scn["cfg"].get(key) != val:
            cand = copy.deepcopy(scn)
            cand["cfg"][key] = val
            yield cand


# ------------------------------------------------------------------ reference semantics
def _val(state_obj):
    """HA State -> model value."""
    if state_obj is None:
        return None
    return (state_obj.state, dict(state_obj.attributes))


def _sv(val):
    """Model value -> normalised StateVal as world.norm prints it."""
    if val is None:
        return None
    return ["SV", val[0], {k: val[1][k] for k in sorted(val[1])}]


def _attr(val, attr):
    return None if val is None else val[1].get(attr)


def _state(val):
    return None if val is None else val[0]


def _has(val, attr) -> bool:
    return val is not None and attr in val[1]


def _attr_m(val, attr):
    """Explanatory semantics: a name that is not an attribute of the value but a method of it reads as the
    method; two methods are never equal."""
    if val is None:
        return None
    if attr in val[1]:
        return val[1][attr]
    return _Method() if is_method_name(attr) else None


def any_match(name: str, ent: str, old, new, method_always: bool = False) -> bool:
    parts = name.split(".")
    if f"{parts[0]}.{parts[1]}" != ent:
        return False
    if len(parts) == 2:
        return _state(old) != _state(new)
    if parts[2] == "*":
        keys = set(old[1] if old else {}) | set(new[1] if new else {})
        return any(_attr(old, k) != _attr(new, k) for k in keys)
    if method_always:
        return _attr_m(old, parts[2]) != _attr_m(new, parts[2])
    return _attr(old, parts[2]) != _attr(new, parts[2])


def watched_changed(names: set[str], ent: str, old, new, reading: str = "N", method_always: bool = False) -> bool:
    for name in sorted(names):
        parts = name.split(".")
        if len(parts) < 2 or len(parts) > 3:
            continue
        if f"{parts[0]}.{parts[1]}" != ent:
            continue
        if len(parts) == 2 or parts[2] == "old":
            if _state(old) != _state(new):
                return True
        elif parts[2] == "*":
            continue
        elif method_always:
            if _attr_m(old, parts[2]) != _attr_m(new, parts[2]):
                return True
        elif reading == "M" and is_method_name(parts[2]) and not _has(old, parts[2]) and not _has(new, parts[2]):
            # read as a method of the value: the value is what is mentioned
            if _state(old) != _state(new):
                return True
        elif _attr(old, parts[2]) != _attr(new, parts[2]):
            return True
    return False


def dec_exprs(dec: dict) -> list[list]:
    return [a["e"] for a in dec["args"] if a["t"] == "expr"]


def dec_forms(dec: dict, ent: str | None = None) -> list[str]:
    """Which of the special forms the decorator uses (restricted to names of ``ent`` if given)."""
    forms = set()
    for arg in dec["args"]:
        if arg["t"] == "any":
            parts = arg["name"].split(".")
            if len(parts) == 3 and is_method_name(parts[2]) and ent in (None, ".".join(parts[:2])):
                forms.add("method_named_attr")
            continue
        for atom in e_atoms(arg["e"]):
            if atom[0] == "get":
                forms.add("state_get")
                if len(atom[1]) == 2 and is_method_name(atom[1][1]) and ent in (None, atom[1][0]):
                    forms.add("method_named_attr")
            elif atom[0] == "meth":
                if ent in (None, atom[1][1]):
                    forms.add("method_call")
            elif atom[0] != "const" and atom[1][0] in ("attr", "oldattr") and is_method_name(atom[1][2]):
                if ent in (None, atom[1][1]):
                    forms.add("method_named_attr")
    for name in dec.get("watch") or []:
        parts = name.split(".")
        if len(parts) == 3 and is_method_name(parts[2]) and ent in (None, ".".join(parts[:2])):
            forms.add("method_named_attr")
    return sorted(forms)


def decide(dec: dict, ent: str, old, new, model: dict, **kwargs) -> tuple[str, bool]:
    return decide_full(dec, ent, old, new, model, **kwargs)[:2]


def decide_full(dec: dict, ent: str, old, new, model: dict, future: dict | None = None,
                notified: set | None = None, watch_raise: bool = False, gmodels: list | None = None,
                method_always: bool = False, get_raises: bool = False, unnotified_method_none: bool = False,
                info: dict | None = None) -> tuple[str, bool, bool]:
    """Return (verdict, raised, evaluated): verdict in must / no / may.

    Combines the readings the documentation leaves open (see ASSUMPTIONS): the two readings of an absent
    attribute named like a method of str, and the instants at which state.get() may read (``gmodels``: entity
    values right after this change and after the later changes of the same burst).  They give "may" when they
    disagree.  The other keyword arguments switch on *explanatory* alternative semantics that are only used to
    label a mismatch (never to excuse one), see decide_one.
    """
    forms = dec_forms(dec)
    readings = ["N", "M"] if "method_named_attr" in forms else ["N"]
    after = dict(model)
    if new is None:
        after.pop(ent, None)
    else:
        after[ent] = new
    gms = [after]
    if "state_get" in forms and gmodels:
        gms = gmodels
    results = []
    for reading in readings:
        for gmodel in gms:
            results.append(decide_one(dec, ent, old, new, model, reading, gmodel, future=future, notified=notified,
                                      watch_raise=watch_raise, method_always=method_always, get_raises=get_raises,
                                      unnotified_method_none=unnotified_method_none))
    verdicts = {r[0] for r in results}
    if info is not None:
        info["readings_differ"] = len({r[0] for r in results[:: len(gms)]}) > 1
        info["gets_differ"] = len({r[0] for r in results[: len(gms)]}) > 1
    verdict = verdicts.pop() if len(verdicts) == 1 else "may"
    return verdict, any(r[1] for r in results), any(r[2] for r in results)


def decide_one(dec: dict, ent: str, old, new, model: dict, reading: str, gmodel: dict, future: dict | None = None,
               notified: set | None = None, watch_raise: bool = False, method_always: bool = False,
               get_raises: bool = False, unnotified_method_none: bool = False) -> tuple[str, bool, bool]:
    """The reference semantics are the defaults.  ``future``/``notified``, ``watch_raise``, ``method_always`` and
    ``get_raises`` switch on explanatory alternative semantics:
    - future: another variable that has not been notified since the trigger started (or that is not
      subscribed at all because watch= leaves it out) is read when the expression is evaluated, i.e.
      possibly after later changes of the same burst;
    - watch_raise: with watch=, a name of the expression that is not listed in watch and whose value
      is undefined raises instead of reading as None;
    - method_always: a watched name d.e.x whose x is (also) a method of the value counts as changed at every
      event of d.e at which x is not an attribute of both values (methods never compare equal);
    - get_raises: without watch=, a dotted pyscript function (state.get) in the expression is not callable;
    - unnotified_method_none: without watch=, a method of str (lower) of another variable that has not been
      notified since the trigger started is not callable.
    """
    anys = [a["name"] for a in dec["args"] if a["t"] == "any"]
    exprs = dec_exprs(dec)
    if any(any_match(n, ent, old, new, method_always) for n in anys):
        return "must", False, False
    if dec.get("watch") is not None:
        strict = set(dec["watch"])
        loose = set(strict)
    else:
        strict = set(anys)
        loose = set(anys)
        for tree in exprs:
            for atom in e_atoms(tree):
                if atom[0] == "meth" and method_always:
                    strict.add(f"{atom[1][1]}.{atom[2]}")
                    loose.add(f"{atom[1][1]}.{atom[2]}")
            for ref in e_refs(tree):
                if ref[0] == "oldattr":
                    loose.add(f"{ref[1]}.{ref[2]}")
                else:
                    strict.add(X.ref_src(ref))
                    loose.add(X.ref_src(ref))
    must_eval = watched_changed(strict, ent, old, new, reading, method_always)
    may_eval = must_eval or watched_changed(loose, ent, old, new, reading, method_always)
    if not may_eval:
        return "no", False, False
    if not exprs:
        return "no", False, False
    watch_ents = None
    if dec.get("watch") is not None:
        watch_ents = {".".join(n.split(".")[:2]) for n in dec["watch"]}

    def env(kind, name):
        if kind == "v":
            return new if name == ent else model.get(name)
        return old if name == ent else None

    def deferred(name):
        """In the alternative semantics: is this entity read when the expression is evaluated?"""
        return name != ent and (name not in (notified or ()) or (watch_ents is not None and name not in watch_ents))

    def as_read(ref, val):
        """The open reading of an absent attribute that is named like a method of str."""
        if val is None and reading == "M" and ref[0] in ("attr", "oldattr") and is_method_name(ref[2]):
            if env("v" if ref[0] == "attr" else "old", ref[1]) is not None:
                return _METHOD
        return val

    def getter(target):
        if get_raises and dec.get("watch") is None:
            raise X.EvalError("state.get is None")
        val = gmodel.get(target[0])
        if val is None:
            raise X.EvalError("NameError")
        if len(target) == 1:
            return val[0]
        if target[1] not in val[1]:
            if reading == "M" and is_method_name(target[1]):
                return _METHOD
            raise X.EvalError("AttributeError")
        return val[1][target[1]]

    def look_ref(ref):
        return X._lookup(ref, env)  # pylint: disable=protected-access

    if future is not None or watch_raise:
        def look_ref(ref):  # noqa: F811  pylint: disable=function-redefined
            kind, name = ref[0], ref[1]
            dotted = ref[3] if len(ref) > 3 else X.ref_src(ref)
            unlisted = (watch_raise and dec.get("watch") is not None and dotted not in dec["watch"]
                        and not (name == ent and kind in ("v", "old") and len(ref) <= 3))
            if kind in ("v", "attr") and future is not None and deferred(name) and not unlisted:
                snap = model.get(name)
                if snap is None or (kind == "attr" and ref[2] not in snap[1]):
                    return None  # undefined when the event was delivered: frozen as None
                fut = future.get(name)
                if fut is None or (kind == "attr" and ref[2] not in fut[1]):
                    raise X.EvalError("gone at evaluation time")
                return fut[0] if kind == "v" else fut[1][ref[2]]
            if unlisted:
                # not pre-set by the snapshot: resolved when evaluated, undefined raises
                # (an unlisted attribute of the changed entity itself is also resolved when evaluated)
                src = future if (future is not None and kind in ("v", "attr")
                                 and not (name == ent and kind == "v" and len(ref) <= 3)) else None
                base = env("v" if kind in ("v", "attr") else "old", name) if src is None else src.get(name)
                if kind in ("old", "oldattr") and name != ent:
                    raise X.EvalError("undefined .old of unlisted name")
                if base is None:
                    raise X.EvalError("undefined unlisted name")
                if kind in ("attr", "oldattr"):
                    if ref[2] not in base[1]:
                        raise X.EvalError("undefined attribute of unlisted name")
                    return base[1][ref[2]]
                return base[0]
            return X._lookup(ref[:3], env)  # pylint: disable=protected-access

    def look(ref):
        if ref[0] == "meth":
            if (unnotified_method_none and dec.get("watch") is None and ref[2] not in STATEVAL_METHODS
                    and ref[1] != ent and ref[1] not in (notified or ())):
                raise X.EvalError("method is None")
            # the value the method is called on; the name pyscript knows it by is d.e.method
            return look_ref(["v", ref[1], None, f"{ref[1]}.{ref[2]}"])
        return as_read(ref, look_ref(ref))

    raised = False
    truth = False
    for tree in exprs:  # any([...]) evaluates every element; an exception in any makes the whole false
        val, rsd = e_truthy(tree, look, getter)
        raised = raised or rsd
        truth = truth or val
    if raised:
        truth = False
    if must_eval:
        return ("must" if truth else "no"), raised, True
    return ("may" if truth else "no"), raised, True


# ------------------------------------------------------------------ run + oracle
def warmup() -> None:
    scn = gen(random.Random(1), "quick")
    scn["ops"] = scn["ops"][:2]
    run(scn)


def run(scn: dict) -> dict:
    spec = scn["spec"]
    w = World(scn["cfg"], render(scn))
    max_sleep = max([f["sleep"] for f in spec["funcs"]] + [0])

    async def driver(w: World):
        await w.started()
        w.natives["start_event_idx"] = len(w.bus_events)
        burst = 0
        for op in scn["ops"]:
            await wait_op(w, op)
            if op.get("dt", 0.0) > 0 or op.get("passes", 0) > 0:
                burst = 0
            burst += 1
            if burst == 3:
                w.probe("burst3")
            await apply_common(w, op)
        await w.settle(max_sleep + 1.0)

    w.run(driver)
    violations, nontrivial, extra = oracle(w, scn)
    return base_result(w, violations, nontrivial, extra)


def oracle(w: World, scn: dict):
    spec = scn["spec"]
    sub = "legacy" if w.cfg["legacy"] else "new"
    start = w.natives.get("start_event_idx", 0)
    # model of entity values as of each event, seeded from the events before the ops
    model: dict = {}
    events = []
    notified: set = set()
    for idx, rec in enumerate(w.bus_events):
        if rec["type"] != "state_changed":
            continue
        ent = rec["data"]["entity_id"]
        old, new = _val(rec["data"].get("old_state")), _val(rec["data"].get("new_state"))
        if idx >= start:
            events.append({"n": len(events), "ent": ent, "old": old, "new": new, "ctx": rec["ctx"].id,
                           "model": dict(model), "vt": rec["vt"], "iter": rec["iter"], "notified": set(notified)})
            notified.add(ent)
        if new is None:
            model.pop(ent, None)
        else:
            model[ent] = new
        if idx >= start:
            events[-1]["after"] = dict(model)
    # "future" model of an event: entity values after the last event of the same burst (a few passes)
    for i, ev in enumerate(events):
        futs = [ev["after"]]
        for later in events[i + 1 :]:
            if later["iter"] - ev["iter"] > 12:
                break
            futs.append(later["after"])
        ev["futures"] = futs
        # instants at which a state.get() of the expression may read: from right after this change to the
        # end of the burst it belongs to
        gfuts = [ev["after"]]
        for later in events[i + 1 :]:
            if later["iter"] - ev["iter"] > GET_WINDOW_ITERS and later["vt"] - ev["vt"] >= GET_WINDOW_S:
                break
            gfuts.append(later["after"])
        ev["gfutures"] = gfuts
    by_ctx = {ev["ctx"]: ev for ev in events}
    # observed runs
    obs: dict = {}
    violations = []
    first_of_task: dict = {}
    for mark in w.marks:
        fname = mark["args"][0]
        raw = mark["raw_kw"]
        if mark["args"][1:2] == ["after_sleep"]:
            start = first_of_task.get(mark["task"])
            kw_after = {k: v for k, v in mark["kw"].items() if k != "mine"}
            if start is None or kw_after != start["kw"] or mark["kw"].get("mine") != start["kw"].get("value"):
                violations.append({"class": "C04.run_arguments_changed_while_suspended", "sig": {"subsystem": sub},
                                   "detail": f"{fname}: after task.sleep the run sees kwargs {kw_after} / local "
                                             f"{mark['kw'].get('mine')}, it started with {start and start['kw']}",
                                   "t": mark["t"]})
            continue
        first_of_task[mark["task"]] = mark
        dec_i = raw.get("dec")
        ctx = raw.get("context")
        ev = by_ctx.get(ctx.id) if ctx is not None else None
        if ev is None:
            violations.append({"class": "C04.spurious_run", "sig": {"subsystem": sub, "why": "unknown_event"},
                               "detail": f"{fname} dec {dec_i} ran for an event that is not a state change of the history: "
                                         f"{mark['kw']}", "t": mark["t"]})
            continue
        obs.setdefault((fname, dec_i), []).append((ev["n"], mark))
    n_expected = 0
    n_false_eval = 0
    for func in spec["funcs"]:
        for dec in func["decs"]:
            di = dec["kwargs"]["dec"]
            runs = obs.get((func["name"], di), [])
            seen: dict = {}
            last_n = -1
            for evn, mark in runs:
                seen.setdefault(evn, []).append(mark)
                if evn < last_n:
                    violations.append({"class": "C04.order", "sig": {"subsystem": sub},
                                       "detail": f"{func['name']} dec {di}: run for event {evn} started after event {last_n}",
                                       "t": mark["t"]})
                last_n = max(last_n, evn)
            for ev in events:
                info: dict = {}
                verdict, raised, evaluated = decide_full(dec, ev["ent"], ev["old"], ev["new"], ev["model"],
                                                         gmodels=ev["gfutures"], info=info)
                if raised:
                    w.probe("expr_raised")
                got = seen.get(ev["n"], [])
                _probe_forms(w, dec, ev, verdict, evaluated, info)
                for mark in got:
                    if "state_get" in dec_forms(dec) and mark["iter"] - ev["iter"] > GET_WINDOW_ITERS \
                            and mark["vt"] - ev["vt"] >= GET_WINDOW_S:
                        # the don't-care window of state.get() assumes an event is evaluated within it
                        raise RuntimeError(f"run started {mark['iter'] - ev['iter']} passes after its event: "
                                           "GET_WINDOW too small")
                if verdict == "may":
                    w.probe("dontcare_eval")
                if verdict == "must":
                    n_expected += 1
                if verdict == "no" and not got:
                    n_false_eval += 1
                desc = (f"{func['name']} dec {di} [{_dec_src(dec)}] event#{ev['n']} {ev['ent']}: "
                        f"{ev['old']} -> {ev['new']} (others {ev['model']})")
                if len(got) > 1:
                    violations.append({"class": "C04.dup_run", "sig": {"subsystem": sub},
                                       "detail": desc + f" ran {len(got)} times", "t": got[1]["t"]})
                if verdict == "must" and not got:
                    violations.append({"class": "C04.lost_run", "sig": {"subsystem": sub, **_pattern(dec, ev, bool(got))},
                                       "detail": desc + " expected a run, none happened",
                                       "t": ev["vt"] - w.clock.vt0})
                if verdict == "no" and got:
                    violations.append({"class": "C04.spurious_run", "sig": {"subsystem": sub, **_pattern(dec, ev, bool(got))},
                                       "detail": desc + " expected no run, one happened", "t": got[0]["t"]})
                if got and verdict in ("must", "may"):
                    exp_kw = {"trigger_type": "state", "var_name": ev["ent"], "value": _sv(ev["new"]),
                              "old_value": _sv(ev["old"])}
                    exp_kw.update(dec["kwargs"])
                    got_kw = {k: v for k, v in got[0]["kw"].items() if k != "context"}
                    if got_kw != exp_kw:
                        violations.append({"class": "C04.wrong_kwargs", "sig": {"subsystem": sub},
                                           "detail": desc + f" kwargs {got_kw} != expected {exp_kw}",
                                           "t": got[0]["t"]})
    # reach probes computed from the history
    for ev in events:
        if ev["new"] is None:
            w.probe("delete_event")
        if ev["old"] is None:
            w.probe("create_event")
        if ev["old"] and ev["new"] and ev["old"][0] == ev["new"][0]:
            w.probe("attr_only_update_value_watched")
    n_sets = sum(1 for op in scn["ops"] if op["kind"] in ("set", "remove"))
    if n_sets > len(events):
        w.probe("same_set_no_event", n_sets - len(events))
    # a run still sleeping when a later event of the same function is handled
    for func in spec["funcs"]:
        if not func["sleep"]:
            continue
        times = sorted(m["vt"] for m in w.marks if m["args"][0] == func["name"])
        for a, b in zip(times, times[1:]):
            if b - a < func["sleep"]:
                w.probe("run_overlaps_event")
                break
    violations.sort(key=lambda v: v.get("t", 0.0))
    nontrivial = n_expected >= 1 and n_false_eval >= 1
    return violations, nontrivial, {"events": len(events), "expected_runs": n_expected, "runs": len(w.marks)}


def _change_kind(ev: dict) -> str:
    return "create" if ev["old"] is None else "delete" if ev["new"] is None else (
        "attr_only" if ev["old"][0] == ev["new"][0] else "value")


def _probe_forms(w: World, dec: dict, ev: dict, verdict: str, evaluated: bool, info: dict) -> None:
    """Reach probes of the call / method-named-attribute / empty-watch situations."""
    forms = dec_forms(dec, ev["ent"])
    change = _change_kind(ev)
    if "method_call" in forms:
        if change == "attr_only":
            w.probe("method_call_attr_only_event")
        if verdict == "must":
            w.probe("method_call_expected_run")
    if "state_get" in forms:
        if evaluated:
            w.probe("state_get_evaluated")
        if verdict == "must":
            w.probe("state_get_expected_run")
        if info.get("gets_differ"):
            w.probe("state_get_timing_dontcare")
    if "method_named_attr" in forms:
        if not _has(ev["old"], METHOD_ATTR) and not _has(ev["new"], METHOD_ATTR):
            w.probe("method_named_attr_absent_event")
        if info.get("readings_differ"):
            w.probe("method_named_attr_ambiguous")
    if dec.get("watch") == [] and decide(dict(dec, watch=None), ev["ent"], ev["old"], ev["new"], ev["model"],
                                         gmodels=ev["gfutures"])[0] != "no":
        w.probe("empty_watch_expr_names_changed")


def _pattern(dec: dict, ev: dict, ran: bool) -> dict:
    """Signature of a lost/spurious run: shape of the case and which alternative semantics explains it."""
    change = _change_kind(ev)
    why = "unexplained"
    forms = dec_forms(dec)
    base = []
    if dec.get("watch") == []:
        base.append(("empty_watch_ignored", {"no_watch": True}))
    if "method_call" in forms or "method_named_attr" in forms:
        base.append(("method_name_counts_as_changed_at_every_event", {"method_always": True}))
    if "method_call" in forms:
        base.append(("str_method_of_unnotified_variable_is_None", {"unnotified_method_none": True,
                                                                   "notified": ev["notified"]}))
    if "state_get" in forms:
        base.append(("dotted_function_preset_to_None", {"get_raises": True}))
    hyps = []
    for size in range(1, len(base) + 1):
        for combo in itertools.combinations(base, size):
            kwargs = {}
            for _, kw in combo:
                kwargs.update(kw)
            hyps.append(("+".join(label for label, _ in combo), kwargs))
    hyps.append(("watch_unlisted_undefined_name_raises", {"watch_raise": True}))
    for fut in ev["futures"]:
        hyps.append(("other_var_read_at_eval_time", {"future": fut, "notified": ev["notified"]}))
    for fut in ev["futures"]:
        hyps.append(("other_var_read_at_eval_time+watch_unlisted_undefined_name_raises",
                     {"future": fut, "notified": ev["notified"], "watch_raise": True}))
    for label, kwargs in hyps:
        kwargs = dict(kwargs)
        hdec = dict(dec, watch=None) if kwargs.pop("no_watch", False) else dec
        verdict, _ = decide(hdec, ev["ent"], ev["old"], ev["new"], ev["model"], gmodels=ev["gfutures"], **kwargs)
        if (verdict in ("must", "may")) == ran or (verdict == "may"):
            why = label
            break
    sig = {"watch": dec.get("watch") is not None, "why": why, "change": change if why == "unexplained" else "*"}
    if why == "unexplained" and dec_forms(dec, ev["ent"]):
        sig["form"] = "+".join(dec_forms(dec, ev["ent"]))
    return sig
