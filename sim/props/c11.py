"""C11 - isolated global contexts, shared singleton modules (the interleaving-dependent clauses).

Workload: 2-4 generated files (script files pyscript/sa.py, sb.py, an app apps/xa/__init__.py, modules
modules/ma.py, mb.py, a package modules/pk/__init__.py + modules/pk/sub.py) that ALL define the same global
names (``tag``, ``counter``, ``shared``, ``import_token``, ``hop``, ``Box``/``box``, ``peek``) plus one name
only they define (``only_<file>``).  Import edges between them use every form (``import m``, ``from m import x as
y``, ``from m import *``, relative imports inside the package, and imports executed inside a function body).
Call chains <= 4 hops deep cross the files through the imported attribute, the from-imported name, the
star-imported name, a method of an object of the other file, or a callable handed down the chain (a module calling
back into a script).  Every hop marks its OWN file's globals by plain name, optionally suspends, bumps its own
``counter`` (``global counter; counter += 1``), calls the next hop, optionally raises, and marks its globals
again after the callee returned or raised.  Chains are started concurrently from @service functions,
@event_trigger functions and task.create, at generated instants, in both decorator subsystems, optionally
while a pyscript.reload is in flight.  A raising hop raises either from its function body or from inside a class body
(``rcls``: the class statement is the frame that raises).

Reloads: ``pyscript.reload`` without arguments after touching a module file, with ``global_ctx='*'``, with the name of
one script/app context, and with the name of a MODULE context (a module, a package, a file inside a package) - the
documented form that re-loads the named module together with everything that imports it; such a call may be followed,
once the runs are over, by a reload of just one entry file.  With ``reimport`` every file's final probe imports each
of its modules once more inside a function body (``import m as again`` / ``from . import sub as again``) and reports
which instance that statement handed out next to the instance the file holds from its load-time import.

Inner functions built across files: before a call into ANOTHER file the caller may first (``clo`` of a plan step) enter
a frame of its own file, ``shade_all`` / ``shade_none``, that contains inner defs - so its locals are closure-capable -
and, for ``shade_all``, has LOCAL variables, a local def and a local class named exactly like globals of every file
(``tag``, ``import_token``, ``counter``, ``label``, ``Box``).  From that frame it calls the other file's ``make(kind,
salt)`` (returns an inner function, or a bound method of a class defined inside ``make``) or applies the other file's
decorator ``wrap`` to a local function.  The inner function / wrapper refers to ITS file's globals by plain name (a
variable, the load token, the counter, a helper function, a module-level class) and to a genuine enclosing local.  It
is then run by the caller itself, by a task the caller creates, or by an ``@event_trigger`` function the caller
defines around it (fired by the driver once the runs are over), and reports what its names resolved to (``clor``).

Call made from inside a comprehension (``comp`` of a plan step): the caller hands the call to ``via_comp()``, a frame of
its own file WITHOUT inner defs, that calls the next hop from inside a list / set / dict comprehension whose loop
variable is named like its own local (``for d in [d + 100]``) and then marks its local ``d`` again (``cback``).

Trigger functions with expression strings (``spec.trigs``): files that are loaded at start-up define, after their
``loaded_end`` marker, trigger functions whose ``@event_trigger(type, expr)`` / ``@state_trigger(expr)`` /
``@state_active(expr)`` expression text names globals of the file it is written in (``limit`` - every file has one, each
a different value -, ``tag``, ``only_<file>``).  Most of them are also decorated with a user decorator that ANOTHER file
defines and that was obtained through an import edge (``@ma.twrap`` / ``@ma_twrap`` / ``@twrap_ma``): ``twrap`` returns
a new wrapper, ``tsame`` the function itself, ``texist`` an existing top-level function of the decorator's file.  ``fire``
ops (event / state change with a value n out of 5..75, racing the chains) make them trigger.

Imported names bound again (``spec.rebinds``): every file has four globals with its own name in them (``rbv_<f>`` a
value, ``rbf_<f>`` a function, ``Rbc_<f>`` a class, ``rbo_<f>`` an instance) and ``rb_view()``, its OWN reading of them.  An
importer binds the name under which it got one of them (the from-import alias, the star-imported name, a name assigned
from ``m.<name>``; at top level, or a local name inside a function that imports there) again in its own namespace:
assignment, augmented assignment, del, def, class, for target, except-as, walrus.  Afterwards (marker ``rebind``) and at
the final probe the exporting file's ``rb_view()`` is recorded.

Oracle (by construction): per file *instance* (identified by the token it drew at load time) the counter seen by
every mark must follow that instance's own bump history in recorded order; every mark must show the file's own
tag/token/context name and exactly the foreign names it star-imported; the per-run sequence of marks must be the
one the plan denotes (calls return / raise to the right frame); a file's top-level code runs at most once per
(re)load and all importers see one instance per module name.  An inner function built by file g for a frame of file f
must read g's tag / token / counter history / context name / helper / class and its own enclosing local whoever runs
it; the function f had decorated with g's decorator must read f's names although g's wrapper calls it; f's frame must
still read its own locals (or, without shadowing, f's globals) afterwards; without a reload every inner function
handed out reports exactly once.  Reloads by module name and the quiescent re-import add no rule of their own: the
re-imported instance is one more view in the final 'one live instance per module name' check.  A frame whose mark
carries the hop index of a frame it had called (its local ``d`` resolved in the callee's locals after the callee came
back or raised) is reported as C11.caller_context_not_restored / what=locals; so is a ``via_comp`` frame that reads the
comprehension's loop variable (d + 100) as its own ``d`` after the call (sig call_in_comprehension).  A trigger function
must run for a fire exactly if its expression is true with the globals of the file the expression is written in
(C11.foreign_globals / at=trigger_expression: fired_although_false always, not_fired_although_true when no reload was
issued); what the trigger function, the foreign wrapper and the foreign existing function read is judged like every
other mark.  The exporting file's own view of its four globals never changes, whatever importers do to THEIR names,
and the function its decorator handed out stays callable (C11.global_modified_by_other_file).
"""

from __future__ import annotations

import ast as _pyast
import copy
import random

from ..common import base_result, gen_cfg, gen_delay, wait_op
from ..world import HarnessError, World

PROPERTY = "C11"
LEVEL = "exploration"
RULE = (
    "seeded generation of (2-4 files out of 2 scripts / 1 app / 2 modules / 1 package with sibling, all defining the "
    "same global names; acyclic import edges with 1-2 forms each out of import / from-import / star / relative / "
    "function-body import; 2-6 runs = entry (service | event trigger | task.create) + chain of 1-4 hops chosen "
    "from the import edges, same-file calls and callbacks into upstream files, each hop with sleep / raise / "
    "catch-reraise-unguarded / spawn-as-new-task / (cross-file hops only, p=0.3) an inner function - closure, "
    "method of a function-local class, decorator wrapper - that the callee's file builds for a frame of the caller "
    "whose locals do or do not shadow the callee's global names, run by the caller, a created task or an "
    "@event_trigger closure; start instants in bursts, a few loop passes apart or on a "
    "0.25 s grid; a raising hop raises from its body or (coin per scenario, then p=0.4) from inside a class body; "
    "optional pyscript.reload (all / touched module / one named context: an entry file or a module, package or "
    "file inside a package that other files import) racing the runs, a reload that named a module optionally "
    "followed by a reload of one importing entry file after the runs; p=0.6 a function-body re-import of every "
    "imported module at the final quiescent point; per hop p=0.15 the call is made from inside a list / set / dict "
    "comprehension whose loop variable is named like a local of the calling frame; p=0.35 1-3 top-level trigger "
    "functions (event / state / event+state_active) whose expression strings name globals of their file, 75% of "
    "them decorated by another file's decorator (new wrapper 60% / same function 20% / an existing function of "
    "that file 20%), with 2-5 fire ops racing the runs; p=0.25 1-3 statements that bind a name obtained from "
    "another file (value / function / class / instance through from-import, star import, module attribute) again in "
    "the importer's namespace (assign / aug / del / def / class / for / except-as / walrus; top level or local); executor "
    "latency, cost, lateness from gen_cfg); distinct = scenario digest; non-trivial = at least two runs overlapped "
    "in time and at least one call crossed a file boundary"
)
ASSUMPTIONS = [
    "NOT decided here: equivalence of each import statement form with CPython's import semantics (which names an "
    "import binds, dotted 'import a.b', what the importer's own name reads after it was bound again) - a pure "
    "function of the program; judged IS (property: globals of one file are unmodifiable by every other one except "
    "through explicit import of a MODULE, i.e. assignment to an attribute of the module object) that binding an "
    "imported NAME again in the importer never changes what the exporting file's own code reads",
    "trigger decorator expression strings are text of the file they are written in: names in them resolve like names "
    "at the start of the trigger function (docs on @state_active: 'roughly equivalent to starting the trigger "
    "function with an if statement with the str_expr'), whoever defined the wrapper function that a user decorator "
    "put around the trigger function; a fire whose expression is true must run the function only if no "
    "pyscript.reload was issued in the scenario (a reload may take the trigger away for a while), duplicates are "
    "not judged (two racing loads of one module - C11-K1 - leave two live trigger functions)",
    "a decorator may return any function, also an existing top-level function of its own file (Python: the decorated "
    "name is then bound to that same function); the exporting file's own calls of that function must keep working. "
    "At most one trigger function per exporting file uses such a decorator, and only across files",
    "a comprehension is part of the frame that contains it: the call chain is routed through a frame without inner "
    "defs (via_comp) so that only 'the loop variable is still there after the callee came back / raised' is judged, "
    "not pyscript's handling of comprehension variables in closure-capable frames (single-file scoping)",
    "pyscript.set_global_ctx() is not generated (the docs discourage it in scripts and do not say what it means "
    "inside a function); Jupyter sessions are not generated here",
    "pyscript.get_global_ctx() inside a function is required to name the context of the file that defines the "
    "function (docs: 'returns the current global context name' + the naming table; property: a function always "
    "executes against the globals of its defining file)",
    "a marker and the statements up to the next suspension run without yielding to the loop, so markers are totally "
    "ordered and 'counter += 1' followed by its marker is atomic",
    "a file's top-level code may run again only if a pyscript.reload call was in flight at some moment between the "
    "end of its previous load and the start of the import/load that runs it again; two loads of one file that "
    "overlap in time are never legitimate; runs that do not start while a reload is in flight are don't-care; "
    "instance identity once a reload has been issued is judged only at the final quiescent probe",
    "pyscript.reload calls are issued one at a time (overlapping reloads hit defects outside C11 that make the "
    "entry points disappear); global_ctx may name a module: docs 'Additional files might still be reloaded too "
    "(... any modules, apps or scripts that import a module if global_ctx was set to a module)' - the oracle does "
    "not demand that the importers ARE re-loaded, only (property) that at the final quiescent point all live files "
    "and every further import statement agree on one instance per module name",
    "an import statement executed at the final quiescent point (no reload in flight, no load in progress) must hand "
    "out the instance the importing file already holds: 'importing a pyscript module any number of times from any "
    "number of files yields one shared module instance'",
    "a raise from inside a class body is one of the 'calls that raise': the frames above it must afterwards read "
    "their own locals and globals exactly as after a raise from a function body (same expected mark sequence)",
    "inner functions are only requested from ANOTHER file than the calling frame's: which scope a free name of an "
    "inner function binds to when the function that defines it was called from a frame of the SAME file is a "
    "question of lexical scoping inside one file (a pure function of the program), not of isolation between files "
    "(observed while building this: pyscript binds such a free name to a closure-capable local of that name in a "
    "same-file CALLER's frame, i.e. dynamic instead of lexical scoping; reported, not generated and not judged here)",
    "a trigger function or task that wraps an inner function may be taken away by a pyscript.reload: once a reload "
    "has been issued it is don't-care WHETHER an inner function reports, what it reports is still judged",
    "asyncio FIFO ready queue is kept; interleavings explored are start instants, sleeps, executor latency, cost",
]
TIERS = {
    "quick": {"runs": 5000, "chunk": 160},
    "thorough": {"runs": 160000, "chunk": 1000, "chunk_timeout": 1800},
}
REACH_PROBES = [
    "two_runs_overlap_in_different_contexts", "callee_raised_through_context_switch",
    "first_imports_in_flight_together", "import_during_reload", "chain_depth_3", "chain_depth_4",
    "from_import_star", "relative_import_hop", "method_hop", "callback_into_upstream_file",
    "task_create_cross_file", "same_instant_starts", "exception_through_unguarded_frame",
    "run_suspended_during_reload", "function_body_import", "old_instance_ran_after_reload",
    "inner_function_built_across_files", "inner_function_closure", "inner_function_cls", "inner_function_deco",
    "inner_function_run_by_direct", "inner_function_run_by_task", "inner_function_run_by_trigger",
    "caller_locals_shadow_callee_globals",
    "reload_names_module", "reload_names_loaded_module", "reload_names_module_with_importers",
    "importer_reloaded_with_named_module", "one_file_reloaded_after_named_module_reload",
    "reimport_at_quiescent_point", "callee_raised_in_class_body", "callee_raised_in_class_body_same_file",
    "call_in_comprehension", "callee_raised_in_comprehension",
    "trigger_fired_by_driver", "trigger_expression_names_file_globals", "trigger_function_decorated_by_other_file",
    "trigger_function_decorated_by_other_file_wrapper", "trigger_function_decorated_by_other_file_same",
    "trigger_function_decorated_by_other_file_existing",
    "imported_name_bound_again", "imported_name_bound_again_top", "imported_name_bound_again_local",
    "imported_class_bound_again",
]
SHRINK_LISTS = [["ops"], ["spec", "runs"], ["spec", "runs", "*", "plan"], ["spec", "edges"], ["spec", "trigs"],
                ["spec", "rebinds"]]

ENTRY_POOL = ["sa", "sb", "xa"]
MOD_ORDER = ["pk", "ps", "ma", "mb"]
ORDER = ENTRY_POOL + MOD_ORDER
CTX = {"sa": "file.sa", "sb": "file.sb", "xa": "apps.xa", "ma": "modules.ma", "mb": "modules.mb",
       "pk": "modules.pk", "ps": "modules.pk.sub"}
PATH = {"sa": "pyscript/sa.py", "sb": "pyscript/sb.py", "xa": "pyscript/apps/xa/__init__.py",
        "ma": "pyscript/modules/ma.py", "mb": "pyscript/modules/mb.py", "pk": "pyscript/modules/pk/__init__.py",
        "ps": "pyscript/modules/pk/sub.py"}
KIND = {"sa": "script", "sb": "script", "xa": "app", "ma": "module", "mb": "module", "pk": "module", "ps": "module"}
ABS_FORMS = ["attr", "from", "star", "lazy", "lazyfrom"]
REL_FORMS = ["rel", "relfrom", "relstar", "lazyrel"]
LAZY_FORMS = {"lazy", "lazyfrom", "lazyrel"}
STAR_FORMS = {"star", "relstar"}
SEQ_KINDS = {"start", "imp", "see", "spawned", "enter", "bumped", "back", "after", "badback", "clo", "cback"}
OWN_KINDS = {"start", "spawned", "enter", "bumped", "back", "after", "loaded_end", "badback", "clo", "cback",
             "trg", "twr", "tex"}
CLO_KINDS = ["closure", "cls", "deco"]
CLO_BY = ["direct", "task", "trigger"]
CLO_SHADOW = ["all", "none"]
# trigger functions whose decorator expression strings name globals of their own file ("limit", "tag", "only_<file>")
# (not monotone in ORDER: an importer's limit is above the limit of some of its modules and below that of others)
LIMIT = dict(zip(ORDER, [40, 20, 60, 10, 70, 30, 50]))
N_VALUES = [5, 15, 25, 35, 45, 55, 65, 75]
TRIG_KINDS = ["event", "state", "active"]
TRIG_DECOS = ["wrapper", "same", "existing"]
TRIG_DECO_FN = {"wrapper": "twrap", "same": "tsame", "existing": "texist"}
TRIG_EXPRS = ["limit", "tag", "only"]
# names a file obtained from another file and then binds again in its own namespace
RB_OBJS = ["val", "fn", "cls", "obj"]
RB_NAME = {"val": "rbv", "fn": "rbf", "cls": "Rbc", "obj": "rbo"}
RB_HOWS = ["assign", "aug", "del", "def", "class", "for", "exc", "walrus"]
RB_WHERE = ["top", "local"]
COMP_KINDS = ["list", "set", "dict"]


# ------------------------------------------------------------------ generation
def _edge_ok(src: str, dst: str, forms: list) -> bool:
    if src not in ORDER or dst not in MOD_ORDER or ORDER.index(src) >= ORDER.index(dst) or not forms:
        return False
    if dst == "ps":
        return src == "pk" and all(f in REL_FORMS for f in forms)
    return all(f in ABS_FORMS for f in forms)


def _gen_files(rng: random.Random) -> list[str]:
    n_files = rng.choice([2, 3, 3, 4, 4])
    while True:
        n_e = 1 if n_files == 2 else rng.choice([1, 2, 2]) if n_files == 3 else rng.choice([1, 2, 2, 3])
        n_m = n_files - n_e
        ents = rng.sample(ENTRY_POOL, n_e)
        mods = rng.sample(MOD_ORDER, n_m)
        if "ps" in mods and "pk" not in mods:
            continue
        return [f for f in ORDER if f in ents or f in mods]


def _startup_loaded(files: list, edges: list) -> set:
    """Modules loaded while the script/app files are loaded (reachable through top-level import forms)."""
    loaded = {f for f in files if f in ENTRY_POOL}
    changed = True
    while changed:
        changed = False
        for edge in edges:
            if edge["src"] in loaded and edge["dst"] not in loaded and any(f not in LAZY_FORMS for f in edge["forms"]):
                loaded.add(edge["dst"])
                changed = True
    return loaded


def _gen_edges(rng: random.Random, files: list, mode: str) -> list:
    edges = []
    for dst in files:
        if dst not in MOD_ORDER:
            continue
        if dst == "ps":
            cands = ["pk"]
        else:
            cands = [s for s in files if ORDER.index(s) < ORDER.index(dst)]
        chosen = [s for s in cands if rng.random() < 0.65]
        if not chosen:
            chosen = [rng.choice(cands)]
        for src in chosen:
            pool = REL_FORMS if dst == "ps" else ABS_FORMS
            weights = [4, 3, 2, 2] if dst == "ps" else [4, 3, 2, 3, 2]
            forms = []
            for _ in range(rng.choice([1, 1, 2])):
                form = rng.choices(pool, weights)[0]
                if form not in forms:
                    forms.append(form)
            edges.append({"src": src, "dst": dst, "forms": forms})
    if mode != "free":
        # no function-body import of a module that is not loaded at start-up (steers away from first-import races)
        loaded = _startup_loaded(files, edges)
        for edge in edges:
            if edge["dst"] not in loaded:
                edge["forms"] = [f for f in edge["forms"] if f not in LAZY_FORMS] or \
                    ["rel" if edge["dst"] == "ps" else "attr"]
        # (the replacement may make more modules start-up loaded, never fewer)
    return edges


def _options(files: list, edges: list, cur: str, upstream: list) -> list:
    opts = [("self", cur)]
    for edge in edges:
        if edge["src"] == cur:
            for form in edge["forms"]:
                opts.append((f"{edge['dst']}.{form}", edge["dst"]))
    for up in upstream:
        opts.append(("cb", up))
    return opts


def _gen_clo(rng: random.Random) -> dict:
    return {"kind": rng.choice(CLO_KINDS), "by": rng.choice(CLO_BY), "shadow": rng.choice(["all", "all", "none"]),
            "salt": rng.randint(1, 9) * 10}


def _gen_plan(rng: random.Random, files: list, edges: list, entry: str, max_hops: int,
              clsraise: bool = False) -> list:
    plan = []
    cur = entry
    upstream = [entry]
    for d in range(min(max_hops, rng.choice([1, 2, 2, 3, 3, 4]))):
        opts = _options(files, edges, cur, upstream)
        cross = [o for o in opts if o[0] not in ("self", "cb")]
        cbs = [o for o in opts if o[0] == "cb" and o[1] != cur]
        roll = rng.random()
        if cross and roll < 0.7:
            via, dst = rng.choice(cross)
        elif cbs and roll < 0.88:
            via, dst = rng.choice(cbs)
        elif cross and d == 0:
            via, dst = rng.choice(cross)
        else:
            via, dst = "self", cur
        plan.append({
            "f": dst, "via": via, "meth": rng.random() < 0.25, "d": d,
            "sleep": rng.choice([0, 0, 0.1, 0.3, 0.6]), "sleep2": rng.choice([0, 0, 0, 0.2]),
            "raise": rng.random() < 0.18, "catch": rng.choice(["catch", "catch", "reraise", "none"]),
            "spawn": d > 0 and rng.random() < 0.12,
            # the caller first calls this hop's function with no arguments at all: the TypeError is raised while
            # the arguments are bound, i.e. before the callee's body starts; the caller catches it and looks at
            # its own globals again
            "badfirst": rng.random() < 0.15,
            # a raising hop raises from inside a class body (the class statement is the frame that raises)
            "rcls": clsraise and rng.random() < 0.4,
            # before the call the caller lets the callee's file build an inner function (closure / method of a local
            # class / decorator wrapper) while the caller's own frame holds locals named like the callee's globals;
            # the inner function is then run by the caller, by a created task or by a trigger (cross-file only)
            "clo": _gen_clo(rng) if dst != cur and rng.random() < 0.3 else None,
            # the call is made from inside a comprehension (of a frame without inner defs) whose loop variable has
            # the name of a local of that frame
            "comp": rng.choice(COMP_KINDS) if rng.random() < 0.15 else None,
        })
        cur = dst
        if cur not in upstream:
            upstream.append(cur)
    return plan


def _gen_trigs(rng: random.Random, files: list, edges: list, ops: list):
    """Top-level trigger functions whose decorator expression strings name globals of the file they are written in,
    most of them wrapped by a decorator that ANOTHER file defines; plus the 'fire' ops that make them trigger."""
    tbase = rng.choice(N_VALUES)
    if rng.random() >= 0.35:
        return [], tbase
    loaded = _startup_loaded(files, edges)
    cands = [f for f in files if f in loaded]
    trigs = []
    rich = [f for f in cands if any(e["src"] == f and any(fm not in LAZY_FORMS for fm in e["forms"]) for e in edges)]
    for k in range(1, rng.choice([1, 2, 2, 3]) + 1):
        fid = rng.choice(rich) if rich and rng.random() < 0.7 else rng.choice(cands)
        cross = [f"{e['dst']}.{form}" for e in edges if e["src"] == fid for form in e["forms"] if form not in LAZY_FORMS]
        via = rng.choice(cross) if cross and rng.random() < 0.75 else rng.choice([None, "self"])
        deco = rng.choices(TRIG_DECOS, [6, 2, 2])[0] if via else None
        trigs.append({"id": k, "f": fid, "via": via, "deco": deco, "kind": rng.choice(TRIG_KINDS),
                      "expr": rng.choice(TRIG_EXPRS)})
    for q in range(1, rng.randint(2, 5) + 1):
        op = gen_delay(rng, burst_p=0.4, grid=0.25, max_steps=2)
        op.update({"kind": "fire", "k": rng.choice(trigs)["id"], "n": rng.choice(N_VALUES), "q": q})
        ops.insert(rng.randint(0, len(ops)), op)
    return trigs, tbase


def _gen_rebinds(rng: random.Random, files: list, edges: list, ops: list) -> list:
    """A file binds a name it obtained from another file (from-import, star import, attribute of the imported module)
    again in its own namespace: assignment, del, def, class, for target, except-as, walrus."""
    if not edges or rng.random() >= 0.25:
        return []
    rebinds = []
    for k in range(1, rng.choice([1, 1, 2, 3]) + 1):
        edge = rng.choice(edges)
        form = rng.choice(edge["forms"])
        obj = rng.choice(["val", "fn", "cls", "cls", "cls", "obj"])
        how = rng.choice(RB_HOWS)
        where = "local" if form in LAZY_FORMS else rng.choice(RB_WHERE)
        rebinds.append({"id": k, "f": edge["src"], "g": edge["dst"], "form": form, "obj": obj, "how": how,
                        "where": where})
        if where == "local" and edge["src"] in ENTRY_POOL:
            op = gen_delay(rng, burst_p=0.4, grid=0.25, max_steps=2)
            op.update({"kind": "rebind", "k": k})
            ops.insert(rng.randint(0, len(ops)), op)
    return rebinds


def gen(rng: random.Random, tier: str) -> dict:
    cfg = gen_cfg(rng)
    mode = rng.choice(["steer", "steer", "reload", "free", "free"])
    files = _gen_files(rng)
    edges = _gen_edges(rng, files, mode)
    entries = [f for f in files if f in ENTRY_POOL]
    slow = {}
    for f in files:
        if f in MOD_ORDER and rng.random() < 0.2:
            slow[f] = rng.choice([0.02, 0.1, 0.3])
    runs = []
    max_runs = 6
    # steer coin: half of the scenarios never raise out of a class body (see ASSUMPTIONS / the class-body finding)
    clsraise = rng.random() < 0.5
    for rid in range(1, rng.randint(2, max_runs) + 1):
        entry = rng.choice(entries)
        runs.append({"id": rid, "entry": entry, "how": rng.choice(["service", "service", "event", "event", "create"]),
                     "catch_top": rng.random() < 0.7, "plan": _gen_plan(rng, files, edges, entry, 4, clsraise)})
    ops = []
    for run in runs:
        op = gen_delay(rng, burst_p=0.4, grid=0.25, max_steps=3)
        op.update({"kind": "start", "run": run["id"]})
        ops.append(op)
    if mode in ("reload", "free") and rng.random() < (0.9 if mode == "reload" else 0.3):
        for _ in range(rng.choice([1, 1, 2])):
            op = gen_delay(rng, burst_p=0.4, grid=0.25, max_steps=2)
            rmode = rng.choice(["all", "touch", "ctx", "ctx"])
            mods = [f for f in files if f in MOD_ORDER]
            if rmode == "touch":
                target = rng.choice(mods)
            elif rmode == "ctx" and rng.random() < 0.6:
                # pyscript.reload(global_ctx=<a module, a package, a file inside a package>): the documented form
                # that re-loads the named module together with every file that imports it
                target = rng.choice(mods)
            else:
                target = rng.choice(entries)
            op.update({"kind": "reload", "mode": rmode, "target": target})
            ops.insert(rng.randint(1, len(ops)), op)
        named = [o for o in ops if o["kind"] == "reload" and o["mode"] == "ctx" and o["target"] in MOD_ORDER]
        if named and rng.random() < 0.5:
            # ... followed, once everything is over, by a reload of just ONE file that imports the named module (or of
            # any one entry file): it binds whatever instance the context registry hands out now
            imps = sorted({e["src"] for e in edges if e["dst"] in {o["target"] for o in named}
                           and e["src"] in ENTRY_POOL}) or entries
            op = {"dt": rng.choice([1.0, 2.5, 6.0]), "kind": "reload", "mode": "ctx", "target": rng.choice(imps)}
            ops.append(op)
    if rng.random() < 0.12:
        op = gen_delay(rng)
        op.update({"kind": "stall", "s": rng.choice([0.01, 0.2])})
        ops.insert(rng.randint(0, len(ops)), op)
    # at the final quiescent point every file imports each of its modules once more inside a function body and
    # reports which instance that import statement handed out
    reimport = rng.random() < 0.6
    trigs, tbase = _gen_trigs(rng, files, edges, ops)
    rebinds = _gen_rebinds(rng, files, edges, ops)
    scn = {"cfg": cfg, "spec": {"files": files, "edges": edges, "slow": slow, "runs": runs, "mode": mode,
                                "reimport": reimport, "trigs": trigs, "tbase": tbase, "rebinds": rebinds}, "ops": ops}
    out = normalize(scn)
    if out is None:
        raise HarnessError("C11.gen produced an invalid scenario")
    return out


def normalize(scn: dict) -> dict | None:
    """Validate / repair a scenario (after generation and after list shrinking). None = invalid."""
    spec = scn["spec"]
    files = [f for f in ORDER if f in spec["files"]]
    if not any(f in ENTRY_POOL for f in files):
        return None
    if "ps" in files and "pk" not in files:
        return None
    spec["files"] = files
    edges = []
    seen = set()
    for edge in spec["edges"]:
        if edge["src"] not in files or edge["dst"] not in files or not _edge_ok(edge["src"], edge["dst"], edge["forms"]):
            return None
        if (edge["src"], edge["dst"]) in seen:
            return None
        seen.add((edge["src"], edge["dst"]))
        edges.append(edge)
    spec["edges"] = edges
    spec["slow"] = {f: s for f, s in sorted((spec.get("slow") or {}).items()) if f in files and f in MOD_ORDER}
    spec["reimport"] = bool(spec.get("reimport", False))
    runs = []
    ids = set()
    for run in spec["runs"]:
        if not run["plan"]:
            continue
        if run["entry"] not in files or run["entry"] not in ENTRY_POOL or run["id"] in ids:
            return None
        ids.add(run["id"])
        cur = run["entry"]
        upstream = [cur]
        rid = run["id"]
        # work on copies: the shrinker hands in candidates whose run / step dicts are shared with its current best
        # scenario, and dropping a 'clo' here must not leak into that one
        run = dict(run)
        run["plan"] = [dict(step) for step in run["plan"]]
        for d, step in enumerate(run["plan"]):
            opts = _options(files, edges, cur, upstream)
            if (step["via"], step["f"]) not in opts:
                return None
            step["d"] = d
            clo = step.get("clo")
            if clo is not None and (step["f"] == cur or not isinstance(clo, dict) or clo.get("kind") not in CLO_KINDS
                                    or clo.get("by") not in CLO_BY or clo.get("shadow") not in CLO_SHADOW
                                    or not isinstance(clo.get("salt"), int)):
                clo = None  # only a call into ANOTHER file is this property's business
            step["clo"] = clo
            step["rcls"] = bool(step.get("rcls", False)) and bool(step["raise"])
            if d == 0:
                step["spawn"] = run["how"] == "create"
            # (a call handed to task.create is not made by the frame: no comprehension around it)
            step["comp"] = step.get("comp") if step.get("comp") in COMP_KINDS and not step["spawn"] else None
            if step["spawn"]:
                rid = rid * 10 + d
                step["run"] = rid
            else:
                step.pop("run", None)
            cur = step["f"]
            if cur not in upstream:
                upstream.append(cur)
        runs.append(run)
    if not runs:
        return None
    spec["runs"] = runs
    # ---- trigger functions with expression strings (absent in old scenarios)
    loaded = _startup_loaded(files, edges)
    edge_forms = {(e["src"], e["dst"]): e["forms"] for e in edges}
    trigs = []
    exist_from = set()
    for trig in spec.get("trigs") or []:
        trig = dict(trig)
        if trig.get("f") not in loaded or not isinstance(trig.get("id"), int) or \
                any(t["id"] == trig["id"] for t in trigs) or trig.get("kind") not in TRIG_KINDS:
            continue
        via = trig.get("via")
        if via not in (None, "self"):
            dst, _, form = str(via).partition(".")
            if form in LAZY_FORMS or form not in edge_forms.get((trig["f"], dst), []):
                via = None
        deco = None if via is None else trig.get("deco") if trig.get("deco") in TRIG_DECOS else "wrapper"
        if deco == "existing":
            # the decorator hands out ONE existing function of its file: at most one user per exporting file, and
            # only across files
            if via == "self" or via.partition(".")[0] in exist_from:
                deco = "wrapper"
            else:
                exist_from.add(via.partition(".")[0])
        trig.update({"via": via, "deco": deco, "expr": trig.get("expr") if trig.get("expr") in TRIG_EXPRS else "limit"})
        trigs.append(trig)
    spec["trigs"] = trigs
    spec["tbase"] = spec.get("tbase") if isinstance(spec.get("tbase"), int) else N_VALUES[0]
    # ---- names obtained from another file that are bound again (absent in old scenarios)
    rebinds = []
    for rb in spec.get("rebinds") or []:
        rb = dict(rb)
        forms = edge_forms.get((rb.get("f"), rb.get("g")), [])
        if rb.get("form") not in forms or rb.get("obj") not in RB_OBJS or rb.get("how") not in RB_HOWS or \
                rb.get("where") not in RB_WHERE or not isinstance(rb.get("id"), int) or \
                any(r["id"] == rb["id"] or (r["f"], r["g"], r["obj"]) == (rb["f"], rb["g"], rb["obj"]) for r in rebinds):
            continue
        if rb["form"] in LAZY_FORMS:
            rb["where"] = "local"
        if rb["how"] == "aug" and rb["obj"] != "val":
            rb["how"] = "assign"
        rebinds.append(rb)
    spec["rebinds"] = rebinds
    ops = []
    started = set()
    fired = set()
    rebound = set()
    for op in scn["ops"]:
        if op["kind"] == "start":
            if op["run"] not in ids or op["run"] in started or not any(r["id"] == op["run"] for r in runs):
                continue
            started.add(op["run"])
        elif op["kind"] == "reload":
            if op["target"] not in files or (op["mode"] == "touch" and op["target"] not in MOD_ORDER):
                continue
        elif op["kind"] == "fire":
            if not any(t["id"] == op.get("k") for t in trigs) or op.get("n") not in N_VALUES or \
                    not isinstance(op.get("q"), int) or not 0 < op["q"] < 100 or op["q"] in fired:
                continue
            fired.add(op["q"])
        elif op["kind"] == "rebind":
            if op.get("k") in rebound or not any(r["id"] == op.get("k") and r["where"] == "local"
                                                  and r["f"] in ENTRY_POOL for r in rebinds):
                continue
            rebound.add(op["k"])
        ops.append(op)
    if not started:
        return None
    scn["ops"] = ops
    return scn


def simplify(scn: dict):
    spec = scn["spec"]
    for ri, run in enumerate(spec["runs"]):
        if run["how"] != "service":
            cand = copy.deepcopy(scn)
            cand["spec"]["runs"][ri]["how"] = "service"
            yield normalize(cand)
        if not run["catch_top"]:
            cand = copy.deepcopy(scn)
            cand["spec"]["runs"][ri]["catch_top"] = True
            yield normalize(cand)
        for si, step in enumerate(run["plan"]):
            for key, val in (("sleep", 0), ("sleep2", 0), ("raise", False), ("meth", False), ("spawn", False),
                             ("catch", "catch"), ("badfirst", False), ("rcls", False), ("comp", None)):
                if step.get(key, val) != val and not (key == "spawn" and si == 0):
                    cand = copy.deepcopy(scn)
                    cand["spec"]["runs"][ri]["plan"][si][key] = val
                    yield normalize(cand)
            if step.get("clo"):
                cand = copy.deepcopy(scn)
                cand["spec"]["runs"][ri]["plan"][si]["clo"] = None
                yield normalize(cand)
                for key, val in (("by", "direct"), ("kind", "closure"), ("shadow", "none"), ("salt", 10)):
                    if step["clo"].get(key) != val:
                        cand = copy.deepcopy(scn)
                        cand["spec"]["runs"][ri]["plan"][si]["clo"][key] = val
                        yield normalize(cand)
    for ei, edge in enumerate(spec["edges"]):
        if len(edge["forms"]) > 1:
            for fi in range(len(edge["forms"])):
                cand = copy.deepcopy(scn)
                del cand["spec"]["edges"][ei]["forms"][fi]
                yield normalize(cand)
    for fid in spec["files"]:
        # drop a whole file with everything that mentions it
        cand = copy.deepcopy(scn)
        cs = cand["spec"]
        gone = {fid} | ({"ps"} if fid == "pk" else set())
        cs["files"] = [f for f in cs["files"] if f not in gone]
        cs["edges"] = [e for e in cs["edges"] if e["src"] not in gone and e["dst"] not in gone]
        cs["runs"] = [r for r in cs["runs"] if r["entry"] not in gone and all(s["f"] not in gone for s in r["plan"])]
        yield normalize(cand)
    if spec.get("reimport"):
        cand = copy.deepcopy(scn)
        cand["spec"]["reimport"] = False
        yield normalize(cand)
    for ti, trig in enumerate(spec.get("trigs") or []):
        for key, val in (("kind", "event"), ("expr", "limit"), ("deco", "wrapper")):
            if trig.get(key) != val and not (key == "deco" and trig.get("deco") is None):
                cand = copy.deepcopy(scn)
                cand["spec"]["trigs"][ti][key] = val
                yield normalize(cand)
    for ri, rb in enumerate(spec.get("rebinds") or []):
        for key, val in (("how", "assign"), ("where", "top")):
            if rb.get(key) != val:
                cand = copy.deepcopy(scn)
                cand["spec"]["rebinds"][ri][key] = val
                yield normalize(cand)
    ents = [f for f in spec["files"] if f in ENTRY_POOL]
    for i, op in enumerate(scn["ops"]):
        if op["kind"] == "reload" and op["mode"] == "ctx" and op["target"] in MOD_ORDER:
            # name an entry file instead of a module / name the package instead of the file inside it
            for tgt in ents[:1] + (["pk"] if op["target"] == "ps" else []):
                cand = copy.deepcopy(scn)
                cand["ops"][i]["target"] = tgt
                yield normalize(cand)
    if spec.get("slow"):
        for fid in list(spec["slow"]):
            cand = copy.deepcopy(scn)
            del cand["spec"]["slow"][fid]
            yield normalize(cand)
    for i, op in enumerate(scn["ops"]):
        if op.get("passes"):
            cand = copy.deepcopy(scn)
            cand["ops"][i].pop("passes")
            cand["ops"][i]["dt"] = 0.0
            yield normalize(cand)
        if op.get("dt", 0) > 0.25:
            cand = copy.deepcopy(scn)
            cand["ops"][i]["dt"] = 0.25
            yield normalize(cand)
    for key, val in (("timer_late_ms", 0.0), ("drift", 0.0), ("cost_us", 50), ("exec_latency_ms", [0.0, 0.0]),
                     ("set_order_salt", 0), ("legacy", False)):
        if scn["cfg"].get(key) != val:
            cand = copy.deepcopy(scn)
            cand["cfg"][key] = val
            yield normalize(cand)


# ------------------------------------------------------------------ rendering
def _from_list(prefix: str, dst: str | None = None) -> str:
    dst = dst or prefix
    return (f"hop as {prefix}_hop, box as {prefix}_box, import_token as {prefix}_tok, "
            f"shared as {prefix}_shared, peek as {prefix}_peek, make as {prefix}_make, wrap as {prefix}_wrap, "
            f"twrap as {prefix}_twrap, tsame as {prefix}_tsame, texist as {prefix}_texist, "
            f"rb_view as {prefix}_rb_view, "
            + ", ".join(f"{RB_NAME[o]}_{dst} as {prefix}_{RB_NAME[o]}" for o in RB_OBJS))


def _top_import(dst: str, form: str) -> str | None:
    if form == "attr":
        return f"import {dst}"
    if form == "from":
        return f"from {dst} import {_from_list(dst)}"
    if form == "star":
        return f"from {dst} import *"
    if form == "rel":
        return "from . import sub as ps"
    if form == "relfrom":
        return f"from .sub import {_from_list('ps')}"
    if form == "relstar":
        return "from .sub import *"
    return None


def _lazy_import(dst: str, form: str) -> str | None:
    if form == "lazy":
        return f"import {dst} as lz"
    if form == "lazyfrom":
        return f"from {dst} import {_from_list('lz', dst)}"
    if form == "lazyrel":
        return "from . import sub as lz"
    return None


def _exprs(dst: str, form: str) -> dict:
    """How the importer spells the callee's objects for one edge form."""
    names = ("hop", "box", "import_token", "shared", "peek", "make", "wrap", "twrap", "tsame", "texist", "rb_view")
    short = {"import_token": "tok"}
    rbs = [RB_NAME[o] for o in RB_OBJS]   # these globals carry the file's name: <rbv|rbf|Rbc|rbo>_<file>
    if form in ("attr", "rel"):
        return {**{n: f"{dst}.{n}" for n in names}, **{r: f"{dst}.{r}_{dst}" for r in rbs}}
    if form in ("lazy", "lazyrel"):
        return {**{n: f"lz.{n}" for n in names}, **{r: f"lz.{r}_{dst}" for r in rbs}}
    if form in ("from", "relfrom"):
        return {**{n: f"{dst}_{short.get(n, n)}" for n in names}, **{r: f"{dst}_{r}" for r in rbs}}
    if form == "lazyfrom":
        return {**{n: f"lz_{short.get(n, n)}" for n in names}, **{r: f"lz_{r}" for r in rbs}}
    return {**{n: f"{short.get(n, n)}_{dst}" for n in names}, **{r: f"{r}_{dst}" for r in rbs}}  # star forms


def _vis_block(fid: str, files: list, ind: str) -> list[str]:
    lines = [f"{ind}vis = []"]
    for other in files:
        if other == fid:
            continue
        lines += [f"{ind}try:", f"{ind}    only_{other}", f"{ind}    vis.append({other!r})",
                  f"{ind}except NameError:", f"{ind}    pass"]
    return lines


def _own(fid: str) -> str:
    return "tag=tag, counter=counter, tok=import_token, ctx=pyscript.get_global_ctx()"


def _dispatch(fid: str, my_edges: list, ind: str, files: list) -> list[str]:
    lines = [f"{ind}tk = None", f"{ind}fn = None",
             f"{ind}if via == 'self':", f"{ind}    fn = box.poke if nx['meth'] else hop",
             f"{ind}    mk, wr = make, wrap",
             f"{ind}elif via == 'cb':", f"{ind}    fn = cbs[nx['f'] + '.m'] if nx['meth'] else cbs[nx['f']]",
             f"{ind}    mk, wr = cbs[nx['f'] + '.k']"]
    for edge in my_edges:
        dst = edge["dst"]
        for form in edge["forms"]:
            ex = _exprs(dst, form)
            lines.append(f"{ind}elif via == '{dst}.{form}':")
            lazy = _lazy_import(dst, form)
            if lazy:
                lines.append(f"{ind}    sim.mark('imp', {fid!r}, run=run, d=d, g={dst!r})")
                lines.append(f"{ind}    {lazy}")
            lines.append(f"{ind}    tk = {ex['import_token']}")
            lines.append(f"{ind}    {ex['shared']}.append(run)")
            lines.append(f"{ind}    fn = {ex['box']}.poke if nx['meth'] else {ex['hop']}")
            lines.append(f"{ind}    mk, wr = {ex['make']}, {ex['wrap']}")
    lines += [f"{ind}if tk is not None:",
              f"{ind}    sim.mark('see', {fid!r}, run=run, d=d, g=nx['f'], via=via, tok=tk)"]
    # the callee's file builds an inner function on behalf of this file's shade_*() frame; see _render_closures
    lines += [f"{ind}if nx.get('clo'):",
              f"{ind}    if nx['clo']['shadow'] == 'all':",
              f"{ind}        shade_all(mk, wr, run, d, nx['f'], nx['clo'])",
              f"{ind}    else:",
              f"{ind}        shade_none(mk, wr, run, d, nx['f'], nx['clo'])",
              f"{ind}    sim.mark('clo', {fid!r}, run=run, d=d, g=nx['f'], {_own(fid)})"]
    lines += [f"{ind}if nx.get('badfirst'):", f"{ind}    try:", f"{ind}        fn()",
              f"{ind}    except TypeError:", f"{ind}        pass"]
    lines += _vis_block(fid, files, ind + "    ")
    lines.append(f"{ind}    sim.mark('badback', {fid!r}, run=run, d=d, {_own(fid)}, vis=vis)")
    return lines


def _call_lines(ind: str, args: str) -> list[str]:
    """The call of the next hop: plain, or (plan step 'comp') made by via_comp() from inside a comprehension."""
    return [f"{ind}if nx.get('comp'):", f"{ind}    via_comp(nx['comp'], fn, {args}, d)",
            f"{ind}else:", f"{ind}    fn({args})"]


def _hop_body(fid: str, files: list, my_edges: list, ind: str, meth: bool) -> list[str]:
    own = _own(fid)
    k = "m" if meth else "f"
    i2, i3, i4 = ind + "    ", ind + "        ", ind + "            "
    lines = [f"{ind}global counter", f"{ind}me = plan[0]", f"{ind}d = me['d']"]
    lines += _vis_block(fid, files, ind)
    lines.append(f"{ind}sim.mark('enter', {fid!r}, run=run, d=d, k={k!r}, {own}, sh=len(shared), vis=vis)")
    lines += [f"{ind}if me['sleep'] > 0:", f"{i2}task.sleep(me['sleep'])"]
    if meth:
        lines.append(f"{ind}self.n += 1")
    lines.append(f"{ind}counter += 1")
    lines.append(f"{ind}sim.mark('bumped', {fid!r}, run=run, d=d, k={k!r}, {own})")
    lines += [f"{ind}if len(plan) > 1:", f"{i2}rest = plan[1:]", f"{i2}nx = rest[0]", f"{i2}via = nx['via']",
              f"{i2}cbs2 = dict(cbs)", f"{i2}cbs2[{fid!r}] = hop", f"{i2}cbs2[{fid + '.m'!r}] = box.poke",
              f"{i2}cbs2[{fid + '.k'!r}] = (make, wrap)"]
    lines += _dispatch(fid, my_edges, i2, files)
    lines += [f"{i2}if nx['spawn']:", f"{i3}task.create(fn, nx['run'], rest, cbs2)",
              f"{i3}sim.mark('spawned', {fid!r}, run=run, d=d, {own})",
              f"{i2}elif me['catch'] == 'none':"] + _call_lines(i3, "run, rest, cbs2")
    lines += _vis_block(fid, files, i3)
    lines.append(f"{i3}sim.mark('back', {fid!r}, run=run, d=d, how='ret', {own}, vis=vis)")
    lines += [f"{i2}else:", f"{i3}how = 'ret'", f"{i3}try:"] + _call_lines(i4, "run, rest, cbs2") + \
        [f"{i3}except ValueError:", f"{i4}how = 'exc'"]
    lines += _vis_block(fid, files, i3)
    lines.append(f"{i3}sim.mark('back', {fid!r}, run=run, d=d, how=how, {own}, vis=vis)")
    lines += [f"{i3}if how == 'exc' and me['catch'] != 'catch':", f"{i4}raise ValueError('boom again')"]
    lines += [f"{ind}if me['sleep2'] > 0:", f"{i2}task.sleep(me['sleep2'])",
              f"{i2}sim.mark('after', {fid!r}, run=run, d=d, {own})"]
    lines += [f"{ind}if me['raise']:", f"{i2}if me.get('rcls'):", f"{i3}class Failing:", f"{i4}made_in = tag",
              f"{i4}raise ValueError('boom')", f"{i2}raise ValueError('boom')", f"{ind}return counter"]
    return lines


def _render_closures(fid: str) -> list[str]:
    """Inner-function factories of file ``fid`` (what OTHER files call) and the frames that call the factories of
    other files (shade_all / shade_none), plus the function that finally runs the inner function (clo_deliver).

    make(kind, salt) returns an inner function (kind 'closure') or a bound method of a class defined inside make
    (kind 'cls'); wrap(func) is a decorator returning a wrapper.  All three inner functions read the globals of the
    file that defines them by plain name - tag, import_token, counter, the helper label(), the class Box - plus a
    genuine enclosing local (seq / func).  shade_all() is the calling frame of another file: it has LOCALS with
    exactly those names (and inner defs, so they are closure-capable), shade_none() has inner defs only."""
    reads = ("'tag': tag, 'tok': import_token, 'counter': counter, 'ctx': pyscript.get_global_ctx(), "
             "'lab': label(x), 'home': Box.home")
    lines = ["def label(x):", f"    return {fid + ':'!r} + str(x)", "",
             "def make(kind, salt):", "    seq = [salt]",
             "    if kind == 'cls':",
             "        class Reader:",
             "            def read(self, x):",
             "                seq.append(x)",
             f"                return {{{reads}, 'seq': list(seq)}}",
             "        return Reader().read",
             "    def reader(x):",
             "        seq.append(x)",
             f"        return {{{reads}, 'seq': list(seq)}}",
             "    return reader", "",
             "def wrap(func):",
             "    def wrapper(x):",
             f"        return {{{reads}, 'inner': func(x)}}",
             "    return wrapper", "",
             "clo_keep = []", "",
             "def clo_deliver(rd, keep, run, d, g, by, kind, x):",
             f"    sim.mark('clor', {fid!r}, run=run, d=d, g=g, by=by, kind=kind, x=x, got=rd(x), keep=keep(), {_own(fid)})",
             ""]
    for shadow in CLO_SHADOW:
        lines += [f"def shade_{shadow}(mk, wr, run, d, g, clo):"]
        if shadow == "all":
            lines += [f"    tag = {'local:' + fid!r}", "    import_token = -1", "    counter = -100",
                      "    class Box:", f"        home = {'local:' + fid!r}",
                      "    def label(x):", f"        return {'local:' + fid + ':'!r} + str(x)"]
        lines += ["    by = clo['by']", "    kind = clo['kind']", "    x = clo['salt'] + 1",
                  "    def keep():", "        return [tag, import_token, counter, label(0), Box.home]",
                  "    if kind == 'deco':",
                  "        @wr",
                  "        def rd(x):",
                  "            return [tag, x]",
                  "    else:",
                  "        rd = mk(kind, clo['salt'])",
                  "    if by == 'trigger':",
                  "        @event_trigger('clo_fire')",
                  "        def on_fire(**kw):",
                  "            clo_deliver(rd, keep, run, d, g, by, kind, x)",
                  "        clo_keep.append(on_fire)",
                  "    elif by == 'task':",
                  "        task.create(clo_deliver, rd, keep, run, d, g, by, kind, x)",
                  "    else:",
                  "        clo_deliver(rd, keep, run, d, g, by, kind, x)", ""]
    return lines


def _render_extras(fid: str) -> list[str]:
    """via_comp (a call made from inside a comprehension), the trigger-function decorators this file offers to other
    files (twrap: new wrapper, tsame: the function itself, texist: an existing function of this file) and the four
    globals other files import and then bind again in THEIR namespace, with rb_view(): this file's own view of them."""
    own = _own(fid)
    tkw = "k=kw.get('k'), q=kw.get('q'), n=kw.get('n'), value=kw.get('value'), var=kw.get('var_name')"
    lines = ["def via_comp(kind, fn, a0, a1, a2, d):",
             "    how = 'ret'",
             "    try:",
             "        if kind == 'list':",
             "            [fn(a0, a1, a2) for d in [d + 100]]",
             "        elif kind == 'set':",
             "            {fn(a0, a1, a2) for d in [d + 100]}",
             "        else:",
             "            {d: fn(a0, a1, a2) for d in [d + 100]}",
             "    except ValueError:",
             "        how = 'exc'",
             f"    sim.mark('cback', {fid!r}, run=a0, d=d, how=how, {own})",
             "    if how == 'exc':",
             "        raise ValueError('boom again')", "",
             f"limit = {LIMIT[fid]}", "t_seen = []", "",
             "def twrap(func):",
             "    def twrapper(**kw):",
             f"        sim.mark('twr', {fid!r}, {tkw}, {own})",
             "        return func(**kw)",
             "    return twrapper", "",
             "def tsame(func):",
             "    t_seen.append(1)",
             "    return func", "",
             "def t_existing(**kw):",
             "    if kw.get('probe'):",
             "        return 'ok'",
             f"    sim.mark('tex', {fid!r}, {tkw}, {own})", "",
             "def texist(func):",
             "    t_seen.append(1)",
             "    return t_existing", "",
             f"rbv_{fid} = {fid + ':val'!r}", "",
             f"def rbf_{fid}():", f"    return {fid + ':fn'!r}", "",
             f"class Rbc_{fid}:", f"    who = {fid + ':cls'!r}", "",
             f"rbo_{fid} = Rbc_{fid}()", "",
             "def rb_view():", "    out = {}"]
    for key, expr in (("val", f"rbv_{fid}"), ("fn", f"rbf_{fid}()"), ("cls", f"Rbc_{fid}.who"), ("obj", f"rbo_{fid}.who")):
        lines += ["    try:", f"        out[{key!r}] = {expr}", "    except Exception as exc:",
                  f"        out[{key!r}] = 'ERR ' + type(exc).__name__"]
    lines += ["    return out", ""]
    return lines


def _rebind_stmts(name: str, how: str, mine: str, ind: str) -> list[str]:
    if how == "assign":
        return [f"{ind}{name} = {mine!r}"]
    if how == "aug":
        return [f"{ind}{name} += ':x'"]
    if how == "del":
        return [f"{ind}del {name}"]
    if how == "def":
        return [f"{ind}def {name}():", f"{ind}    return {mine!r}"]
    if how == "class":
        return [f"{ind}class {name}:", f"{ind}    who = {mine!r}"]
    if how == "for":
        return [f"{ind}for {name} in [{mine!r}]:", f"{ind}    pass"]
    if how == "exc":
        return [f"{ind}try:", f"{ind}    raise KeyError({mine!r})", f"{ind}except KeyError as {name}:", f"{ind}    pass"]
    return [f"{ind}({name} := {mine!r})"]


def _render_tail(fid: str, spec: dict) -> list[str]:
    """What follows the file's 'loaded_end' marker: the statements that bind imported names again and the trigger
    functions with expression strings (a failure here costs the rest of the tail, never the file's entry points)."""
    lines = []
    own = _own(fid)
    local_ids = []
    for rb in spec.get("rebinds") or []:
        if rb["f"] != fid:
            continue
        g, form, k = rb["g"], rb["form"], rb["id"]
        ex = _exprs(g, form)
        mine = f"{fid}:mine"
        src = ex[RB_NAME[rb["obj"]]]
        lines.append(f"# rebind {k}: {rb['obj']} of {g} obtained through {form}, bound again by {rb['how']} ({rb['where']})")
        if rb["where"] == "top":
            lines.append("try:")
            if form in ("attr", "rel"):
                name = f"rb_{k}"
                lines.append(f"    {name} = {src}")
            else:
                name = src   # the from-imported alias / the star-imported name itself
            lines += _rebind_stmts(name, rb["how"], mine, "    ")
            lines.append(f"    sim.mark('rebind', {fid!r}, k={k}, g={g!r}, after={ex['rb_view']}())")
            lines += _tail_except(fid, "rebind", k)
            continue
        # inside a function: import there, bind the local name again
        lines.append(f"def rb_do_{k}():")
        lines.append(f"    sim.mark('imp', {fid!r}, g={g!r}, top=True, rb={k})")
        if form in ("attr", "lazy"):
            lines += [f"    import {g} as hm", f"    z = hm.{RB_NAME[rb['obj']]}_{g}", "    view = hm.rb_view"]
        elif form in ("rel", "lazyrel"):
            lines += ["    from . import sub as hm", f"    z = hm.{RB_NAME[rb['obj']]}_{g}", "    view = hm.rb_view"]
        elif form in ("relfrom", "relstar"):
            lines += [f"    from .sub import {RB_NAME[rb['obj']]}_{g} as z, rb_view as view"]
        else:
            lines += [f"    from {g} import {RB_NAME[rb['obj']]}_{g} as z, rb_view as view"]
        lines += _rebind_stmts("z", rb["how"], mine, "    ")
        lines.append(f"    sim.mark('rebind', {fid!r}, k={k}, g={g!r}, after=view())")
        lines.append("")
        if fid in ENTRY_POOL:
            local_ids.append(k)
        else:
            lines += ["try:", f"    rb_do_{k}()"] + _tail_except(fid, "rebind", k)
    if local_ids:
        lines += ["@service", f"def rebind_{fid}(k=None, **kw):"]
        for k in local_ids:
            lines += [f"    if k == {k}:", "        try:", f"            rb_do_{k}()"] + \
                _tail_except(fid, "rebind", k, "        ")
        lines.append("")
    for trig in spec.get("trigs") or []:
        if trig["f"] != fid:
            continue
        k = trig["id"]
        val = {"event": "n", "state": f"int(pyscript.c11v_{k}) // 100", "active": "int(pyscript.c11base)"}[trig["kind"]]
        cond = {"limit": f"{val} > limit", "tag": f"tag == {fid!r} and {val} > limit",
                "only": f"only_{fid} == {fid!r} and {val} > limit"}[trig["expr"]]
        lines.append("try:")
        if trig["kind"] == "event":
            lines.append(f"    @event_trigger('c11t', {f'k == {k} and ' + cond!r})")
        elif trig["kind"] == "state":
            lines.append(f"    @state_trigger({cond!r})")
        else:
            lines += [f"    @event_trigger('c11t', 'k == {k}')", f"    @state_active({cond!r})"]
        if trig["via"] == "self":
            lines.append(f"    @{TRIG_DECO_FN[trig['deco']]}")
        elif trig["via"]:
            dst, _, form = trig["via"].partition(".")
            lines.append(f"    @{_exprs(dst, form)[TRIG_DECO_FN[trig['deco']]]}")
        lines += [f"    def trg_{k}(**kw):",
                  f"        sim.mark('trg', {fid!r}, trg={k}, k=kw.get('k'), q=kw.get('q'), n=kw.get('n'), "
                  f"value=kw.get('value'), var=kw.get('var_name'), {own})"]
        lines += _tail_except(fid, "trg", k)
    return lines


def _tail_except(fid: str, item: str, k: int, ind: str = "") -> list[str]:
    """No statement of the tail raises in Python; if one does here, say so (marker) and carry on with the file."""
    return [f"{ind}except Exception as exc:",
            f"{ind}    sim.mark('tailerr', {fid!r}, item={item!r}, k={k}, err=type(exc).__name__)", ""]


def _render_file(fid: str, spec: dict) -> str:
    files = spec["files"]
    my_edges = [e for e in spec["edges"] if e["src"] == fid]
    own = _own(fid)
    lines = [f"# generated for C11: {PATH[fid]} -> global context {CTX[fid]}",
             f"tok_{fid} = sim.get('next_token')({fid!r})",
             f"sim.mark('loaded', {fid!r}, tok=tok_{fid})"]
    tops = []
    for edge in my_edges:
        for form in edge["forms"]:
            stmt = _top_import(edge["dst"], form)
            if stmt:
                tops.append((0 if form in STAR_FORMS else 1, stmt, edge["dst"]))
    for _, stmt, dst in sorted(tops, key=lambda t: t[0]):
        lines.append(f"sim.mark('imp', {fid!r}, g={dst!r}, top=True)")
        lines.append(stmt)
    slow = (spec.get("slow") or {}).get(fid)
    if slow:
        lines.append(f"task.sleep({slow})")
    lines += [f"import_token = tok_{fid}", f"tag = {fid!r}", "counter = 0", "shared = []", f"only_{fid} = {fid!r}", ""]
    lines += ["class Box:", f"    home = {fid!r}", "",
              "    def __init__(self, label):", "        self.label = label", "        self.n = 0", "",
              "    def poke(self, run, plan, cbs):"]
    lines += _hop_body(fid, files, my_edges, "        ", True)
    lines += ["", "def hop(run, plan, cbs):"]
    lines += _hop_body(fid, files, my_edges, "    ", False)
    lines += ["", f"box = Box({fid!r})", ""]
    lines += _render_closures(fid)
    lines += _render_extras(fid)
    # ---- quiescent probe
    lines += ["def peek(out):",
              f"    ent = {{'f': {fid!r}, 'tok': import_token, 'tag': tag, 'counter': counter, 'sh': len(shared), "
              f"'ctx': pyscript.get_global_ctx(), 'sees': {{}}}}",
              "    out.append(ent)", "    sees = ent['sees']",
              # this file's own view of the globals other files imported (and bound again in their namespace), and
              # of the function its decorator texist() handed out
              "    ent['rb'] = rb_view()",
              "    try:", "        ent['tex'] = t_existing(probe=1)",
              "    except Exception as exc:", "        ent['tex'] = 'ERR ' + type(exc).__name__"]
    for edge in my_edges:
        for form in edge["forms"]:
            ex = _exprs(edge["dst"], form)
            lazy = _lazy_import(edge["dst"], form)
            if lazy:
                lines.append(f"    {lazy}")
            lines.append(f"    sees['{edge['dst']}.{form}'] = {ex['import_token']}")
            lines.append(f"    {ex['peek']}(out)")
        if spec.get("reimport"):
            # one more import of the same module, executed now: it must hand out the instance this file already holds
            again = "from . import sub as again" if edge["dst"] == "ps" else f"import {edge['dst']} as again"
            lines += [f"    {again}", f"    sees['{edge['dst']}.again'] = again.import_token"]
    lines += ["    ent['tag2'] = tag", "    ent['ctx2'] = pyscript.get_global_ctx()", "    ent['tok2'] = import_token", ""]
    if fid in ENTRY_POOL:
        lines += ["def launch(run, plan, how, top):", "    nx = plan[0]", "    via = nx['via']", "    d = -1",
                  f"    cbs = {{{fid!r}: hop, {fid + '.m'!r}: box.poke, {fid + '.k'!r}: (make, wrap)}}",
                  f"    sim.mark('start', {fid!r}, run=run, d=d, how=how, {own})"]
        lines += _dispatch(fid, my_edges, "    ", files)
        lines += ["    if nx['spawn']:", "        task.create(fn, nx['run'], plan, cbs)",
                  f"        sim.mark('spawned', {fid!r}, run=run, d=d, {own})",
                  "    else:", "        res = 'ret'", "        try:"] + _call_lines("            ", "run, plan, cbs") + \
            ["        except ValueError:", "            res = 'exc'"]
        lines += _vis_block(fid, files, "        ")
        lines += [f"        sim.mark('back', {fid!r}, run=run, d=d, how=res, {own}, vis=vis)",
                  "        if res == 'exc' and not top:", "            raise ValueError('boom at top')", ""]
        lines += ["@service", f"def svc_{fid}(run=None, plan=None, top=True, **kw):",
                  "    launch(run, plan, 'service', top)", "",
                  "@service", f"def spawn_{fid}(run=None, plan=None, top=True, **kw):",
                  "    launch(run, plan, 'create', top)", "",
                  f"@event_trigger('go_{fid}')", f"def trig_{fid}(run=None, plan=None, top=True, **kw):",
                  "    launch(run, plan, 'event', top)", "",
                  "@service", f"def look_{fid}(**kw):", "    out = []", "    peek(out)",
                  f"    sim.mark('peek', {fid!r}, out=out)", ""]
    else:
        lines += [f"hop_{fid} = hop", f"box_{fid} = box", f"shared_{fid} = shared", f"peek_{fid} = peek",
                  f"make_{fid} = make", f"wrap_{fid} = wrap", f"twrap_{fid} = twrap", f"tsame_{fid} = tsame",
                  f"texist_{fid} = texist", f"rb_view_{fid} = rb_view", ""]
    lines.append(f"sim.mark('loaded_end', {fid!r}, {own})")
    tail = _render_tail(fid, spec)
    lines += tail
    if tail:
        # the top-level code of the file really ends here (the module is registered only after it): the window in
        # which a second import of the file races with this load (recorded finding C11-K1) lasts until then
        lines.append(f"sim.mark('loaded_fin', {fid!r}, tok=tok_{fid})")
    return "\n".join(lines) + "\n"


def render(scn: dict) -> dict:
    spec = scn["spec"]
    out = {}
    for fid in spec["files"]:
        text = _render_file(fid, spec)
        _pyast.parse(text)  # a generated file must at least be valid Python
        out[PATH[fid]] = text
    return out


# ------------------------------------------------------------------ expectations from the plan
def _form_of(via: str) -> str:
    return via.split(".", 1)[1] if "." in via else via


def _pre_call(seq: list, fid: str, d: int, nx: dict) -> None:
    form = _form_of(nx["via"])
    if form in LAZY_FORMS:
        seq.append(("imp", fid, d))
    if form not in ("self", "cb"):
        seq.append(("see", fid, d))
    if nx.get("clo"):
        seq.append(("clo", fid, d))
    if nx.get("badfirst"):
        seq.append(("badback", fid, d))


def _exp_hop(out: dict, rid: int, plan: list, i: int) -> str:
    seq = out.setdefault(rid, [])
    me = plan[i]
    fid = me["f"]
    seq.append(("enter", fid, i))
    seq.append(("bumped", fid, i))
    if i + 1 < len(plan):
        nx = plan[i + 1]
        _pre_call(seq, fid, i, nx)
        if nx["spawn"]:
            seq.append(("spawned", fid, i))
            _exp_hop(out, nx["run"], plan, i + 1)
        else:
            res = _exp_hop(out, rid, plan, i + 1)
            if nx.get("comp"):
                seq.append(("cback", fid, i, res))
            if me["catch"] == "none":
                if res == "exc":
                    return "exc"
                seq.append(("back", fid, i, "ret"))
            else:
                seq.append(("back", fid, i, res))
                if res == "exc" and me["catch"] != "catch":
                    return "exc"
    if me["sleep2"] > 0:
        seq.append(("after", fid, i))
    return "exc" if me["raise"] else "ret"


def expected_sequences(run: dict) -> dict:
    out: dict = {}
    rid, entry, plan = run["id"], run["entry"], run["plan"]
    seq = out.setdefault(rid, [])
    seq.append(("start", entry, -1))
    nx = plan[0]
    _pre_call(seq, entry, -1, nx)
    if nx["spawn"]:
        seq.append(("spawned", entry, -1))
        _exp_hop(out, nx["run"], plan, 0)
    else:
        res = _exp_hop(out, rid, plan, 0)
        if nx.get("comp"):
            seq.append(("cback", entry, -1, res))
        seq.append(("back", entry, -1, res))
    return out


def expected_clors(run: dict) -> list:
    """(run id of the calling frame, hop index of the caller, caller file, file that builds the inner function, clo)
    for every step of the plan that carries a closure exercise; every hop of a plan is entered, so all are due."""
    out = []
    rid, cur = run["id"], run["entry"]
    for i, step in enumerate(run["plan"]):
        if step.get("clo"):
            out.append((rid, i - 1, cur, step["f"], step["clo"]))
        if step["spawn"]:
            rid = step["run"]
        cur = step["f"]
    return out


def expected_vis(spec: dict) -> dict:
    stars: dict = {f: set() for f in spec["files"]}
    for edge in spec["edges"]:
        if any(f in STAR_FORMS for f in edge["forms"]):
            stars[edge["src"]].add(edge["dst"])
    vis = {}
    for fid in reversed(spec["files"]):  # modules come last in ORDER: resolve them first
        acc = set()
        for dst in stars[fid]:
            acc.add(dst)
            acc |= vis.get(dst, set())
        vis[fid] = acc
    return {f: sorted(v - {f}, key=spec["files"].index) for f, v in vis.items()}


# ------------------------------------------------------------------ run + oracle
class C11World(World):
    """World with the load-token counter registered before any script file is loaded."""

    def extra_patches(self) -> list:
        reg = self.token_reg = []

        def next_token(fid):
            reg.append(fid)
            return len(reg)

        self.natives["next_token"] = next_token
        return []


def warmup() -> None:
    run(gen(random.Random(1), "quick"))


def run(scn: dict) -> dict:
    scn = normalize(copy.deepcopy(scn))
    if scn is None:
        raise HarnessError("C11: invalid scenario")
    spec = scn["spec"]
    files = render(scn)
    cfg = dict(scn["cfg"])
    if "xa" in spec["files"]:
        cfg["apps"] = {"xa": {"opt": 1}}
    w = C11World(cfg, files)
    runs = {r["id"]: r for r in spec["runs"]}
    st = {"starts": [], "reloads": [], "peek_from": None, "fires": [], "rebinds": []}
    trig_by_id = {t["id"]: t for t in spec["trigs"]}
    rebind_by_id = {r["id"]: r for r in spec["rebinds"]}

    async def driver(w: World):
        from homeassistant.exceptions import ServiceNotFound

        await w.started()
        if any(t["kind"] == "active" for t in spec["trigs"]):
            w.set_state("pyscript.c11base", str(spec["tbase"]))
            await w.drain()
        st["ops_from"] = len(w.marks)
        burst = 0
        for op in scn["ops"]:
            await wait_op(w, op)
            if op.get("dt", 0.0) > 0 or op.get("passes", 0) > 0:
                burst = 0
            kind = op["kind"]
            if kind == "start":
                burst += 1
                if burst == 2:
                    w.probe("same_instant_starts")
                rn = runs[op["run"]]
                data = {"run": rn["id"], "plan": copy.deepcopy(rn["plan"]), "top": rn["catch_top"]}
                rec = {"run": rn["id"], "t": w.vts(), "iter": w.loop.iterations, "ok": True}
                if rn["how"] == "event":
                    w.fire(f"go_{rn['entry']}", data)
                else:
                    svc = ("svc_" if rn["how"] == "service" else "spawn_") + rn["entry"]
                    try:
                        await w.call_service("pyscript", svc, data, blocking=False)
                    except ServiceNotFound:
                        rec["ok"] = False
                        w.probe("service_missing_during_reload")
                st["starts"].append(rec)
            elif kind == "reload":
                for prev in st["reloads"]:
                    # overlapping pyscript.reload calls are another property's business (C10/C12): one at a time
                    for _ in range(40):
                        if prev["task"].done():
                            break
                        await w.sleep(0.05)
                if op["mode"] == "touch":
                    w.touch_file(PATH[op["target"]])
                    arg = None
                elif op["mode"] == "all":
                    arg = "*"
                else:
                    arg = CTX[op["target"]]
                rec = {"t0": w.vts(), "i0": w.loop.iterations, "i1": None, "op": op}
                task = w.hass.async_create_task(w.reload(arg))
                rec["task"] = task

                def _done(_t, rec=rec):
                    rec["i1"] = w.loop.iterations

                task.add_done_callback(_done)
                st["reloads"].append(rec)
                w.fault("reload")
            elif kind == "stall":
                w.loop.stall(op["s"])
                w.fault("stall")
            elif kind == "fire":
                trig = trig_by_id[op["k"]]
                st["fires"].append({"k": op["k"], "n": op["n"], "q": op["q"], "t": w.vts(), "iter": w.loop.iterations})
                if trig["kind"] == "state":
                    w.set_state(f"pyscript.c11v_{op['k']}", str(op["n"] * 100 + op["q"]))
                else:
                    w.fire("c11t", {"k": op["k"], "n": op["n"], "q": op["q"]})
            elif kind == "rebind":
                rb = rebind_by_id[op["k"]]
                rec = {"k": op["k"], "t": w.vts(), "ok": True}
                try:
                    await w.call_service("pyscript", f"rebind_{rb['f']}", {"k": op["k"]}, blocking=False)
                except ServiceNotFound:
                    rec["ok"] = False
                    w.probe("service_missing_during_reload")
                st["rebinds"].append(rec)
        await w.settle(8.0)
        for rec in st["reloads"]:
            for _ in range(20):
                if rec["task"].done():
                    break
                await w.settle(1.0)
            if not rec["task"].done():
                raise HarnessError("C11: a pyscript.reload call did not finish")
            if rec["task"].exception() is not None:
                raise HarnessError(f"C11: pyscript.reload raised {rec['task'].exception()!r}")
        await w.settle(1.0)
        if any(s.get("clo") and s["clo"]["by"] == "trigger" for r in spec["runs"] for s in r["plan"]):
            # the inner functions that were wrapped into trigger functions run now, each in its trigger's task
            w.fire("clo_fire", {})
            await w.settle(1.0)
        st["peek_from"] = len(w.marks)
        for fid in spec["files"]:
            if fid in ENTRY_POOL:
                await w.call_service("pyscript", f"look_{fid}", {}, blocking=True)
        await w.settle(0.5)

    try:
        w.run(driver)
    finally:
        _drop_finalizers()
    violations, nontrivial, extra = judge(w, scn, st)
    return base_result(w, violations, nontrivial, extra)


def _drop_finalizers() -> None:
    """Harness hygiene, not part of the check: FunctionDecoratorManager registers a weakref.finalize whose
    callback keeps the manager - and through it the whole global context incl. the parsed files - alive for the
    life of the process.  The generated files are large, so a worker slowed down run after run (gc.collect over
    an ever growing heap).  Detach those finalizers once the world is torn down."""
    import weakref

    for fin in list(weakref.finalize._registry):  # pylint: disable=protected-access
        info = weakref.finalize._registry.get(fin)  # pylint: disable=protected-access
        if info is not None and "FunctionDecoratorManager" in getattr(info.func, "__qualname__", ""):
            fin.detach()


def judge(w: World, scn: dict, st: dict):
    spec = scn["spec"]
    sub = "legacy" if w.cfg["legacy"] else "new"
    files = spec["files"]
    reg = w.token_reg
    exp_vis = expected_vis(spec)
    reload_iters = sorted(r["i0"] for r in st["reloads"])
    violations: list = []
    seen_keys = set()

    def viol(cls: str, sig: dict, detail: str, t: float, once=None) -> None:
        if once is not None:
            if (cls, once) in seen_keys:
                return
            seen_keys.add((cls, once))
        violations.append({"class": cls, "sig": {"subsystem": sub, **sig}, "detail": detail, "t": t})

    def reloads_before(it: int) -> int:
        return sum(1 for i0 in reload_iters if i0 <= it)

    def reload_in_flight(it: int) -> bool:
        return any(r["i0"] <= it and (r["i1"] is None or it <= r["i1"]) for r in st["reloads"])

    def tok_owner(tok):
        if isinstance(tok, int) and not isinstance(tok, bool) and 1 <= tok <= len(reg):
            return reg[tok - 1]
        return None

    counter_model: dict = {}   # (fid, tok) -> bumps so far
    shared_model: dict = {}    # (fid, tok) -> appends so far
    loads: dict = {}           # fid -> [marks]
    tokens_seen: dict = {}     # fid -> {tok: first mark} before any reload was issued
    latest_tok: dict = {}      # fid -> token of the most recent load
    load_done: dict = {}       # token -> index of the loaded_end mark
    racing_load: dict = {}     # token -> its load began while the previous load of the file was in progress
    imp_by_task: dict = {}     # task label -> {module: index of the task's latest 'imp' mark for it}
    sleeping: dict = {}        # (run, d) -> fid  (between enter and bumped)
    pending_imp: dict = {}     # (run, d) -> (g, first_import?)
    run_marks: dict = {}       # run id -> [marks]
    cross_calls = 0
    overlap = False
    peek_from = st["peek_from"] if st["peek_from"] is not None else len(w.marks)

    def check_own(m: dict, fid: str, kw: dict, cls: str, at: str, bump: bool = False) -> None:
        """tag / token / context name / counter of a mark made by code of file ``fid``."""
        t = m["t"]
        where = f"{at} mark of {fid} (run {kw.get('run')}, hop {kw.get('d')}, task {m['task']})"
        if kw.get("tag") != fid:
            viol(cls, {"at": at, "what": "tag"}, f"{where} shows tag={kw.get('tag')!r}, the file's own tag is {fid!r}", t)
        tok = kw.get("tok")
        owner = tok_owner(tok)
        if owner != fid:
            viol(cls, {"at": at, "what": "token"},
                 f"{where} shows import_token={tok!r} which was drawn by file {owner!r}, not by {fid!r}", t)
        if kw.get("ctx") != CTX[fid]:
            viol(cls, {"at": at, "what": "ctx_name"},
                 f"{where}: pyscript.get_global_ctx() = {kw.get('ctx')!r}, the defining file's context is {CTX[fid]!r}", t)
        if owner == fid and kw.get("tag") == fid:
            key = (fid, tok)
            want = counter_model.get(key, 0) + (1 if bump else 0)
            if kw.get("counter") != want:
                viol(cls, {"at": at, "what": "counter"},
                     f"{where} shows counter={kw.get('counter')!r}; the bump history of this instance of {fid} "
                     f"(token {tok}) gives {want}", t)
            if bump:
                counter_model[key] = want if kw.get("counter") == want else kw.get("counter") if isinstance(
                    kw.get("counter"), int) else want
            if "sh" in kw and kw["sh"] != shared_model.get(key, 0):
                viol("C11.shared_state_not_shared", {"at": at},
                     f"{where} shows len(shared)={kw['sh']!r}; importers appended {shared_model.get(key, 0)} "
                     f"item(s) to this instance (token {tok})", t)
            if latest_tok.get(fid) != tok:
                w.probe("old_instance_ran_after_reload")
        if "vis" in kw and kw["vis"] != exp_vis[fid]:
            extra_names = [x for x in kw["vis"] if x not in exp_vis[fid]]
            viol("C11.leak_between_contexts" if extra_names else "C11.star_import_name_missing",
                 {"at": at},
                 f"{where} can read the only_<file> names of {kw['vis']}; by its star imports it should see "
                 f"exactly {exp_vis[fid]}", t)

    # ---- globals of file g that other files imported and bound again in their own namespace
    rebind_by_id = {r["id"]: r for r in spec["rebinds"]}
    rebind_marks: dict = {}    # rebind id -> marks

    def check_rb_view(g: str, view, when: str, t: float) -> None:
        want = {"val": f"{g}:val", "fn": f"{g}:fn", "cls": f"{g}:cls", "obj": f"{g}:cls"}
        if not isinstance(view, dict) or sorted(view) != sorted(want):
            raise HarnessError(f"C11: malformed rb_view {view!r}")
        for key in RB_OBJS:
            got = view[key]
            if got == want[key]:
                continue
            now = "error" if isinstance(got, str) and got.startswith("ERR ") else \
                "importer_value" if isinstance(got, str) and got.endswith(":mine") else "other"
            viol("C11.global_modified_by_other_file", {"what": key, "now": now},
                 f"{when}: {g}'s OWN code reads its global {RB_NAME[key]}_{g} ({key}) as {got!r} instead of "
                 f"{want[key]!r} - no file assigned to an attribute of the module, a name that merely was imported "
                 f"from it was bound again elsewhere", t, once=(g, key))

    # ---- trigger functions with expression strings
    trig_by_id = {t["id"]: t for t in spec["trigs"]}
    fire_by_q = {f["q"]: f for f in st.get("fires", [])}
    trig_reports: dict = {}    # q -> number of times the trigger's final function reported

    def trig_truth(trig: dict, fire: dict, fid: str) -> bool:
        """Value of the trigger's expression(s) with the names limit / tag / only_<f> read in file ``fid``."""
        if trig["expr"] != "limit" and fid != trig["f"]:
            return False
        return (spec["tbase"] if trig["kind"] == "active" else fire["n"]) > LIMIT[fid]

    def check_trig_mark(m: dict, kind: str, fid: str, kw: dict) -> None:
        kw = m["raw_kw"]
        if kw.get("value") is not None:
            val = int(kw["value"])
            k, q = int(str(kw.get("var")).rsplit("_", 1)[1]), val % 100
        else:
            k, q = kw.get("k"), kw.get("q")
        trig, fire = trig_by_id.get(k), fire_by_q.get(q)
        if trig is None or fire is None or fire["k"] != k or (kind == "trg" and kw.get("trg") != k):
            raise HarnessError(f"C11: {kind} mark that no fire op explains: {kw}")
        dst = trig["via"].partition(".")[0] if trig["via"] not in (None, "self") else trig["f"]
        final = "tex" if trig["deco"] == "existing" else "trg"
        if (kind == "trg" and fid != trig["f"]) or (kind in ("twr", "tex") and fid != dst) or \
                (kind == "twr" and trig["deco"] != "wrapper") or (kind == "tex" and final != "tex"):
            raise HarnessError(f"C11: {kind} mark by the wrong function: {kw} for {trig}")
        if kind != final:
            return
        trig_reports[q] = trig_reports.get(q, 0) + 1
        w.probe("trigger_expression_names_file_globals")
        if trig["via"] not in (None, "self"):
            w.probe("trigger_function_decorated_by_other_file")
            w.probe(f"trigger_function_decorated_by_other_file_{trig['deco']}")
        if not trig_truth(trig, fire, trig["f"]):
            others = [f for f in files if f != trig["f"] and trig_truth(dict(trig, expr="limit"), fire, f)]
            viol("C11.foreign_globals", {"at": "trigger_expression", "what": "fired_although_false"},
                 f"trigger function trg_{k} of {trig['f']} ({trig['kind']}, decorator {trig['deco']} via {trig['via']}) "
                 f"ran for fire #{q} (n={fire['n']}, base={spec['tbase']}) although its expression is false with the "
                 f"globals of {trig['f']} (limit={LIMIT[trig['f']]}); it would be true with the limit of {others}",
                 m["t"])

    clors: dict = {}           # (run, d, caller file) -> 'clor' marks
    clo_plan = {(crid, cd, cfid): (cg, clo) for rn in spec["runs"] for (crid, cd, cfid, cg, clo) in expected_clors(rn)}

    def check_clor(m: dict, fid: str, kw: dict) -> None:
        """An inner function built by file g on behalf of a frame of file ``fid`` has just been run (by the caller,
        a created task or a trigger) and has reported what its free names resolve to."""
        t = m["t"]
        g, by, kind, x = kw.get("g"), kw.get("by"), kw.get("kind"), kw.get("x")
        got = kw.get("got")
        if g not in files or g == fid or not isinstance(got, dict) or not isinstance(x, int):
            raise HarnessError(f"C11: malformed clor mark {kw}")
        planned = clo_plan.get((kw.get("run"), kw.get("d"), fid))
        if planned is None or planned[0] != g or planned[1]["salt"] + 1 != x or planned[1]["kind"] != kind or \
                planned[1]["by"] != by:
            raise HarnessError(f"C11: clor mark without a plan step {kw}")
        shadow = planned[1]["shadow"]
        where = (f"inner function ({kind}) built by {g} during a call from {fid} (run {kw.get('run')}, hop {kw.get('d')}), "
                 f"run by {by} (task {m['task']})")
        w.probe("inner_function_built_across_files")
        w.probe(f"inner_function_{kind}")
        w.probe(f"inner_function_run_by_{by}")
        if shadow == "all":
            w.probe("caller_locals_shadow_callee_globals")
        cls = "C11.foreign_globals"

        def leak(val) -> str:
            from_caller = (isinstance(val, str) and val.startswith(("local:" + fid, fid))) or \
                (isinstance(val, int) and val in (-1, -100))
            return " - that is a name of the CALLING file" if from_caller else ""

        if got.get("tag") != g:
            viol(cls, {"at": "inner_function", "what": "tag"},
                 f"{where} reads tag={got.get('tag')!r}; its defining file's global is {g!r}{leak(got.get('tag'))}", t)
        tok = got.get("tok")
        if tok_owner(tok) != g:
            viol(cls, {"at": "inner_function", "what": "token"},
                 f"{where} reads import_token={tok!r}, drawn by {tok_owner(tok)!r}, not by {g!r}{leak(tok)}", t)
        elif got.get("tag") == g:
            want = counter_model.get((g, tok), 0)
            if got.get("counter") != want:
                viol(cls, {"at": "inner_function", "what": "counter"},
                     f"{where} reads counter={got.get('counter')!r}; the bump history of instance {tok} of {g} gives "
                     f"{want}{leak(got.get('counter'))}", t)
        if got.get("ctx") != CTX[g]:
            viol(cls, {"at": "inner_function", "what": "ctx_name"},
                 f"{where}: pyscript.get_global_ctx() = {got.get('ctx')!r}, the defining file's context is {CTX[g]!r}", t)
        if got.get("lab") != f"{g}:{x}":
            viol(cls, {"at": "inner_function", "what": "helper_function"},
                 f"{where} calls label({x}) and gets {got.get('lab')!r}; its own file's label() returns "
                 f"{g + ':' + str(x)!r}{leak(got.get('lab'))}", t)
        if got.get("home") != g:
            viol(cls, {"at": "inner_function", "what": "class"},
                 f"{where} reads Box.home={got.get('home')!r}; its own file's class Box has home={g!r}"
                 f"{leak(got.get('home'))}", t)
        caller_tag = "local:" + fid if shadow == "all" else fid
        if kind == "deco":
            # the decorated function is the caller's: it runs against the caller's names although g's wrapper calls it
            if got.get("inner") != [caller_tag, x]:
                viol(cls, {"at": "decorated_function", "what": "tag"},
                     f"{where}: the decorated function of {fid} returned {got.get('inner')!r}, its own tag is "
                     f"{caller_tag!r} (expected {[caller_tag, x]!r})", t)
        elif got.get("seq") != [x - 1, x]:
            viol(cls, {"at": "inner_function", "what": "enclosing_local"},
                 f"{where} sees its enclosing function's list as {got.get('seq')!r}, expected {[x - 1, x]!r}", t)
        # the calling frame's own names after the foreign code ran
        own_tok = kw.get("tok")
        if shadow == "all":
            want_keep = ["local:" + fid, -1, -100, f"local:{fid}:0", "local:" + fid]
        else:
            want_keep = [fid, own_tok, counter_model.get((fid, own_tok), 0), f"{fid}:0", fid]
        if kw.get("keep") != want_keep:
            viol("C11.caller_context_not_restored", {"at": "clor", "what": "caller_names"},
                 f"{where}: afterwards the calling frame of {fid} reads [tag, import_token, counter, label(0), Box.home] "
                 f"= {kw.get('keep')!r}, expected {want_keep!r}", t)
        check_own(m, fid, kw, "C11.caller_context_not_restored", "clor")

    for idx, m in enumerate(w.marks):
        kind = m["args"][0]
        fid = m["args"][1] if len(m["args"]) > 1 else None
        kw = m["kw"]
        if fid not in files:
            raise HarnessError(f"C11: unexpected mark {m['args']}")
        if kind == "loaded":
            lst = loads.setdefault(fid, [])
            if tok_owner(kw.get("tok")) != fid:
                raise HarnessError("C11: token registry out of step")
            # did the import statement that caused this load begin before the previous load of the file was over?
            begun_idx = imp_by_task.get(m["task"], {}).get(fid, idx)
            begun_iter = w.marks[begun_idx]["iter"]
            prev_tok = lst[-1]["kw"].get("tok") if lst else None
            prev_done = load_done.get(prev_tok)
            racing = bool(lst) and (prev_done is None or prev_done > begun_idx)
            racing_load[kw.get("tok")] = racing
            lst.append(m)
            latest_tok[fid] = kw.get("tok")
            n_rel = reloads_before(m["iter"])
            toks = [x["kw"].get("tok") for x in lst]
            if racing:
                viol("C11.module_loaded_twice", {"kind": KIND[fid], "reload_issued": n_rel > 0, "racing": True},
                     f"top-level code of {PATH[fid]} is running a second time (tokens {toks}): the import that caused "
                     f"this load began before the previous load of the same file had finished, so two instances "
                     f"come to life ({n_rel} reload(s) issued so far)", m["t"], once=(fid, True))
            elif len(lst) > 1:
                done_iter = w.marks[prev_done]["iter"]
                if not any(r["i0"] <= begun_iter and (r["i1"] is None or r["i1"] >= done_iter) for r in st["reloads"]):
                    viol("C11.module_loaded_twice", {"kind": KIND[fid], "reload_issued": n_rel > 0, "racing": False},
                         f"top-level code of {PATH[fid]} ran again (tokens {toks}) although no pyscript.reload was in "
                         f"flight between the end of the previous load and the import that caused this one", m["t"],
                         once=(fid, False))
            continue
        if kind == "loaded_fin":
            load_done[kw.get("tok")] = idx
            continue
        if kind == "loaded_end":
            load_done[kw.get("tok")] = idx
            check_own(m, fid, kw, "C11.foreign_globals", "loaded_end")
            continue
        if kind == "peek":
            continue
        run_id = kw.get("run")
        if idx >= st.get("ops_from", 0) and run_id is not None:
            run_marks.setdefault(run_id, []).append(m)
        if kind == "imp":
            g = kw.get("g")
            imp_by_task.setdefault(m["task"], {})[g] = idx
            if kw.get("top"):
                continue
            first = g not in loads
            pending_imp[(run_id, kw.get("d"), fid)] = (g, first)
            w.probe("function_body_import")
            if first and sum(1 for (gg, ff) in pending_imp.values() if gg == g and ff) >= 2:
                w.probe("first_imports_in_flight_together")
            if reload_in_flight(m["iter"]):
                w.probe("import_during_reload")
            continue
        if kind == "see":
            g, tok = kw.get("g"), kw.get("tok")
            if pending_imp.pop((run_id, kw.get("d"), fid), None) is not None and reload_in_flight(m["iter"]):
                w.probe("import_during_reload")
            form = _form_of(kw.get("via") or "")
            if form in STAR_FORMS:
                w.probe("from_import_star")
            if form in REL_FORMS:
                w.probe("relative_import_hop")
            if tok_owner(tok) != g:
                viol("C11.foreign_globals", {"at": "see", "what": "token"},
                     f"{fid} (run {run_id}) reads import_token={tok!r} through {kw.get('via')}; that token was drawn "
                     f"by {tok_owner(tok)!r}, not by {g!r}", m["t"])
                continue
            shared_model[(g, tok)] = shared_model.get((g, tok), 0) + 1
            if g != fid:
                cross_calls += 1
            if reloads_before(m["iter"]) == 0:
                known = tokens_seen.setdefault(g, {})
                if tok not in known:
                    known[tok] = m
                    if len(known) > 1:
                        viol("C11.module_instances_differ",
                             {"when": "run", "racing": any(racing_load.get(k) for k in known), "reload_issued": False},
                             f"importers hold different instances of module {g}: tokens {sorted(known)} "
                             f"(latest: {fid} through {kw.get('via')} in run {run_id}); no reload had been issued",
                             m["t"], once=g)
            continue
        if kind == "clor":
            clors.setdefault((run_id, kw.get("d"), fid), []).append(m)
            check_clor(m, fid, kw)
            continue
        if kind == "rebind":
            rb = rebind_by_id.get(kw.get("k"))
            if rb is None or rb["f"] != fid or rb["g"] != kw.get("g"):
                raise HarnessError(f"C11: rebind mark without a spec entry {kw}")
            rebind_marks.setdefault(rb["id"], []).append(m)
            w.probe("imported_name_bound_again")
            w.probe(f"imported_name_bound_again_{rb['where']}")
            if rb["obj"] == "cls":
                w.probe("imported_class_bound_again")
            check_rb_view(rb["g"], m["raw_kw"].get("after"),
                          f"after {fid} bound the {rb['obj']} it got from {rb['g']} through {rb['form']} again "
                          f"({rb['how']}, {rb['where']})", m["t"])
            continue
        if kind == "tailerr":
            k, err = kw.get("k"), m["raw_kw"].get("err")
            if kw.get("item") == "trg":
                trig = trig_by_id.get(k)
                if trig is None or trig["f"] != fid:
                    raise HarnessError(f"C11: tailerr mark without a spec entry {kw}")
                if trig["deco"] == "existing":
                    viol("C11.global_modified_by_other_file",
                         {"what": "function_returned_by_decorator", "now": "decorator_application_fails"},
                         f"{fid}'s statement '@<trigger> @{trig['via']}:texist def trg_{k}' raises {err}: the decorator "
                         f"of {trig['via'].partition('.')[0]} returns an existing function of its own file, and that "
                         f"function is no longer usable after an earlier load of {fid} had been handed it", m["t"],
                         once=("texfail", fid, k))
                else:
                    viol("C11.call_chain_deviates", {"expected": "trigger_definition", "got": "error"},
                         f"{fid}'s definition of trigger function trg_{k} ({trig}) raises {err}", m["t"])
            else:
                rb = rebind_by_id.get(k)
                if rb is None or rb["f"] != fid:
                    raise HarnessError(f"C11: tailerr mark without a spec entry {kw}")
                rebind_marks.setdefault(rb["id"], []).append(m)
                if ("C11.global_modified_by_other_file", (rb["g"], rb["obj"])) in seen_keys:
                    # already reported: the exporter's global is gone, so a later load of the importer cannot even
                    # fetch it any more - a consequence
                    w.probe("rebind_failed_after_exporter_global_was_modified")
                    continue
                viol("C11.call_chain_deviates", {"expected": "rebind", "got": "error"},
                     f"{fid}: binding the {rb['obj']} imported from {rb['g']} (through {rb['form']}) again by "
                     f"{rb['how']} ({rb['where']}) raises {err}", m["t"])
            continue
        if kind in ("trg", "twr", "tex"):
            check_trig_mark(m, kind, fid, kw)
        # ---- marks made by code of file fid that read its own globals
        if kind not in OWN_KINDS:
            raise HarnessError(f"C11: unknown mark kind {kind}")
        cls = "C11.caller_context_not_restored" if kind in ("back", "after", "badback", "clo") else "C11.foreign_globals"
        check_own(m, fid, kw, cls, kind, bump=(kind == "bumped"))
        if kind == "enter":
            if kw.get("k") == "m":
                w.probe("method_hop")
            if isinstance(kw.get("d"), int) and kw["d"] >= 2:
                w.probe("chain_depth_3")
            if isinstance(kw.get("d"), int) and kw["d"] >= 3:
                w.probe("chain_depth_4")
            tok = kw.get("tok")
            if reloads_before(m["iter"]) == 0 and tok_owner(tok) == fid and fid in MOD_ORDER:
                known = tokens_seen.setdefault(fid, {})
                if tok not in known:
                    known[tok] = m
                    if len(known) > 1:
                        viol("C11.module_instances_differ",
                             {"when": "run", "racing": any(racing_load.get(k) for k in known), "reload_issued": False},
                             f"functions of two different instances of module {fid} ran: tokens {sorted(known)}; "
                             f"no reload had been issued", m["t"], once=fid)
            for (orun, _od), ofid in sleeping.items():
                if orun != run_id:
                    overlap = True
                    if ofid != fid:
                        w.probe("two_runs_overlap_in_different_contexts")
            sleeping[(run_id, kw.get("d"))] = fid
        elif kind == "bumped":
            sleeping.pop((run_id, kw.get("d")), None)
        if kind in ("enter", "bumped", "back", "after") and st["reloads"] and reload_in_flight(m["iter"]):
            w.probe("run_suspended_during_reload")

    # ---- per-run mark sequences against the plan
    any_reload = bool(st["reloads"])
    started_ok = {s["run"]: s for s in st["starts"]}
    n_runs_seen = 0
    for rn in spec["runs"]:
        if rn["id"] not in started_ok:
            continue
        exp_all = expected_sequences(rn)
        got_root = run_marks.get(rn["id"], [])
        if not got_root:
            if any_reload:
                w.probe("run_not_started_during_reload")
                continue
            raise HarnessError(f"C11: run {rn['id']} ({rn['how']} in {rn['entry']}) never started; "
                               f"logs: {[l['msg'][:200] for l in w.logs if l['level'] in ('ERROR', 'WARNING')][:4]}")
        n_starts = sum(1 for m in got_root if m["args"][0] == "start")
        if n_starts > 1 and any_reload:
            w.probe("run_started_twice_during_reload")
            continue
        n_runs_seen += 1
        if not any_reload:
            # every inner function that was handed out must have been run exactly once (a reload may legitimately
            # take the trigger or the task away: don't-care then)
            for (crid, cd, cfid, cg, clo) in expected_clors(rn):
                n_got = len(clors.get((crid, cd, cfid), []))
                if n_got != 1:
                    errs = [l["msg"].strip().split("\n")[-1][:160] for l in w.logs
                            if l["level"] == "ERROR" and "boom" not in l["msg"]][:3]
                    viol("C11.call_chain_deviates", {"expected": "clor", "got": None if n_got == 0 else "clor"},
                         f"run {crid}: the inner function ({clo['kind']}) that {cg} built for {cfid} (hop {cd}) and that "
                         f"was to be run by {clo['by']} reported {n_got} times instead of once; error log: {errs}",
                         w.marks[-1]["t"])  # established at the end of the run, after whatever went wrong before
        for rid, exp in sorted(exp_all.items()):
            got = []
            for m in run_marks.get(rid, []):
                kind = m["args"][0]
                if kind not in SEQ_KINDS:
                    continue
                item = (kind, m["args"][1], m["kw"].get("d"))
                if kind in ("back", "cback"):
                    item += (m["kw"].get("how"),)
                got.append((item, m))
            got_items = [g[0] for g in got]
            if got_items == exp:
                _count_plan_features(w, rn, rid)
                continue
            pos = next((i for i, (a, b) in enumerate(zip(got_items, exp)) if a != b), min(len(got_items), len(exp)))
            want = exp[pos] if pos < len(exp) else None
            have = got_items[pos] if pos < len(got_items) else None
            t = got[pos][1]["t"] if pos < len(got) else (got[-1][1]["t"] if got else got_root[0]["t"])
            errs = [l["msg"].strip().split("\n")[-1][:160] for l in w.logs
                    if l["level"] == "ERROR" and "boom" not in l["msg"]][:3]
            if want and have and want[0] == have[0] and want[1] == have[1] and want[3:] == have[3:] and \
                    want[0] in ("back", "after") and isinstance(have[2], int) and have[2] > want[2]:
                # the frame of hop want[2] reports the hop index of a frame it had CALLED: after the call returned
                # or raised, its plain names resolve in the callee's locals
                through_cls = any(s.get("rcls") and s["raise"] for s in rn["plan"][want[2] + 1:])
                viol("C11.caller_context_not_restored",
                     {"at": want[0], "what": "locals", "callee_raised_in_class_body": through_cls},
                     f"run {rid} (entry {rn['how']} in {rn['entry']}, plan {[(s['f'], s['via']) for s in rn['plan']]}): "
                     f"the frame of hop {want[2]} in {want[1]} reads its local 'd' as {have[2]} once its callee has "
                     f"{'raised' if (want[3:] or ('',))[0] == 'exc' else 'come back'} - that is the local of a frame it "
                     f"called (mark #{pos} should be {want}, is {have}); error log: {errs}", t)
                continue
            if want and have and want[0] == have[0] == "cback" and want[1] == have[1] and want[3:] == have[3:] and \
                    isinstance(have[2], int) and have[2] == want[2] + 100:
                # via_comp() made the call from inside a comprehension 'for d in [d + 100]': afterwards its own local
                # d still reads the comprehension's loop variable
                comp = next((s.get("comp") for s in rn["plan"] if s["d"] == want[2] + 1), None)
                viol("C11.caller_context_not_restored",
                     {"at": "cback", "what": "locals", "call_in_comprehension": comp,
                      "callee_raised": (want[3:] or ("",))[0] == "exc"},
                     f"run {rid} (entry {rn['how']} in {rn['entry']}, plan {[(s['f'], s['via']) for s in rn['plan']]}): "
                     f"the frame of {want[1]} that called hop {want[2] + 1} from inside a {comp} comprehension "
                     f"('for d in [d + 100]') reads its own local d as {have[2]} once the callee has "
                     f"{'raised' if (want[3:] or ('',))[0] == 'exc' else 'come back'}: the comprehension's loop "
                     f"variable, not the frame's d={want[2]} (mark #{pos} should be {want}, is {have}); "
                     f"error log: {errs}", t)
                continue
            viol("C11.call_chain_deviates",
                 {"expected": want[0] if want else None, "got": have[0] if have else None},
                 f"run {rid} (entry {rn['how']} in {rn['entry']}, plan "
                 f"{[(s['f'], s['via']) for s in rn['plan']]}): mark #{pos} should be {want}, is {have}; "
                 f"error log: {errs}", t)

    # ---- every fire whose expression is true in the trigger function's own file must have run it (without reloads)
    for fire in st.get("fires", []):
        trig = trig_by_id[fire["k"]]
        w.probe("trigger_fired_by_driver")
        if any_reload or trig_reports.get(fire["q"]) or not trig_truth(trig, fire, trig["f"]):
            continue
        errs = [l["msg"].strip().split("\n")[-1][:160] for l in w.logs if l["level"] == "ERROR" and "boom" not in l["msg"]]
        viol("C11.foreign_globals", {"at": "trigger_expression", "what": "not_fired_although_true"},
             f"trigger function trg_{trig['id']} of {trig['f']} ({trig['kind']}, decorator {trig['deco']} via "
             f"{trig['via']}, expression on {trig['expr']}) did not run for fire #{fire['q']} (n={fire['n']}, "
             f"base={spec['tbase']}) although its expression is true with the globals of {trig['f']} "
             f"(limit={LIMIT[trig['f']]}); error log: {errs[-3:]}", fire["t"])
    # ---- every statement that binds an imported name again must have been executed (without reloads)
    if not any_reload:
        done = {r["k"]: r for r in st.get("rebinds", [])}
        for rb in spec["rebinds"]:
            if rb["id"] in rebind_marks:
                continue
            if rb["where"] == "local" and rb["f"] in ENTRY_POOL:
                if rb["id"] not in done:
                    continue   # no op asked for it
            elif rb["f"] not in loads:
                continue       # a module nobody had imported yet
            errs = [l["msg"].strip().split("\n")[-1][:160] for l in w.logs
                    if l["level"] == "ERROR" and "boom" not in l["msg"]]
            viol("C11.call_chain_deviates", {"expected": "rebind", "got": None},
                 f"{rb['f']} never got past the statement that binds the {rb['obj']} it imported from {rb['g']} "
                 f"(through {rb['form']}) again by {rb['how']} ({rb['where']}); error log: {errs[-3:]}",
                 w.marks[-1]["t"] if w.marks else 0.0)

    # ---- final quiescent probe: one live instance per module name, state shared
    final_views: dict = {}
    stale_holders: dict = {}   # module -> tokens of the live file instances that hold a superseded instance of it
    n_peek = 0
    for m in w.marks[peek_from:]:
        if m["args"][0] != "peek":
            continue
        n_peek += 1
        for ent in m["raw_kw"].get("out") or []:
            fid = ent.get("f")
            where = f"final probe of {fid} (reached from {m['args'][1]})"
            tok = ent.get("tok")
            if ent.get("tag") != fid or ent.get("tag2") != fid or tok_owner(tok) != fid or ent.get("tok2") != tok:
                viol("C11.foreign_globals", {"at": "peek", "what": "tag"},
                     f"{where} reads tag={ent.get('tag')!r}/{ent.get('tag2')!r} token={tok!r}/{ent.get('tok2')!r}", m["t"])
                continue
            if ent.get("ctx") != CTX[fid] or ent.get("ctx2") != CTX[fid]:
                viol("C11.foreign_globals", {"at": "peek", "what": "ctx_name"},
                     f"{where}: pyscript.get_global_ctx() = {ent.get('ctx')!r} / after calls {ent.get('ctx2')!r}", m["t"])
            if ent.get("counter") != counter_model.get((fid, tok), 0):
                viol("C11.foreign_globals", {"at": "peek", "what": "counter"},
                     f"{where} reads counter={ent.get('counter')!r}; bump history of instance {tok} gives "
                     f"{counter_model.get((fid, tok), 0)}", m["t"])
            if ent.get("sh") != shared_model.get((fid, tok), 0):
                viol("C11.shared_state_not_shared", {"at": "peek"},
                     f"{where} reads len(shared)={ent.get('sh')!r}; importers appended "
                     f"{shared_model.get((fid, tok), 0)} item(s) to instance {tok}", m["t"])
            if "rb" in ent:
                check_rb_view(fid, ent["rb"], f"{where}", m["t"])
            if ent.get("tex", "ok") != "ok":
                viol("C11.global_modified_by_other_file", {"what": "function_returned_by_decorator", "now": "error"},
                     f"{where}: {fid}'s OWN call of its function t_existing() fails with {ent['tex']!r}; the function "
                     f"had been returned by {fid}'s decorator texist() to "
                     f"{[t['f'] for t in spec['trigs'] if t['deco'] == 'existing' and t['via'].partition('.')[0] == fid]}",
                     m["t"], once=("tex", fid))
            if latest_tok.get(fid) != tok:
                continue  # a superseded instance reached through somebody's stale binding: its views are consequences
            for via, seen_tok in sorted((ent.get("sees") or {}).items()):
                g = via.split(".", 1)[0]
                if tok_owner(seen_tok) != g:
                    viol("C11.foreign_globals", {"at": "peek", "what": "token"},
                         f"{where} sees token {seen_tok!r} for {g} through {via}, drawn by {tok_owner(seen_tok)!r}", m["t"])
                    continue
                final_views.setdefault(g, {}).setdefault(seen_tok, []).append(f"{fid} via {via}")
                if seen_tok != latest_tok.get(g):
                    stale_holders.setdefault(g, []).append(tok)
    if any(via.endswith(".again") for m in w.marks[peek_from:] if m["args"][0] == "peek"
           for ent in m["raw_kw"].get("out") or [] for via in (ent.get("sees") or {})):
        w.probe("reimport_at_quiescent_point")
    # ---- reach: pyscript.reload(global_ctx=<module>) with files that import it, and a later reload of one importer
    named_done = None
    for rec in st["reloads"]:
        rop = rec["op"]
        if rop["mode"] != "ctx":
            continue
        if rop["target"] in ENTRY_POOL:
            if named_done is not None and rec["i0"] > named_done:
                w.probe("one_file_reloaded_after_named_module_reload")
            continue
        w.probe("reload_names_module")
        root = "pk" if rop["target"] == "ps" else rop["target"]
        if not any(x["iter"] < rec["i0"] for x in loads.get(root, [])):
            continue
        w.probe("reload_names_loaded_module")
        imps = [e["src"] for e in spec["edges"] if e["dst"] == root
                and any(x["iter"] < rec["i0"] for x in loads.get(e["src"], []))]
        if imps:
            w.probe("reload_names_module_with_importers")
            i1 = rec["i1"] if rec["i1"] is not None else w.loop.iterations
            if any(rec["i0"] <= x["iter"] <= i1 for f in imps for x in loads.get(f, [])):
                w.probe("importer_reloaded_with_named_module")
            named_done = i1 if named_done is None else min(named_done, i1)
    n_entries = sum(1 for f in files if f in ENTRY_POOL)
    t_end = w.marks[-1]["t"] if w.marks else 0.0
    if n_peek != n_entries:
        # the look_<file> services were called (blocking) and exist; a missing marker means the probe chain raised
        errs = [l["msg"].strip().split("\n")[-1][:160] for l in w.logs if l["level"] == "ERROR" and "boom" not in l["msg"]]
        viol("C11.call_chain_deviates", {"expected": "peek", "got": None},
             f"{n_entries - n_peek} of {n_entries} final probe chains (entry file -> peek() of every imported module) "
             f"did not complete; error log: {errs[-3:]}", t_end)
    # the instant a file's load *ended* (its imports were bound by then): a slow top level can span a reload
    load_iter = {x["kw"].get("tok"): x["iter"] for lst in loads.values() for x in lst}
    for tok_, idx_ in load_done.items():
        load_iter[tok_] = w.marks[idx_]["iter"]
    first_reload = min(reload_iters) if reload_iters else None
    for g, views in sorted(final_views.items()):
        if len(views) > 1:
            # who holds an instance other than the most recently loaded one: a file that was loaded before the first
            # reload was issued (it should have been re-loaded with the module) or one loaded while/after it ran
            holders = stale_holders.get(g, [])
            if first_reload is None or not holders:
                stale = "n/a"
            elif any(load_iter.get(h, 0) < first_reload for h in holders):
                stale = "importer_predates_reload"
            else:
                stale = "importer_loaded_during_or_after_reload"
            viol("C11.module_instances_differ",
                 {"when": "final", "racing": any(racing_load.get(k) for k in views), "reload_issued": any_reload,
                  "stale": stale},
                 f"at the final quiescent point the live files hold {len(views)} instances of module {g}: "
                 + "; ".join(f"token {tk}: {sorted(set(who))}" for tk, who in sorted(views.items())), t_end,
                 once=("final", g))

    violations.sort(key=lambda v: v.get("t", 0.0))
    nontrivial = overlap and cross_calls > 0
    extra = {"runs_seen": n_runs_seen, "cross_calls": cross_calls, "marks": len(w.marks),
             "loads": sum(len(v) for v in loads.values())}
    return violations, nontrivial, extra


def _count_plan_features(w: World, rn: dict, rid: int) -> None:
    """Reach probes for plan features that were actually executed as planned (sequence matched)."""
    if rid != rn["id"]:
        return
    plan = rn["plan"]
    prev = rn["entry"]
    for i, step in enumerate(plan):
        if step["via"] == "cb" and step["f"] != prev:
            w.probe("callback_into_upstream_file")
        if step["spawn"] and step["f"] != prev:
            w.probe("task_create_cross_file")
        if step.get("badfirst") and step["f"] != prev:
            w.probe("cross_file_call_failed_at_argument_binding")
        if step["raise"] and step["f"] != prev and not step["spawn"]:
            w.probe("callee_raised_through_context_switch")
        if step.get("comp"):
            w.probe("call_in_comprehension")
            if _raises(plan, i):
                w.probe("callee_raised_in_comprehension")
        if step["raise"] and step.get("rcls"):
            w.probe("callee_raised_in_class_body")
            if step["f"] == prev and not step["spawn"]:
                w.probe("callee_raised_in_class_body_same_file")
        if i + 1 < len(plan) and step["catch"] == "none" and not plan[i + 1]["spawn"] and _raises(plan, i + 1):
            w.probe("exception_through_unguarded_frame")
        prev = step["f"]


def _raises(plan: list, i: int) -> bool:
    """Does hop i of the plan end by raising (as seen by its caller)?"""
    me = plan[i]
    if i + 1 < len(plan) and not plan[i + 1]["spawn"] and me["catch"] != "catch" and _raises(plan, i + 1):
        return True
    return bool(me["raise"])
