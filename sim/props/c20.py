"""C20 - requirements resolution is order-independent and never overrides the host.

Workload: 1-4 ``requirements.txt`` files in the documented places (``pyscript/``, ``pyscript/apps/<app>/``,
``pyscript/modules/<m>/``, ``pyscript/scripts/<dir>/``) with lines for <= 4 fictitious packages (pinned,
unpinned, comments, trailing comments, blank, surrounding white space, ``>=``/``<=``/``>``/``<``/``~=``/``!=``
and comma forms, malformed lines, non-PEP-440 pins); a simulated installed-package table (package -> version,
installed by "the host" or by pyscript), a simulated package index (package -> latest), a config entry that may
carry a record (``_installed_packages``) left by an earlier session, ``allow_all_imports`` on/off; histories of
up to 5 consecutive runs of the REAL ``install_requirements`` (run 0 = integration set-up, then
``pyscript.reload`` / entry unload+setup / a direct call) with, in between, external installs / upgrades /
removals, index releases, edits of the requirement files and ``allow_all_imports`` toggles.  Inline comments are
free text (also with ``, < > ~ !``).  The host may install exactly the version that is pinned.  The installer may
fail (for everything = no network, or for some packages = no such version) from the start or from some point of
the history on and recover later; the history goes on after a run that failed for that reason.  The integration
is configured through configuration.yaml (config entry with source "import") or, in about a third of the
scenarios, through the UI (source "user"; yaml may then still carry free-form keys and - ignored - the three
settings).  In 3 of 10 histories the operations prefer the next step in the ownership history of a package (pyscript
installs it - the host changes it - a run sees that - the host happens to install the version pyscript had
installed - the user pins another version).  About one run in five is an OVERLAP GROUP instead: two or three
``pyscript.reload`` / direct calls issued while the earlier ones may still be suspended - in the glob job (executor
latency of the group) or in the installer (a session that has something to install takes a seeded virtual time
before and after the packages appear) - with edits of the requirement files before and between them; per group the
installer runs one session at a time (Home Assistant's pip lock) or the sessions run side by side.  Between runs
the configuration changes through the entry point that belongs to it: the REAL options
dialog (``PyscriptOptionsConfigFlow``: ``allow_all_imports``, ``hass_is_global``, ``legacy_decorators`` flipped, or
the dialog confirmed without a change; for a yaml entry the dialog only says that there is no UI configuration),
the three settings in yaml, and a free-form yaml key that comes and goes (both re-read by the REAL import flow at
the next reload / restart).  All of these rewrite the data of the config entry that also holds the record.

Seams owned by the simulator (``unittest.mock.patch`` on the names as imported in
``custom_components.pyscript.requirements``): ``glob`` (seeded permutation of every directory listing, new
permutation each run), ``installed_version`` (answers from the simulated table like importlib.metadata does),
``async_process_requirements`` (the installer: records the call, updates the table as pip would, raises
``RequirementsNotFound`` for the requirements whose installation is made to fail), plus two
passive probes (``process_all_requirements`` result, begin/end of ``install_requirements``).

Oracle: a reference resolver written from the property text and docs/reference.rst (highest ``==`` pin by
packaging.version, unpinned only without a pin, comments / blank / unsupported specifiers ignored) and the
stated installer rules; the record is compared with what the simulated installer really did after every run,
whether installations failed or not and whether the run raised or not; the record is also looked at after every
options dialog, at the start of every run (after the configuration was re-read) and at the end of the history: it
may only change inside a run of ``install_requirements`` (nothing is installed outside one).  Order independence is checked twice: (1) the whole history is executed in two
worlds that differ only in which file holds which content, the order of lines within the files and the
listing permutations - resolved table, installer calls and record must be identical after every run;
(2) in world A the real ``process_all_requirements`` is swept over all (small sets) or a seeded sample of
file/line orderings of the same multiset.  Runs that really overlapped (one began while another was in progress)
had neither the installed packages nor the record for themselves: for them only what each resolved, whether it
was allowed to install and what it asked the installer for are judged per run; ownership and the record are
judged for the whole cluster at the quiescent point after its last run has ended (conservation: every package the
installer installed for pyscript is in the record with the installed version, nothing else is claimed, nothing the
host owned was changed) - nothing but pyscript touches the packages in between.
"""

from __future__ import annotations

import asyncio
import contextvars
import copy
import functools
import glob as _real_glob
import itertools
import json
import hashlib
import os
import random
import re
from importlib.metadata import PackageNotFoundError
from unittest.mock import patch

from packaging.requirements import InvalidRequirement, Requirement
from packaging.utils import canonicalize_version
from packaging.version import InvalidVersion, Version

from ..common import base_result, gen_cfg
from ..world import HarnessError, World

PROPERTY = "C20"
LEVEL = "exploration"
RULE = (
    "seeded generation of (1-4 requirements.txt files x 1-4/6 lines over <=4 packages incl. comments, blanks, "
    "unsupported specifiers, malformed and non-PEP-440 lines; installed-package table, index, prior record, "
    "allow_all_imports; history of <=4 further runs via reload / unload+setup / direct call with external "
    "installs (host versions or the very version that is pinned), removals, index releases, file edits, allow "
    "toggles; in 3 of 10 scenarios the installer fails from the start or from some point on - for every package "
    "or, in half of those, for a subset - and recovers again; in 32 % of the scenarios the config entry is a UI "
    "entry (source user, with or without the three settings also in yaml) and allow_all_imports / hass_is_global "
    "/ legacy_decorators are changed through the real options dialog, else through yaml + import flow; a "
    "free-form yaml key is added / changed / removed; the options dialog is opened and confirmed unchanged); "
    "15 % of the host installs ask for the version pyscript installed last (carried out if a completed run has seen "
    "the package at another version since); in 30 % of the histories ('steer') 70 % of the operations are the next "
    "step of a package's ownership history (own -> changed by the host -> seen by a run -> host installs the version "
    "pyscript had installed -> another version is pinned) and there are 2-4 further runs; 20 % of the runs are "
    "overlap groups: 2-3 reload / direct calls started 0-2.5 s apart, installer sessions that take 0-1.5 s before and "
    "0-1.5 s after the packages appear, executor latency of the group 0 / <=30 / 50-400 / 200-1500 ms, file edits "
    "before (50 %) and between (65 %) the calls, installer sessions serialised (60 %) or side by side; "
    "every scenario is executed in two worlds "
    "with different file/line/listing orders and, in world A, the resolver is swept over all (<=24/48) or a sample "
    "of orderings of the same multiset; distinct = scenario digest; non-trivial = an allowed run with >=1 "
    "resolved package and (>=2 files or a package with >=2 competing supported entries)"
)
ASSUMPTIONS = [
    "the installer (homeassistant.requirements.async_process_requirements -> pip) is simulated: 'pkg==X' installs "
    "exactly X unless X is already installed, 'pkg' installs the index's latest unless something is installed, "
    "other PEP 508 specifiers install the index's latest unless satisfied; strings pip cannot parse are recorded "
    "and otherwise ignored",
    "installer failures are injected (no network = every installation fails; no such version / build error = the "
    "installations of some packages fail) the way homeassistant.requirements behaves: requirements that are "
    "already satisfied never fail, every other requirement is installed on its own, the ones that fail change "
    "nothing, and RequirementsNotFound is raised at the end if any failed; Home Assistant's per-session memory of "
    "failed / satisfied requirement strings is not simulated (every run asks pip again)",
    "whether install_requirements passes the installer's RequirementsNotFound on (set-up / reload fails) or goes "
    "on is don't-care; the record clause ('always matches what it installed') is judged after such a run like "
    "after any other: nothing that was not installed may be claimed, nothing that was installed may be missing; "
    "'must be passed to the installer' / 'must be updated' are only judged for runs that do not raise",
    "after a set-up that failed because of the installer the config entry is not loaded: a following "
    "pyscript.reload in the history is carried out as entry unload+setup (what a user has to do then)",
    "importlib.metadata.version is simulated from the package table: unknown name -> PackageNotFoundError, "
    "empty name -> ValueError (as the real function does)",
    "external (host) installs use versions that pyscript never pins or installs (disjoint version pools) or the "
    "version that is pinned at that moment provided it is not the version pyscript installed last (or holds as a "
    "prior record), so 'installed by something other than pyscript' is observable through installed version vs. "
    "a truthful record; an external re-install of the very version pyscript installed is indistinguishable for "
    "any implementation and is not generated",
    "the host may also install the very version pyscript installed last, but only after a run of "
    "install_requirements that was allowed to install, did not raise, did not overlap with another run and had the "
    "package among its requirements has completed while the host's other version was installed: from then on "
    "pyscript had the opportunity to notice that the package is not its own any more, and 'a package already "
    "installed by something other than pyscript is never reinstalled or changed' applies whatever version the host "
    "installs later (the stale record entry itself stays don't-care, see below)",
    "overlapping runs of install_requirements (a pyscript.reload or a direct call while an earlier one is suspended "
    "in the glob job or in the installer; Home Assistant does not serialise service calls) are judged as a whole at "
    "the quiescent point after the last of them has ended: no external change and no configuration change happens "
    "inside an overlap group, only edits of the requirement files; which of the overlapping runs installs what, "
    "whether a run re-installs / updates / leaves alone a package that another run is installing, and the final "
    "installed versions are don't-care; the record clause and 'nothing the host owns is changed' are not",
    "in an overlap group an installer session that has something to install takes the virtual time the scenario "
    "gives (the packages appear after 'pre', the call returns after 'post'); a call with nothing to install "
    "returns at once; with 'serial' the sessions queue behind one lock and re-check what is missing when they get "
    "it (homeassistant.requirements.RequirementsManager.pip_lock), without it they run side by side and the "
    "session that installs last wins",
    "the prior record seeded into the config entry is always a state pyscript could have left: version == installed "
    "version for packages it still owns, or a stale version for packages changed/removed externally since",
    "a stale record entry for a package that was changed or removed externally is don't-care (pyscript is only "
    "required never to claim a version it did not install and never to drop a package it still owns)",
    "'updated only when the pinned version differs' is read as if-and-only-if for packages pyscript owns "
    "(tests/test_requirements.py upgrade/downgrade cases agree); versions equal as packaging.version but spelt "
    "differently (1.0 / 1.0.0) are don't-care for re-installation and either spelling is accepted as the highest pin",
    "whether an unpinned requirement for a package pyscript already installed is passed to the installer again is "
    "don't-care",
    "a missing package that is required (and allow_all_imports set) must be passed to the installer "
    "(docs: 'Pyscript can install required Python packages if they are missing')",
    "what 'highest' means for a '==' pin that is not a PEP 440 version (pkg==abc, pkg==) is open: for such a package "
    "the selected version, installer calls and record are don't-care; order independence is still required; a run that raises "
    "because of such a pin is don't-care",
    "malformed lines (==1.0, pkg=1.0, 'pkg 1.0', pkg==1==2, -r file) are don't-care for themselves (ignored or "
    "handed literally to the installer) but must not change the result for well-formed lines",
    "comments start with '#' at the beginning of a line or after white space (pip's rule); '#' glued to a "
    "requirement, white space around '==', extras, markers, URLs, name normalisation (case, -/_) are not generated",
    "unsupported specifiers are >=, <=, >, <, ~=, != and comma lists (docs: only 'pkg' and 'pkg==version' are "
    "supported); the property says they are ignored",
    "allow_all_imports is taken from the config entry's data at the start of each run (yaml -> entry propagation is "
    "not judged here); for an entry configured through the UI the setting is, in addition, the one chosen in the "
    "UI / options dialog, whatever configuration.yaml says (docs: 'if you used the UI flow to configure pyscript, "
    "the allow_all_imports, hass_is_global and legacy_decorators configuration settings will be ignored in the "
    "yaml file'): an installation while that setting is off is reported",
    "a UI entry exists before set-up with exactly the three settings (plus the record of an earlier session); the "
    "options dialog is driven as a user does: every field is submitted as the dialog shows it except the one "
    "that is flipped; a change in the options dialog is in the entry at once and used by the next run of any kind",
    "outside a run of install_requirements pyscript installs nothing, so a record that matched what pyscript "
    "installed must be unchanged by an options dialog, a yaml import or anything else between two runs; only "
    "entries for packages pyscript owns (record == installed version) and versions that appear from nowhere are "
    "judged, stale entries stay don't-care",
    "moving the whole content of one requirements.txt to the place of another is a change of file order "
    "(the visit order of roots '', apps/*, modules/*, scripts/* is fixed in the code, the listing order inside a "
    "root is permuted at the glob seam)",
]
TIERS = {
    "quick": {"runs": 6000, "chunk": 200, "max_lines": 4, "sweep_all": 24, "sweep_sample": 8},
    "thorough": {"runs": 160000, "chunk": 2500, "max_lines": 6, "sweep_all": 48, "sweep_sample": 12,
                 "chunk_timeout": 900},
}
REACH_PROBES = [
    "same_pkg_in_two_files", "listing_order_changed_visit_order", "foreign_package_present",
    "pin_changed_between_runs", "unpinned_only", "pin_and_unpinned_same_pkg", "own_package_pin_differs",
    "own_package_pin_same", "own_package_unpinned", "external_upgrade_of_own", "external_removal_of_own",
    "allow_false_with_requirements", "allow_false_own_package_pin_differs", "allow_toggled",
    "allow_changed_during_run",
    "unsupported_specifier_line", "nonpep440_pin",
    "malformed_line", "comment_hides_higher_pin", "equal_versions_different_spelling",
    "numeric_vs_lexical_order", "prerelease_or_post_pin", "unpinned_installed_from_index",
    "entry_unload_setup", "direct_call", "reload_run", "sweep_exhaustive", "sweep_sampled",
    "prior_record_seeded", "stale_record_seeded", "worlds_visit_order_differs", "missing_package_installed",
    "file_deleted_between_runs", "no_requirements_at_all", "inline_comment_with_specifier_chars",
    "installer_failed", "installer_failed_partially", "install_failed_for_missing_pin",
    "install_failed_for_missing_unpinned", "install_failed_for_own_update", "run_raised_on_failed_install",
    "run_after_failed_install", "restart_after_failed_setup", "host_installs_pinned_version",
    "ui_configured_entry", "ui_entry_with_settings_in_yaml", "options_dialog_changed_setting",
    "options_dialog_without_change", "option_changed_with_nonempty_record", "options_dialog_refused_for_yaml_entry",
    "other_setting_changed", "yaml_extra_key_changed", "run_after_config_change",
    "host_restores_version_pyscript_installed", "foreign_package_at_version_pyscript_installed",
    "foreign_package_at_version_pyscript_installed_pin_differs",
    "overlap_group", "overlap_installer_serialised", "overlap_installer_concurrent", "overlap_runs_really_overlapped",
    "overlap_run_began_during_another", "overlap_run_began_while_installer_busy",
    "overlap_run_began_during_executor_job", "overlap_files_edited_during_a_run", "overlap_installer_session_waited",
    "overlap_two_installer_sessions_at_once", "overlap_cluster_changed_record", "overlap_cluster_installed_package",
]
SHRINK_LISTS = [["ops"], ["spec", "files"], ["spec", "files", "*", "lines"], ["ops", "*", "runs"]]

UNPINNED = "_unpinned_version"
CONF_INSTALLED = "_installed_packages"
CONF_ALLOW = "allow_all_imports"

PKGS = ["alpha", "bravo", "charlie", "delta"]
PIN_POOL = ["1.0", "1.0.0", "1.2", "1.2.3", "1.9", "1.10", "2.0", "2.0rc1", "2.0.post1"]
HOST_POOL = ["0.5", "0.8.2", "4.0", "4.1.1"]  # disjoint from PIN_POOL and INDEX_POOL
INDEX_POOL = ["3.0", "3.1", "3.5"]
NONPEP = ["abc", "latest", ""]
COMMENT_NOTES = [  # inline comment texts with characters that mean something in a requirement specifier
    "needs >=2.0, see changelog", "any version > 1 is fine", "ok!", "~ same as prod", "pinned, do not touch",
    "was PKG<9.9", "PKG!=9.9 is broken", "a, b and c need it", "-> see README", "PKG~=9.9 would do as well",
]
PIP_MODES = ("ok", "offline", "pkgs")
CONF_BOOLS = (CONF_ALLOW, "hass_is_global", "legacy_decorators")  # the three settings of the options dialog
CFG_KEY = {CONF_ALLOW: CONF_ALLOW, "hass_is_global": "hass_is_global", "legacy_decorators": "legacy"}
CONFIG_WHATS = ("hass_is_global", "legacy_decorators", "extra", "dialog")
EXTRA_KEY = "c20_note"  # a free-form yaml setting (docs: additional user-defined yaml configuration settings)
PATH_POOL = [
    "pyscript/requirements.txt",
    "pyscript/apps/app1/requirements.txt",
    "pyscript/apps/app2/requirements.txt",
    "pyscript/modules/mod1/requirements.txt",
    "pyscript/modules/mod2/requirements.txt",
    "pyscript/scripts/dir1/requirements.txt",
    "pyscript/scripts/dir2/requirements.txt",
]
MAX_RUN_OPS = 4

# the run of install_requirements the current task is in (runs may overlap: one record per run, found through the
# task's context: the glob job runs inline in the calling task, the installer is awaited by it)
_CUR = contextvars.ContextVar("c20_cur_run", default=None)
# how the driver issued the call the current task is carrying out (only set for the runs of an overlap group)
_CALL = contextvars.ContextVar("c20_call", default=None)


# ====================================================================== reference semantics
_NAME = r"[A-Za-z0-9](?:[A-Za-z0-9._-]*[A-Za-z0-9])?"
_RE_UNPINNED = re.compile(rf"^({_NAME})$")
_RE_PIN = re.compile(rf"^({_NAME})==([^=,<>!~\s;]*)$")
_RE_UNSUP = re.compile(rf"^({_NAME})\s*(>=|<=|~=|!=|===|>|<)\s*\S")
_RE_LIST = re.compile(rf"^({_NAME})\s*(==|>=|<=|~=|!=|>|<)[^,]*,")
_RE_COMMENT = re.compile(r"(^|\s)#")


def _valid_version(text: str) -> bool:
    try:
        Version(text)
        return True
    except InvalidVersion:
        return False


def classify(raw: str) -> dict:
    """What one requirements.txt line means according to the property text and the docs."""
    text = raw
    had_comment = False
    m = _RE_COMMENT.search(text)
    if m:
        text = text[: m.start()]
        had_comment = True
    text = text.strip()
    if not text:
        return {"kind": "comment" if had_comment else "blank", "text": text}
    m = _RE_LIST.match(text)
    if m:
        return {"kind": "unsupported", "form": ",", "name": m.group(1), "text": text}
    m = _RE_UNSUP.match(text)
    if m:
        return {"kind": "unsupported", "form": m.group(2), "name": m.group(1), "text": text}
    m = _RE_UNPINNED.match(text)
    if m:
        return {"kind": "unpinned", "name": m.group(1), "text": text}
    m = _RE_PIN.match(text)
    if m:
        if _valid_version(m.group(2)):
            return {"kind": "pin", "name": m.group(1), "version": m.group(2), "text": text}
        return {"kind": "nonpep440", "name": m.group(1), "version": m.group(2), "text": text}
    return {"kind": "malformed", "text": text}


def resolve(all_lines: list[str]) -> dict:
    """Reference resolver: multiset of lines -> expected selection (independent of any order)."""
    pins: dict[str, list[str]] = {}
    unpinned: set[str] = set()
    open_pkgs: set[str] = set()
    kinds: dict[str, set[str]] = {}
    claims: dict[str, dict] = {}  # text a non-supported line could turn into -> its classification
    for raw in all_lines:
        cls = classify(raw)
        kind = cls["kind"]
        if kind == "pin":
            pins.setdefault(cls["name"], []).append(cls["version"])
            kinds.setdefault(cls["name"], set()).add("pin")
        elif kind == "unpinned":
            unpinned.add(cls["name"])
            kinds.setdefault(cls["name"], set()).add("unpinned")
        elif kind == "nonpep440":
            open_pkgs.add(cls["name"])
            kinds.setdefault(cls["name"], set()).add("nonpep440")
        elif kind in ("unsupported", "malformed"):
            for key in {cls["text"], cls["text"].split("==")[0], cls["text"].split("==")[0].strip()}:
                claims.setdefault(key, cls)
    sel: dict[str, dict] = {}
    for name in sorted(set(pins) | unpinned):
        if name in pins:
            best = max(Version(v) for v in pins[name])
            spell = sorted({v for v in pins[name] if Version(v) == best})
            sel[name] = {"v": spell[0], "alts": spell, "pinned": True, "n_pins": len(pins[name]),
                         "n_distinct": len({Version(v) for v in pins[name]}), "pins": list(pins[name]),
                         "unpinned_too": name in unpinned}
        else:
            sel[name] = {"v": UNPINNED, "alts": [UNPINNED], "pinned": False, "n_pins": 0, "n_distinct": 0,
                         "pins": [], "unpinned_too": True}
    return {"sel": sel, "open": open_pkgs, "kinds": kinds, "claims": claims}


def same_version(a: str | None, b: str | None) -> bool:
    if a is None or b is None:
        return a is b
    if a == b:
        return True
    try:
        return Version(a) == Version(b)
    except InvalidVersion:
        return False


def canon_v(ver):
    """Version spelling does not matter (1.0 == 1.0.0); non-PEP-440 strings stay as they are."""
    if ver is None or ver == UNPINNED:
        return ver
    try:
        return "v:" + canonicalize_version(str(Version(ver)), strip_trailing_zero=True)
    except InvalidVersion:
        return "raw:" + ver


def canon_table(table: dict | None) -> dict | None:
    return None if table is None else {k: canon_v(v) for k, v in sorted(table.items())}


def canon_req(req: str) -> str:
    name, ver = (req.split("==", 1) + [None])[:2] if "==" in req else (req, None)
    return name if ver is None else f"{name}=={canon_v(ver)}"


def form_of(ref: dict, name: str) -> str:
    """Small signature of the competing entries for a package."""
    base = name.split("==")[0].strip()
    kinds = ref["kinds"].get(base) or ref["kinds"].get(name) or set()
    order = [k for k in ("pin", "unpinned", "nonpep440") if k in kinds]
    if not order:
        cls = ref["claims"].get(name)
        if cls is not None:
            return cls["kind"] + (":" + cls["form"] if cls.get("form") else "")
        return "none"
    if "nonpep440" in order:
        return f"{order[0]}_vs_nonpep440"
    if len(order) == 1:
        return f"{order[0]}_vs_{order[0]}"
    return "_vs_".join(order)


# ====================================================================== generation
def _gen_line(rng: random.Random, pkgs: list[str], exotic: bool) -> str:
    pkg = rng.choice(pkgs)
    ver = rng.choice(PIN_POOL)
    roll = rng.random()
    if exotic and roll < 0.22:
        sub = rng.random()
        if sub < 0.30:
            return f"{pkg}{rng.choice(['~=', '!='])}{ver}"
        if sub < 0.70:
            return f"{pkg}=={rng.choice(NONPEP)}"
        return rng.choice([f"=={ver}", f"{pkg}=1.0", f"{pkg} 1.0", "-r extra.txt"])
    roll = rng.random()
    if roll < 0.42:
        return f"{pkg}=={ver}"
    if roll < 0.58:
        return pkg
    if roll < 0.65:
        return rng.choice(["# a comment", f"# {pkg}==9.9", f"#{pkg}==9.9", f"   # {pkg}",
                           f"# {pkg}>=9.9, <10 (not yet!)", f"  # ~ {pkg} != 9.9"])
    if roll < 0.72:
        if rng.random() < 0.5:
            # comment text is free text: it may well contain the characters of version specifiers
            note = rng.choice(COMMENT_NOTES).replace("PKG", pkg)
            return rng.choice([f"{pkg}=={ver}  # {note}", f"{pkg} # {note}", f"{pkg}=={ver}\t#{note}"])
        return rng.choice([f"{pkg}=={ver} # needs {pkg}==9.9", f"{pkg}  # any version", f"{pkg}=={ver}\t# pinned"])
    if roll < 0.77:
        return rng.choice(["", "   ", "\t"])
    if roll < 0.83:
        return rng.choice([f"  {pkg}=={ver}  ", f"\t{pkg}", f"{pkg}=={ver} "])
    if roll < 0.95:
        op = rng.choice([">=", "<=", ">", "<"])
        return rng.choice([f"{pkg}{op}{ver}", f"{pkg}{op}9.9", f"{pkg}>={ver},<9", f"{pkg}==9.9,<10"])
    return f"{pkg}==1.0==2.0"


def _gen_lines(rng: random.Random, pkgs: list[str], exotic: bool, max_lines: int) -> list[str]:
    n = rng.choice([1, 2, 2, 3, 3, 4] if max_lines <= 4 else [1, 2, 3, 3, 4, 5, 6])
    return [_gen_line(rng, pkgs, exotic) for _ in range(n)]


def _gen_paths(rng: random.Random, n: int) -> list[str]:
    paths: list[str] = []
    if rng.random() < 0.6:
        paths.append(PATH_POOL[0])
    pairs = [[PATH_POOL[1], PATH_POOL[2]], [PATH_POOL[3], PATH_POOL[4]], [PATH_POOL[5], PATH_POOL[6]]]
    rng.shuffle(pairs)
    for pair in pairs:
        if len(paths) >= n:
            break
        if rng.random() < 0.6 and len(paths) + 2 <= n:
            paths.extend(pair)
        else:
            paths.append(rng.choice(pair))
    rest = [p for p in PATH_POOL if p not in paths]
    while len(paths) < n and rest:
        paths.append(rest.pop(rng.randrange(len(rest))))
    return paths[:n]


def _gen_pip(rng: random.Random, pkgs: list[str], partial: bool) -> dict:
    """State of the installer from now on: works / fails for everything / fails for some packages."""
    roll = rng.random()
    if roll < 0.30:
        return {"mode": "ok"}
    if roll < 0.65 or not partial:
        return {"mode": "offline"}
    return {"mode": "pkgs", "pkgs": sorted(rng.sample(pkgs, rng.randint(1, max(1, len(pkgs) - 1))))}


def _gen_edit(rng: random.Random, model: dict, pkgs: list[str], exotic: bool, max_lines: int) -> dict:
    """An edit of the requirement files (the fields of a write / delete op); keeps ``model`` up to date."""
    if rng.random() < 0.2 and len(model) > 0:
        path = rng.choice(sorted(model))
        del model[path]
        return {"kind": "delete", "path": path}
    sub = rng.random()
    sup_lines = [(pth, i) for pth in sorted(model) for i, ln in enumerate(model[pth])
                 if classify(ln)["kind"] in ("pin", "unpinned")]
    if sub < 0.5 and sup_lines:
        # another version is pinned / an unpinned requirement gets a pin
        pth, i = rng.choice(sup_lines)
        cls = classify(model[pth][i])
        lines = list(model[pth])
        lines[i] = f"{cls['name']}=={rng.choice([v for v in PIN_POOL if v != cls.get('version')])}"
    elif sub < 0.8 and model:
        pth = rng.choice(sorted(model))
        lines = _gen_lines(rng, pkgs, exotic, max_lines)
    else:
        free = [p for p in PATH_POOL if p not in model]
        pth = rng.choice(free) if free and len(model) < 4 else rng.choice(sorted(model) or PATH_POOL)
        lines = _gen_lines(rng, pkgs, exotic, max_lines)
    model[pth] = list(lines)
    return {"kind": "write", "path": pth, "lines": lines}


class _Pred:
    """What a run of install_requirements that follows the property would leave behind, tracked while a history is
    generated.  Only used to aim operations at packages in a state in which they mean something (a package pyscript
    owns, a package the host took over, ...); nothing is judged with it and every aimed operation re-checks its
    precondition against the simulated world when it is carried out."""

    def __init__(self, table: dict, record: dict, index: dict, allow: bool) -> None:
        self.table = {p: list(v) for p, v in table.items()}
        self.last_py = dict(record)
        self.index = dict(index)
        self.allow = allow
        self.seen_foreign: set = set()

    def own(self) -> list[str]:
        return sorted(p for p, v in self.table.items() if v[1] == "pyscript")

    def run(self, model: dict) -> None:
        if not self.allow:
            return
        ref = resolve([ln for p in sorted(model) for ln in model[p]])
        for name in sorted(set(ref["sel"]) - ref["open"]):
            exp = ref["sel"][name]
            have = self.table.get(name)
            if name not in self.index:
                continue
            if have is None or (have[1] == "pyscript" and exp["pinned"] and not same_version(have[0], exp["v"])):
                ver = exp["v"] if exp["pinned"] else self.index[name]
                self.table[name] = [ver, "pyscript"]
                self.last_py[name] = ver
                self.seen_foreign.discard(name)
            elif have[1] == "host" and name in self.last_py and not same_version(have[0], self.last_py[name]):
                self.seen_foreign.add(name)

    def apply(self, op: dict) -> None:
        kind = op["kind"]
        if kind == "ext_install":
            pkg = op["pkg"]
            ver = op["v"]
            have = self.table.get(pkg)
            if op.get("restore") and pkg in self.seen_foreign and (have is None or have[1] == "host"):
                ver = self.last_py[pkg]
            self.table[pkg] = [ver, "host"]
        elif kind == "ext_remove":
            self.table.pop(op["pkg"], None)
        elif kind == "index":
            self.index[op["pkg"]] = op["v"]
        elif kind == "allow":
            self.allow = bool(op["v"])


def _gen_story_op(rng: random.Random, pred: _Pred, model: dict, pkgs: list[str]) -> dict | None:
    """The next step in the ownership history of a package: the host changes a package pyscript installed; once a
    run has seen that, the host happens to install the version pyscript had installed; then the user pins another
    version of it."""
    ref = resolve([ln for p in sorted(model) for ln in model[p]])
    cands: list[tuple[int, dict]] = []
    for pkg in pkgs:
        have = pred.table.get(pkg)
        last = pred.last_py.get(pkg)
        if pkg in pred.seen_foreign and last is not None and (have is None or have[1] == "host"):
            if have is not None and same_version(have[0], last):
                exp = ref["sel"].get(pkg)
                if exp is not None and exp["pinned"] and not same_version(exp["v"], last):
                    continue  # the next run meets the situation
                vers = [v for v in PIN_POOL if not same_version(v, last)]
                spots = [(pth, i) for pth in sorted(model) for i, ln in enumerate(model[pth])
                         if classify(ln).get("name") == pkg and classify(ln)["kind"] in ("pin", "unpinned")]
                if spots:
                    pth, i = spots[0]
                    lines = list(model[pth])
                    lines[i] = f"{pkg}=={rng.choice(vers)}"
                else:
                    pth = sorted(model)[0] if model else PATH_POOL[0]
                    lines = list(model.get(pth, [])) + [f"{pkg}=={rng.choice(vers)}"]
                cands.append((6, {"kind": "write", "path": pth, "lines": lines}))
            else:
                cands.append((4, {"kind": "ext_install", "pkg": pkg, "v": rng.choice(HOST_POOL), "pin": False,
                                  "restore": True}))
        elif have is not None and have[1] == "pyscript":
            cands.append((2, {"kind": "ext_install", "pkg": pkg, "v": rng.choice(HOST_POOL), "pin": False}))
    if not cands:
        return None
    total = sum(wgt for wgt, _ in cands)
    roll = rng.random() * total
    for wgt, op in cands:
        roll -= wgt
        if roll < 0:
            return op
    return cands[-1][1]


def _gen_overlap(rng: random.Random, model: dict, pkgs: list[str], exotic: bool, max_lines: int) -> dict:
    """Two or three runs of install_requirements that are issued while the earlier ones may still be suspended in
    the glob job or in the installer, with edits of the requirement files in between."""
    runs = []
    for i in range(rng.choice([2, 2, 2, 3])):
        run = {"how": rng.choice(["reload", "reload", "direct"]),
               "after": 0.0 if i == 0 else rng.choice([0.0, 0.05, 0.25, 0.5, 1.0, 2.5]),
               "pre": rng.choice([0.0, 0.25, 0.75, 1.5]), "post": rng.choice([0.0, 0.25, 0.75, 1.5]),
               "edits": []}
        if rng.random() < (0.65 if i > 0 else 0.5):
            for _ in range(rng.choice([1, 1, 2])):
                run["edits"].append(_gen_edit(rng, model, pkgs, exotic, max_lines))
        runs.append(run)
    return {"kind": "overlap", "serial": rng.random() < 0.6,
            "exec_ms": rng.choice([[0.0, 0.0], [0.0, 30.0], [50.0, 400.0], [200.0, 1500.0]]), "runs": runs}


def gen(rng: random.Random, tier: str) -> dict:
    conf = TIERS[tier]
    cfg = gen_cfg(rng, legacy=False)
    cfg["timer_late_ms"] = 0.0
    cfg["drift"] = 0.0
    cfg["fire_started"] = rng.random() < 0.8
    cfg[CONF_ALLOW] = rng.random() < 0.78
    pkgs = PKGS[: rng.choice([1, 2, 2, 3, 3, 4])]
    exotic = rng.random() < 0.4
    n_files = rng.choice([1, 2, 2, 2, 3, 3, 4])
    files = [{"path": p, "lines": _gen_lines(rng, pkgs, exotic, conf["max_lines"])} for p in _gen_paths(rng, n_files)]
    if rng.random() < 0.03:
        files = []
    prior = rng.random() < 0.6
    index = {p: rng.choice(INDEX_POOL) for p in pkgs}
    table: dict[str, list] = {}
    record: dict[str, str] = {}
    for p in pkgs:
        roll = rng.random()
        if roll < 0.40:
            pass
        elif roll < 0.65 or not prior:
            table[p] = [rng.choice(HOST_POOL), "host"]
        else:
            ver = rng.choice(PIN_POOL + INDEX_POOL)
            table[p] = [ver, "pyscript"]
            record[p] = ver
        if prior and p not in record and rng.random() < 0.3:
            record[p] = rng.choice(PIN_POOL + INDEX_POOL)  # stale: changed or removed externally since
    model = {f["path"]: list(f["lines"]) for f in files}
    # the installer can fail (no network, no such version, build error) in 3 of 10 scenarios; in half of those
    # only as a whole ("steer" coin: keeps runs that are not affected by what a partial failure does)
    pip_faults = rng.random() < 0.30
    pip_partial = rng.random() < 0.5
    pip0 = _gen_pip(rng, pkgs, pip_partial) if pip_faults and rng.random() < 0.6 else {"mode": "ok"}
    # how pyscript is configured: through configuration.yaml (config entry with source "import") or through the UI
    # (source "user": the three settings live in the config entry only and are changed in the options dialog;
    # yaml may still carry free-form settings and - ignored, says the documentation - the three settings)
    ui = rng.random() < 0.32
    yaml_bools = None
    if ui and rng.random() < 0.4:
        yaml_bools = {name: rng.random() < 0.5 for name in CONF_BOOLS}
    cfg["hass_is_global"] = rng.random() < 0.3
    p_config = 0.24 if ui else 0.10
    # "steer" coin: in 3 of 10 histories the operations prefer the next step in the ownership history of a package
    # (pyscript installs it - the host changes it - a run sees that - the host happens to install the version
    # pyscript had installed - the user pins another version), which random choices alone hardly ever complete
    steer = rng.random() < 0.30
    pred = _Pred(table, record if prior else {}, index, cfg[CONF_ALLOW])
    pred.run(model)  # run 0 = set-up
    ops: list[dict] = []
    for _ in range(rng.choice([2, 3, 3, 4]) if steer else rng.choice([0, 1, 2, 2, 3, 4])):
        for _ in range(rng.choice([1, 2, 2, 3]) if steer else rng.choice([0, 1, 1, 2, 3])):
            op: dict = {"dt": 0.25 * rng.randint(1, 8)}
            if pip_faults and rng.random() < 0.3:
                op.update({"kind": "pip"})
                op.update(_gen_pip(rng, pkgs, pip_partial))
                ops.append(op)
                continue
            if rng.random() < p_config:
                # a change of the configuration between two runs: one of the other settings (options dialog for a
                # UI entry, yaml for a yaml entry), a free-form yaml key, or the options dialog opened and confirmed
                what = rng.choice(["hass_is_global", "hass_is_global", "legacy_decorators", "extra", "dialog"])
                op.update({"kind": "config", "what": what,
                           "v": rng.randrange(3) if what == "extra" else int(rng.random() < 0.6)})
                ops.append(op)
                continue
            if steer and rng.random() < 0.7:
                story = _gen_story_op(rng, pred, model, pkgs)
                if story is not None:
                    op.update(story)
                    if story["kind"] == "write":
                        model[story["path"]] = list(story["lines"])
                    pred.apply(op)
                    ops.append(op)
                    continue
            roll = rng.random()
            if roll < 0.22:
                # "pin": the host installs the very version the files pin at that moment, if pyscript did not
                # install that version itself (else, and without a pin: "v"); "restore": the host installs the
                # version pyscript installed last, if a completed run has seen another version since (else: "v")
                op.update({"kind": "ext_install", "pkg": rng.choice(pkgs), "v": rng.choice(HOST_POOL),
                           "pin": rng.random() < 0.3})
                if rng.random() < 0.15:
                    op["restore"] = True
            elif roll < 0.36:
                op.update({"kind": "ext_remove", "pkg": rng.choice(pkgs)})
            elif roll < 0.46:
                op.update({"kind": "index", "pkg": rng.choice(pkgs), "v": rng.choice(INDEX_POOL)})
            elif roll < 0.58:
                op.update({"kind": "allow", "v": rng.random() < 0.6})
            elif roll < 0.66 and len(model) > 0:
                path = rng.choice(sorted(model))
                del model[path]
                op.update({"kind": "delete", "path": path})
            else:
                sub = rng.random()
                pin_lines = [(pth, i) for pth in sorted(model) for i, ln in enumerate(model[pth])
                             if classify(ln)["kind"] in ("pin", "unpinned" if sub < 0.12 else "pin")]
                if sub < 0.5 and pin_lines:
                    # another version is pinned (sub < 0.12: or an unpinned requirement gets a pin)
                    pth, i = rng.choice(pin_lines)
                    cls = classify(model[pth][i])
                    lines = list(model[pth])
                    lines[i] = f"{cls['name']}=={rng.choice([v for v in PIN_POOL if v != cls.get('version')])}"
                elif sub < 0.8 and model:
                    pth = rng.choice(sorted(model))
                    lines = _gen_lines(rng, pkgs, exotic, conf["max_lines"])
                else:
                    free = [p for p in PATH_POOL if p not in model]
                    pth = rng.choice(free) if free and len(model) < 4 else rng.choice(sorted(model) or PATH_POOL)
                    lines = _gen_lines(rng, pkgs, exotic, conf["max_lines"])
                model[pth] = list(lines)
                op.update({"kind": "write", "path": pth, "lines": lines})
            pred.apply(op)
            ops.append(op)
        if rng.random() < 0.2:
            # overlapping runs instead of a single one
            ops.append({"dt": 0.25 * rng.randint(1, 8), **_gen_overlap(rng, model, pkgs, exotic, conf["max_lines"])})
        else:
            ops.append({"dt": 0.25 * rng.randint(1, 8), "kind": "run",
                        "how": rng.choice(["reload", "reload", "reload", "restart", "restart", "direct"])})
        pred.run(model)
    spec = {
        "tier": tier, "pkgs": pkgs, "files": files, "table": table, "index": index, "record": record, "prior_entry": prior,
        "record_key_present": rng.random() < 0.5, "eol": rng.random() < 0.8, "exotic": exotic,
        "listing_seed": rng.randrange(1 << 30), "sweep_seed": rng.randrange(1 << 30),
        "order_b": {"seed": rng.randrange(1 << 30), "listing_seed": rng.randrange(1 << 30)},
        "pip0": pip0, "entry_source": "user" if ui else "import", "yaml_bools": yaml_bools,
    }
    return {"cfg": cfg, "spec": spec, "ops": ops}


# ====================================================================== files / orderings
def _text(lines: list[str], eol: bool) -> str:
    body = "\n".join(lines)
    return body + ("\n" if eol and lines else "")


def files_model(scn: dict) -> dict[str, list[str]]:
    out: dict[str, list[str]] = {}
    for ent in scn["spec"]["files"]:
        out[ent["path"]] = list(ent["lines"])
    return out


def variant_files(model: dict[str, list[str]], order: dict | None) -> dict[str, list[str]]:
    """Same multiset of files and lines, other places and other line order (order=None: as written)."""
    if order is None:
        return {p: list(v) for p, v in model.items()}
    paths = sorted(model)
    perm = list(range(len(paths)))
    random.Random(f"{order['seed']}/files/{len(paths)}").shuffle(perm)
    out = {}
    for i, path in enumerate(paths):
        lines = list(model[path])
        random.Random(f"{order['seed']}/lines/{i}/{len(lines)}").shuffle(lines)
        out[paths[perm[i]]] = lines
    return out


def render(scn: dict) -> dict:
    eol = scn["spec"].get("eol", True)
    return {p: _text(v, eol) for p, v in sorted(files_model(scn).items())}


def normalize(scn: dict) -> dict | None:
    seen = set()
    files = []
    for ent in scn["spec"]["files"]:
        if ent["path"] in seen:
            continue
        seen.add(ent["path"])
        files.append(ent)
    scn["spec"]["files"] = files
    n_runs = 0
    ops = []
    for op in scn["ops"]:
        if op["kind"] in ("run", "overlap"):
            n_runs += 1
            if n_runs > MAX_RUN_OPS:
                continue
        if op["kind"] == "overlap":
            if not op.get("runs"):
                continue
            if len(op["runs"]) == 1:
                # a single run is not an overlap group: its edits, then an ordinary run
                only = op["runs"][0]
                for ed in only.get("edits") or []:
                    ops.append({"dt": 0.25, **ed})
                ops.append({"dt": op.get("dt", 0.25), "kind": "run", "how": only.get("how", "reload")})
                continue
            op["runs"] = op["runs"][:3]
        ops.append(op)
    scn["ops"] = ops
    return scn


def simplify(scn: dict):
    spec = scn["spec"]
    for pkg in list(spec["table"]):
        cand = copy.deepcopy(scn)
        del cand["spec"]["table"][pkg]
        if cand["spec"]["record"].get(pkg) is not None and spec["table"][pkg][1] == "pyscript":
            del cand["spec"]["record"][pkg]
        yield cand
    for pkg in list(spec["record"]):
        if spec["table"].get(pkg, [None, None])[1] == "pyscript":
            continue
        cand = copy.deepcopy(scn)
        del cand["spec"]["record"][pkg]
        yield cand
    if spec["prior_entry"] and not spec["record"] and not any(v[1] == "pyscript" for v in spec["table"].values()):
        cand = copy.deepcopy(scn)
        cand["spec"]["prior_entry"] = False
        yield cand
    if (spec.get("pip0") or {}).get("mode") == "pkgs" and len(spec["pip0"].get("pkgs") or []) > 1:
        for pi in range(len(spec["pip0"]["pkgs"])):
            cand = copy.deepcopy(scn)
            del cand["spec"]["pip0"]["pkgs"][pi]
            yield cand
    if len(spec["pkgs"]) > 1:
        used = set()
        for ent in spec["files"]:
            for ln in ent["lines"]:
                used.update(p for p in spec["pkgs"] if p in ln)
        for op in scn["ops"]:
            for ln in list(op.get("lines", [])) + [ln for r in op.get("runs", []) for ed in r.get("edits") or []
                                                    for ln in ed.get("lines", [])]:
                used.update(p for p in spec["pkgs"] if p in ln)
            if op.get("pkg"):
                used.add(op["pkg"])
            used.update(op.get("pkgs") or [])
        used.update((spec.get("pip0") or {}).get("pkgs") or [])
        used.update(spec["table"])
        used.update(spec["record"])
        keep = [p for p in spec["pkgs"] if p in used]
        if keep and keep != spec["pkgs"]:
            cand = copy.deepcopy(scn)
            cand["spec"]["pkgs"] = keep
            cand["spec"]["index"] = {p: v for p, v in spec["index"].items() if p in keep}
            yield cand
    for fi, ent in enumerate(spec["files"]):
        for li, ln in enumerate(ent["lines"]):
            cls = classify(ln)
            if cls["text"] != ln:
                cand = copy.deepcopy(scn)
                cand["spec"]["files"][fi]["lines"][li] = cls["text"]
                yield cand
    if (spec.get("pip0") or {}).get("mode", "ok") != "ok":
        cand = copy.deepcopy(scn)
        cand["spec"]["pip0"] = {"mode": "ok"}
        yield cand
    if spec.get("entry_source", "import") != "import":
        cand = copy.deepcopy(scn)
        cand["spec"]["entry_source"] = "import"
        cand["spec"]["yaml_bools"] = None
        yield cand
    if spec.get("yaml_bools"):
        cand = copy.deepcopy(scn)
        cand["spec"]["yaml_bools"] = None
        yield cand
    for oi, op in enumerate(scn["ops"]):
        if op["kind"] == "ext_install" and op.get("pin"):
            cand = copy.deepcopy(scn)
            cand["ops"][oi]["pin"] = False
            yield cand
        if op["kind"] == "config" and op.get("what") != "dialog":
            cand = copy.deepcopy(scn)
            cand["ops"][oi]["what"] = "dialog"
            yield cand
        if op["kind"] == "pip" and op.get("mode") == "pkgs" and len(op.get("pkgs") or []) > 1:
            for pi in range(len(op["pkgs"])):
                cand = copy.deepcopy(scn)
                del cand["ops"][oi]["pkgs"][pi]
                yield cand
        if op["kind"] == "write" and len(op["lines"]) > 1:
            for li in range(len(op["lines"])):
                cand = copy.deepcopy(scn)
                del cand["ops"][oi]["lines"][li]
                yield cand
        if op["kind"] == "ext_install" and op.get("restore"):
            cand = copy.deepcopy(scn)
            cand["ops"][oi]["restore"] = False
            yield cand
        if op["kind"] == "overlap":
            if not op.get("serial", True):
                cand = copy.deepcopy(scn)
                cand["ops"][oi]["serial"] = True
                yield cand
            if list(op.get("exec_ms") or [0.0, 0.0]) != [0.0, 0.0]:
                cand = copy.deepcopy(scn)
                cand["ops"][oi]["exec_ms"] = [0.0, 0.0]
                yield cand
            for ri, spec in enumerate(op["runs"]):
                for ei in range(len(spec.get("edits") or [])):
                    cand = copy.deepcopy(scn)
                    del cand["ops"][oi]["runs"][ri]["edits"][ei]
                    yield cand
                    if spec["edits"][ei]["kind"] == "write" and len(spec["edits"][ei]["lines"]) > 1:
                        for li in range(len(spec["edits"][ei]["lines"])):
                            cand = copy.deepcopy(scn)
                            del cand["ops"][oi]["runs"][ri]["edits"][ei]["lines"][li]
                            yield cand
                for key, val in (("pre", 0.0), ("post", 0.0), ("how", "reload")):
                    if spec.get(key, val) != val:
                        cand = copy.deepcopy(scn)
                        cand["ops"][oi]["runs"][ri][key] = val
                        yield cand
                if ri > 0 and spec.get("after", 0.0) not in (0.0, 0.25):
                    cand = copy.deepcopy(scn)
                    cand["ops"][oi]["runs"][ri]["after"] = 0.25
                    yield cand
        if op["kind"] == "run" and op["how"] != "reload":
            cand = copy.deepcopy(scn)
            cand["ops"][oi]["how"] = "reload"
            yield cand
        if op.get("dt") != 0.25:
            cand = copy.deepcopy(scn)
            cand["ops"][oi]["dt"] = 0.25
            yield cand
    for key, val in (("exec_latency_ms", [0.0, 0.0]), ("cost_us", 50), ("fire_started", True),
                     ("hass_is_global", False)):
        if scn["cfg"].get(key) != val:
            cand = copy.deepcopy(scn)
            cand["cfg"][key] = val
            yield cand


# ====================================================================== simulated environment
class _GlobShim:
    """Stands in for the ``glob`` module inside requirements.py: seeded listing order."""

    def __init__(self, sim: "PkgSim") -> None:
        self._sim = sim

    def glob(self, pattern, *args, **kwargs):
        sim = self._sim
        res = sorted(_real_glob.glob(pattern, *args, **kwargs))
        base = sim.world.pyscript_dir
        rel = os.path.relpath(pattern, base)
        cur = sim.cur
        epoch = sim.listing_epoch if cur is None else cur["epoch"]
        if len(res) > 1:
            perm = list(res)
            random.Random(f"{sim.listing_seed}/{epoch}/{rel}").shuffle(perm)
            if perm != res:
                sim.world.probe("listing_order_changed_visit_order")
            res = perm
        (sim.visited if cur is None else cur["visited"]).extend(
            os.path.relpath(p, os.path.dirname(base)) for p in res)
        return res

    def __getattr__(self, name):
        return getattr(_real_glob, name)


class PkgSim:
    """Installed-package table, package index, installer and probes of one world."""

    def __init__(self, scn: dict, order: dict | None) -> None:
        spec = scn["spec"]
        self.scn = scn
        self.order = order
        self.table: dict[str, list] = {p: list(v) for p, v in sorted(spec["table"].items())}
        self.index: dict[str, str] = dict(spec["index"])
        self.last_py: dict[str, str] = {}  # last version pyscript installed (or recorded by the earlier session)
        for pkg, ver in spec["record"].items() if spec["prior_entry"] else []:
            self.last_py[pkg] = ver
        self.listing_seed = spec["listing_seed"] if order is None else order["listing_seed"]
        self.listing_epoch = 0
        self.visited: list[str] = []
        self.runs: list[dict] = []  # in the order in which the runs began (a run is complete when rec["done"])
        self.active: list[dict] = []  # runs of install_requirements in progress (more than one: overlap group)
        self.groups: list[dict] = []  # overlap groups as issued by the driver
        # runs that really overlapped (each began while another one was in progress), judged as a whole at the
        # quiescent point after the last of them has ended
        self.clusters: list[dict] = []
        self.cluster: dict | None = None
        self.pip_lock: asyncio.Lock | None = None  # Home Assistant's pip lock (overlap groups with "serial")
        self.pip_sessions = 0  # installer sessions in progress
        self.entry_of: dict = {}  # run number -> the config entry it was called with
        self.seen_foreign: set = set()  # packages a completed run has seen at a version pyscript did not install
        self.world: "ReqWorld" | None = None
        self.model: dict[str, list[str]] = files_model(scn)
        self.eol = spec.get("eol", True)
        self.real_process = None
        self.real_install = None
        self.iv_calls = 0
        self.glob_shim = _GlobShim(self)
        self.dead = False
        self.sweeps = 0
        self.sweep_orderings = 0
        self.pip: dict = dict(spec.get("pip0") or {"mode": "ok"})  # state of the installer (injected fault)
        self.ui = spec.get("entry_source", "import") == "user"  # configured through the UI (options dialog)
        # the record as the last run (or the earlier session) left it: it may only change inside a run
        self.record_last: dict[str, str] = dict(spec["record"]) if spec["prior_entry"] else {}
        self.drifts: list[dict] = []
        self.config_changes = 0  # configuration changes since the last run (reach probe)

    @property
    def cur(self) -> dict | None:
        """The run of install_requirements the calling task is in (None: outside any run)."""
        return _CUR.get()

    # ------------------------------------------------------------ seams
    def installed_version(self, name):
        self.iv_calls += 1
        if not name:
            raise ValueError("A distribution name is required.")
        ent = self.table.get(name)
        if ent is None:
            raise PackageNotFoundError(name)
        return ent[0]

    def pip_fails(self, pkg: str) -> bool:
        mode = self.pip.get("mode", "ok")
        return mode == "offline" or (mode == "pkgs" and pkg in (self.pip.get("pkgs") or []))

    def _pip_plan(self, req: str):
        """What pip would do with one requirement now: None (cannot parse / unknown), 'satisfied' or (pkg, target)."""
        try:
            parsed = Requirement(req)
        except InvalidRequirement:
            return None
        pkg = parsed.name
        if pkg not in self.index:
            return None
        have = self.table.get(pkg)
        spec = str(parsed.specifier)
        if spec.startswith("==") and "," not in spec and "*" not in spec:
            target = spec[2:]
            if have is not None and same_version(have[0], target):
                return "satisfied"  # requirement already satisfied: pip is not even started
        elif spec == "":
            if have is not None:
                return "satisfied"
            target = self.index[pkg]
        else:
            if have is not None and parsed.specifier.contains(have[0], prereleases=True):
                return "satisfied"
            target = self.index[pkg]
        return (pkg, target)

    def _pip_apply(self, cur: dict, reqs: list[str]) -> None:
        for req in reqs:
            plan = self._pip_plan(req)
            if plan is None:
                cur["unparsable"].append(req)
                continue
            if plan == "satisfied":
                continue
            pkg, target = plan
            if self.pip_fails(pkg):
                cur["pip_failed"].append(req)
                continue
            self.table[pkg] = [target, "pyscript"]
            self.last_py[pkg] = target
            self.seen_foreign.discard(pkg)
            cur["installed"][pkg] = target

    async def _pip_session(self, cur: dict, reqs: list[str], call: dict) -> None:
        """One pip session of an overlap group: it takes (virtual) time, the packages appear in between."""
        w = self.world
        self.pip_sessions += 1
        if self.pip_sessions > 1:
            w.probe("overlap_two_installer_sessions_at_once")
        try:
            if call.get("pre", 0.0) > 0.0:
                await asyncio.sleep(call["pre"])
            self._pip_apply(cur, reqs)
            if call.get("post", 0.0) > 0.0:
                await asyncio.sleep(call["post"])
            else:
                await asyncio.sleep(0)
        finally:
            self.pip_sessions -= 1

    async def installer(self, hass, name, requirements, *args, **kwargs):
        """homeassistant.requirements.async_process_requirements: every requirement that is not satisfied yet is
        installed on its own; the ones that fail are collected and reported by RequirementsNotFound at the end.

        In an overlap group a session that has something to install takes the (virtual) time the scenario says;
        Home Assistant runs one pip session at a time (``pip_lock``, re-checks what is missing once it has the
        lock) - the scenario says whether that is modelled ("serial") or the sessions run side by side."""
        reqs = [str(r) for r in requirements]
        cur = self.cur
        if cur is None:
            raise HarnessError("installer called outside install_requirements")
        cur["calls"].append(reqs)
        cur["caller"] = name
        cur["allow_at_call"].append(bool(self.entry_of[cur["k"]].data.get(CONF_ALLOW, False)))
        call = _CALL.get()
        cur["in_pip"] = True
        try:
            if call is None:
                self._pip_apply(cur, reqs)
                await asyncio.sleep(0)
            elif all(self._pip_plan(r) in (None, "satisfied") for r in reqs):
                self._pip_apply(cur, reqs)  # nothing to install (book-keeping of unparsable strings only)
                await asyncio.sleep(0)
            elif call["serial"]:
                if self.pip_lock is None:
                    self.pip_lock = asyncio.Lock()
                if self.pip_lock.locked():
                    self.world.probe("overlap_installer_session_waited")
                async with self.pip_lock:
                    await self._pip_session(cur, reqs, call)
            else:
                await self._pip_session(cur, reqs, call)
        finally:
            cur["in_pip"] = False
        failed = [r for r in reqs if r in cur["pip_failed"]]
        if failed:
            from homeassistant.requirements import RequirementsNotFound

            self.world.fault("installer_failure")
            raise RequirementsNotFound(name, failed)

    def wrap_process(self, real):
        self.real_process = real

        @functools.wraps(real)
        def probe(*args, **kwargs):
            cur = self.cur
            if cur is not None:
                # the files are read now (the job runs inline): this is what the run has to resolve
                cur["t_read"] = self.world.vts()
                cur["lines"] = [ln for p in sorted(self.model) for ln in self.model[p]]
                cur["files"] = {p: list(v) for p, v in sorted(self.model.items())}
                cur["disk"] = {p: list(v) for p, v in sorted(variant_files(self.model, self.order).items())}
            res = real(*args, **kwargs)
            if cur is not None:
                cur["resolved"] = {str(k): v.get("version") for k, v in res.items()}
                cur["resolved_installed"] = {str(k): v.get("installed_version") for k, v in res.items()}
            return res

        return probe

    def wrap_install(self, real):
        self.real_install = real

        @functools.wraps(real)
        async def probe(hass, config_entry, pyscript_folder):
            rec = self.begin_run(config_entry)
            token = _CUR.set(rec)
            try:
                return await real(hass, config_entry, pyscript_folder)
            except Exception as exc:  # pylint: disable=broad-except
                rec["exc"] = f"{type(exc).__name__}: {exc}"[:160]
                rec["exc_type"] = type(exc).__name__
                raise
            finally:
                _CUR.reset(token)
                self.end_run(rec, config_entry)

        return probe

    # ------------------------------------------------------------ run bookkeeping
    def begin_run(self, entry) -> dict:
        call = _CALL.get()
        group = None if call is None else call["group"]
        if self.active and group is None:
            raise HarnessError("install_requirements re-entered")
        w = self.world
        self.listing_epoch += 1
        self.visited = []
        # a reload / restart re-reads the configuration before it gets here (yaml import flow)
        self.note_record(entry, "config_reread")
        if self.config_changes:
            w.probe("run_after_config_change")
            self.config_changes = 0
        rec = {
            "k": len(self.runs),
            "t": w.vts(),
            "how": self.next_how if call is None else call["how"],
            "done": False,
            "group": None if group is None else group["g"],
            "overlapped": False,
            "epoch": self.listing_epoch,
            "visited": [],
            "allow": bool(entry.data.get(CONF_ALLOW, False)),
            # UI entry: the setting is what the user chose in the UI, whatever yaml says
            "allow_expected": bool(w.cfg[CONF_ALLOW]) if self.ui else None,
            "table_before": {p: list(v) for p, v in sorted(self.table.items())},
            "record_before": dict(entry.data.get(CONF_INSTALLED, {})),
            "record_key_before": CONF_INSTALLED in entry.data,
            "last_py_before": dict(self.last_py),
            "lines": [ln for p in sorted(self.model) for ln in self.model[p]],
            "files": {p: list(v) for p, v in sorted(self.model.items())},
            "disk": {p: list(v) for p, v in sorted(variant_files(self.model, self.order).items())},
            "calls": [],
            "allow_at_call": [],
            "unparsable": [],
            "pip": copy.deepcopy(self.pip),
            "pip_failed": [],
            "installed": {},
            "resolved": None,
            "exc": None,
        }
        if self.active:
            # another run is in progress: neither of them has the installed packages and the record for itself
            w.probe("overlap_run_began_during_another")
            if any(r.get("in_pip") for r in self.active):
                w.probe("overlap_run_began_while_installer_busy")
            elif any(r.get("t_read") is not None and not r["calls"] for r in self.active):
                # the files are read, nothing was asked of the installer yet and the run has not ended: it is
                # waiting for the executor (the glob job; with nothing to install: the look-up of unpinned versions)
                w.probe("overlap_run_began_during_executor_job")
            rec["overlapped"] = True
            for other in self.active:
                other["overlapped"] = True
            self.cluster["runs"].append(rec["k"])
        else:
            self.cluster = {"runs": [rec["k"]], "serial": None if group is None else group["serial"], "t": rec["t"],
                            "table_before": rec["table_before"], "record_before": rec["record_before"],
                            "last_py_before": rec["last_py_before"]}
        self.active.append(rec)
        self.runs.append(rec)
        self.entry_of[rec["k"]] = entry
        if group is not None:
            group["runs"].append(rec["k"])
        return rec

    next_how = "setup"

    def end_run(self, rec: dict, entry) -> None:
        rec["record_after"] = dict(entry.data.get(CONF_INSTALLED, {}))
        rec["table_after"] = {p: list(v) for p, v in sorted(self.table.items())}
        rec["t_end"] = self.world.vts()
        rec["done"] = True
        # the setting as it is when the run ends: a reload that was started meanwhile may have re-read the
        # configuration while this run was suspended (no second run need have begun for that)
        rec["allow_end"] = bool(entry.data.get(CONF_ALLOW, False))
        self.record_last = dict(rec["record_after"])
        self.active.remove(rec)
        if not self.active:
            if len(self.cluster["runs"]) > 1:
                self.cluster.update({"t_end": rec["t_end"], "table_after": rec["table_after"],
                                     "record_after": rec["record_after"]})
                self.clusters.append(self.cluster)
                self.world.probe("overlap_runs_really_overlapped")
            self.cluster = None
        if not rec["overlapped"] and not rec["exc"] and rec["allow"] and rec["resolved"] is not None:
            # a completed run has looked at these packages: it had the opportunity to notice a take-over
            ref = resolve(rec["lines"])
            for name in sorted(set(ref["sel"]) - ref["open"]):
                have = rec["table_before"].get(name)
                last = rec["last_py_before"].get(name)
                if have is not None and have[1] == "host" and last is not None and not same_version(have[0], last) \
                        and self.table.get(name) == have:
                    self.seen_foreign.add(name)
        flat = sorted(r for call in rec["calls"] for r in call)
        self.world.trace.append(["c20run", rec["k"], rec["how"], rec["t"], rec["allow"], rec["resolved"], flat,
                                 sorted(rec["record_after"].items()), rec["exc"], rec["visited"]])
        if rec["pip_failed"]:
            self.world.trace.append(["c20pipfail", rec["k"], sorted(rec["pip_failed"]), sorted(rec["installed"])])

    def note_record(self, entry, via: str) -> None:
        """Outside a run nothing is installed, so the record must stay as the last run left it."""
        cur = dict(entry.data.get(CONF_INSTALLED, {}))
        if cur == self.record_last:
            return
        self.drifts.append({"t": self.world.vts(), "via": via, "before_run": len(self.runs),
                            "old": dict(self.record_last), "new": cur,
                            "table": {p: list(v) for p, v in sorted(self.table.items())},
                            "last_py": dict(self.last_py)})
        self.world.trace.append(["c20drift", self.world.vts(), via, sorted(self.record_last.items()),
                                 sorted(cur.items())])
        self.record_last = cur

    # ------------------------------------------------------------ disk
    def materialise(self, files: dict[str, list[str]] | None = None) -> None:
        """Write the (variant of the) file model to disk, remove requirement files that are gone."""
        w = self.world
        want = variant_files(self.model, self.order) if files is None else files
        for path in PATH_POOL:
            if path not in want and os.path.exists(os.path.join(w.dir, path)):
                w.delete_file(path)
        for path, lines in sorted(want.items()):
            w.write_file(path, _text(lines, self.eol))


class ReqWorld(World):
    """World with the C20 seams; the config entry of an earlier session may already exist."""

    def __init__(self, cfg: dict, files: dict[str, str], sim: PkgSim) -> None:
        super().__init__(cfg, files)
        self.sim = sim
        sim.world = self

    def extra_patches(self) -> list:
        import custom_components.pyscript.requirements as reqmod

        sim = self.sim
        spec = sim.scn["spec"]
        hooks = [
            patch("custom_components.pyscript.requirements.glob", sim.glob_shim),
            patch("custom_components.pyscript.requirements.installed_version", sim.installed_version),
            patch("custom_components.pyscript.requirements.async_process_requirements", sim.installer),
            patch("custom_components.pyscript.requirements.process_all_requirements",
                  sim.wrap_process(reqmod.process_all_requirements)),
            patch("custom_components.pyscript.install_requirements", sim.wrap_install(reqmod.install_requirements)),
        ]
        if spec["prior_entry"] or sim.ui:
            from pytest_homeassistant_custom_component.common import MockConfigEntry

            # a UI entry always exists before set-up (the user created it in the UI: its data are the three
            # settings); a yaml entry exists if an earlier session imported it
            data = {name: bool(self.cfg[CFG_KEY[name]]) for name in CONF_BOOLS} if sim.ui \
                else dict(self.pyscript_conf())
            if spec["prior_entry"] and (spec["record"] or spec.get("record_key_present")):
                data[CONF_INSTALLED] = dict(sorted(spec["record"].items()))
            entry = MockConfigEntry(domain="pyscript", data=data, source="user" if sim.ui else "import",
                                    unique_id="pyscript", title="pyscript")
            entry.add_to_hass(self.hass)
            if sim.ui:
                self.probe("ui_configured_entry")
                if spec.get("yaml_bools"):
                    self.probe("ui_entry_with_settings_in_yaml")
            if spec["prior_entry"]:
                self.probe("prior_record_seeded" if spec["record"] else "prior_entry_without_record")
                if any(spec["table"].get(p, [None, None]) != [v, "pyscript"] for p, v in spec["record"].items()):
                    self.probe("stale_record_seeded")
        return hooks

    def pyscript_conf(self) -> dict:
        """The ``pyscript:`` section of configuration.yaml.  With a UI entry the three settings are not taken
        from yaml (they may be there all the same: docs 'will be ignored'); free-form keys still are."""
        if not self.sim.ui:
            return super().pyscript_conf()
        conf = dict(self.sim.scn["spec"].get("yaml_bools") or {})
        conf.update(self.cfg.get("extra_conf") or {})
        return conf

    async def options_dialog(self, changes: dict) -> str:
        """The user opens the integration's options dialog ('configure'), flips the settings in ``changes`` and
        submits; every other field is submitted as the dialog shows it.  Returns what the dialog did."""
        from homeassistant.data_entry_flow import FlowResultType

        sim = self.sim
        mgr = self.hass.config_entries.options
        before = dict(self.entry.data)
        res = await mgr.async_init(self.entry.entry_id)
        if res["type"] != FlowResultType.FORM:
            raise HarnessError(f"options dialog did not open: {res['type']}")
        if res["step_id"] == "no_ui_configuration_allowed":
            if sim.ui:
                raise HarnessError("options dialog refused for a UI entry")
            res = await mgr.async_configure(res["flow_id"], user_input={})
            outcome = "no_ui"
            self.probe("options_dialog_refused_for_yaml_entry")
        elif res["step_id"] == "init":
            if not sim.ui:
                raise HarnessError("options dialog offered for a yaml entry")
            shown = {str(key): key.default() for key in res["data_schema"].schema}
            if sorted(shown) != sorted(CONF_BOOLS):
                raise HarnessError(f"options dialog shows {sorted(shown)}")
            form = {**shown, **{k: bool(v) for k, v in changes.items()}}
            res = await mgr.async_configure(res["flow_id"], user_input=form)
            if res["type"] == FlowResultType.FORM and res["step_id"] == "no_update":
                res = await mgr.async_configure(res["flow_id"], user_input={})
                outcome = "no_update"
                self.probe("options_dialog_without_change")
            else:
                outcome = "updated"
                self.probe("options_dialog_changed_setting")
                if before.get(CONF_INSTALLED):
                    self.probe("option_changed_with_nonempty_record")
        else:
            raise HarnessError(f"options dialog opened at step {res['step_id']}")
        if res["type"] != FlowResultType.CREATE_ENTRY:
            raise HarnessError(f"options dialog ended with {res['type']}")
        await self.drain()
        sim.note_record(self.entry, "options_dialog")
        return outcome

    def digest(self) -> str:
        """Trace digest without the per-process config directory (its name contains the pid).

        pyscript's warnings quote absolute paths and World truncates log lines to 200 characters, so the
        truncated text depends on the pid's length: the log entries are rebuilt from the full records.
        """
        base = self.dir or "\0"
        vt0 = self.clock.vt0 if self.clock else 0.0
        items = [t for t in self.trace if not (isinstance(t, list) and t and t[0] == "log")]
        for rec in self.logs:
            if rec["level"] in ("WARNING", "ERROR", "CRITICAL"):
                msg = rec["msg"].replace(base, "<config>").split("\n", 1)[0][:300]
                items.append(["log", round(rec["vt"] - vt0, 6), rec["logger"], rec["level"], msg])
        text = json.dumps(items, sort_keys=True, default=repr).replace(base, "<config>")
        return hashlib.sha256(text.encode()).hexdigest()[:16]


# ====================================================================== one world = one history
def _orderings(model: dict[str, list[str]], cap_all: int, n_sample: int, seed: int):
    """File/line orderings of the same multiset: all when few, else a seeded sample. Yields file dicts."""
    paths = sorted(model)
    total = 1
    for k in range(2, len(paths) + 1):
        total *= k
    for path in paths:
        for k in range(2, len(model[path]) + 1):
            total *= k
    if total <= cap_all:
        line_perms = [list(itertools.permutations(range(len(model[p])))) for p in paths]
        out = []
        for fperm in itertools.permutations(range(len(paths))):
            for combo in itertools.product(*line_perms):
                out.append({paths[fperm[i]]: [model[paths[i]][j] for j in combo[i]] for i in range(len(paths))})
        return out, True
    rng = random.Random(f"{seed}/sweep/{len(paths)}/{total}")
    out = [{p: list(v) for p, v in model.items()}]
    for _ in range(n_sample - 1):
        fperm = list(range(len(paths)))
        rng.shuffle(fperm)
        cand = {}
        for i, path in enumerate(paths):
            lines = list(model[path])
            rng.shuffle(lines)
            cand[paths[fperm[i]]] = lines
        out.append(cand)
    return out, False


def _visit_text(files: dict[str, list[str]], visited: list[str]) -> str:
    parts = []
    for path in visited:
        parts.append(f"{path[len('pyscript/'):]}: {files.get(path)!r}")
    return "; ".join(parts)


def sweep(w: "ReqWorld", sim: PkgSim, tier_conf: dict, out: list) -> None:
    """Real process_all_requirements over orderings of the current multiset (world A only)."""
    from custom_components.pyscript.const import REQUIREMENTS_FILE, REQUIREMENTS_PATHS

    if not sim.model:
        return
    cands, exhaustive = _orderings(sim.model, tier_conf["sweep_all"], tier_conf["sweep_sample"],
                                   sim.scn["spec"]["sweep_seed"] + sim.sweeps)
    if len(cands) < 2:
        return
    sim.sweeps += 1
    w.probe("sweep_exhaustive" if exhaustive else "sweep_sampled")
    ref = resolve([ln for p in sorted(sim.model) for ln in sim.model[p]])
    first = None
    seen_keys = set()
    for n, files in enumerate(cands):
        sim.materialise(files)
        sim.listing_epoch += 1
        sim.visited = []
        try:
            res = sim.real_process(w.pyscript_dir, REQUIREMENTS_PATHS, REQUIREMENTS_FILE)
        except Exception as exc:  # pylint: disable=broad-except
            out.append({"class": "C20.run_failed", "sig": {"where": "process_all_requirements",
                                                           "exc": type(exc).__name__},
                        "detail": f"process_all_requirements raised {exc!r} for {_visit_text(files, sim.visited)}",
                        "t": w.vts()})
            continue
        table = {str(k): v.get("version") for k, v in res.items()}
        visit = _visit_text(files, sim.visited)
        sim.sweep_orderings += 1
        for viol in judge_table(table, ref, w.vts(), f"ordering [{visit}]"):
            key = (viol["class"], json.dumps(viol["sig"], sort_keys=True))
            if key not in seen_keys:
                seen_keys.add(key)
                out.append(viol)
        if first is None:
            first = (table, visit)
        elif canon_table(table) != canon_table(first[0]):
            name = sorted(k for k in set(table) | set(first[0]) if canon_v(table.get(k)) != canon_v(first[0].get(k)))[0]
            viol = {"class": "C20.order_dependent", "sig": {"form": form_of(ref, name)},
                    "detail": f"same multiset of lines, package {name!r}: ordering [{first[1]}] selects "
                              f"{first[0].get(name)!r}, ordering [{visit}] selects {table.get(name)!r}",
                    "t": w.vts()}
            key = (viol["class"], json.dumps(viol["sig"], sort_keys=True))
            if key not in seen_keys:
                seen_keys.add(key)
                out.append(viol)
    sim.materialise()
    w.trace.append(["c20sweep", w.vts(), len(cands), exhaustive])


def _failed_install_exc(rec: dict) -> bool:
    """The run raised the installer's own error after an injected installer failure."""
    return bool(rec.get("exc")) and bool(rec.get("pip_failed")) and rec.get("exc_type") == "RequirementsNotFound"


def apply_edit(w: "ReqWorld", sim: PkgSim, op: dict) -> bool:
    """A change of the requirement files (op kinds write / delete). Returns whether the multiset changed."""
    if op["kind"] == "write":
        sim.model[op["path"]] = list(op["lines"])
        sim.materialise()
        w.fault("file_edit")
        w.trace.append(["op", "write", w.vts(), op["path"], op["lines"]])
        return True
    if op["kind"] == "delete":
        changed = sim.model.pop(op["path"], None) is not None
        if changed:
            w.probe("file_deleted_between_runs")
        sim.materialise()
        w.trace.append(["op", "delete", w.vts(), op["path"]])
        return changed
    raise HarnessError(f"unknown edit {op['kind']}")


async def overlap_group(w: "ReqWorld", sim: PkgSim, op: dict, loaded: bool, pys) -> bool:
    """Two or three runs of install_requirements issued while the earlier ones may still be suspended (in the glob
    job or in the installer), possibly after an edit of the requirement files; returns at the quiescent point
    after all of them have ended.  Returns whether the files were edited."""
    loop = w.loop
    group = {"g": len(sim.groups), "serial": bool(op.get("serial", True)), "runs": [], "t": w.vts()}
    sim.groups.append(group)
    w.probe("overlap_group")
    w.probe("overlap_installer_serialised" if group["serial"] else "overlap_installer_concurrent")
    w.trace.append(["op", "overlap", w.vts(), group["serial"], len(op["runs"])])
    old_latency = loop.exec_latency
    lo, hi = op.get("exec_ms") or (None, None)
    if lo is not None:
        loop.exec_latency = (lo * 1e-3, hi * 1e-3)  # how long executor jobs (the glob job) take in this group
    edited = False

    async def issue(call: dict):
        _CALL.set(call)  # the task's own context
        if call["how"] == "reload":
            w.probe("reload_run")
            await w.reload()
        elif call["how"] == "direct":
            w.probe("direct_call")
            w.trace.append(["op", "direct", w.vts()])
            await pys.install_requirements(w.hass, w.entry, w.pyscript_dir)
        else:
            raise HarnessError(f"unknown run kind {call['how']} in an overlap group")

    tasks = []
    try:
        for i, spec in enumerate(op["runs"]):
            if i > 0 and spec.get("after", 0.0) > 0.0:
                await w.sleep(spec["after"])
            for ed in spec.get("edits") or []:
                if apply_edit(w, sim, ed):
                    edited = True
                    if sim.active:
                        w.probe("overlap_files_edited_during_a_run")
            how = spec.get("how", "reload")
            if how not in ("reload", "direct"):
                raise HarnessError(f"unknown run kind {how} in an overlap group")
            if not loaded:
                how = "direct"  # no reload service after a failed set-up
            call = {"group": group, "how": how, "serial": group["serial"],
                    "pre": float(spec.get("pre", 0.0)), "post": float(spec.get("post", 0.0))}
            tasks.append(loop.create_task(issue(call)))
            await asyncio.sleep(0)
        results = await asyncio.gather(*tasks, return_exceptions=True)
    finally:
        loop.exec_latency = old_latency
    await w.settle()
    recs = [sim.runs[k] for k in group["runs"]]
    if len(recs) != len(op["runs"]) or not all(r["done"] for r in recs) or sim.active:
        raise HarnessError(f"overlap group of {len(op['runs'])} ran install_requirements {len(recs)} times")
    raised = [r for r in recs if r["exc"]]
    for res in results:
        if isinstance(res, HarnessError):
            raise res
        if isinstance(res, BaseException):
            if not raised:
                raise HarnessError(f"a run of an overlap group raised outside install_requirements: {res!r}")
            raised.pop(0)
            w.trace.append(["op", "run_raised", w.vts(), type(res).__name__])
    for rec in recs:
        if rec["exc"] and not _failed_install_exc(rec):
            sim.dead = True
    group["t_end"] = w.vts()
    flat = sorted(r for rec in recs for c in rec["calls"] for r in c)
    w.trace.append(["c20group", group["g"], group["t"], group["t_end"], group["runs"],
                    [r["overlapped"] for r in recs], flat, sorted(w.entry.data.get(CONF_INSTALLED, {}).items())])
    return edited


def run_world(scn: dict, order: dict | None, tier_conf: dict):
    """Execute the history in one world. Returns (world, sim, sweep violations)."""
    sim = PkgSim(scn, order)
    eol = scn["spec"].get("eol", True)
    files0 = {p: _text(v, eol) for p, v in sorted(variant_files(sim.model, order).items())}
    cfg = dict(scn["cfg"])
    w = ReqWorld(cfg, files0, sim)
    sweep_viol: list = []

    async def driver(w: ReqWorld):
        import custom_components.pyscript as pys

        await w.settle()
        if len(sim.runs) != 1:
            raise HarnessError(f"set-up ran install_requirements {len(sim.runs)} times")
        # a run that raises because the (simulated) installer failed is a legal outcome: the history goes on; a
        # failed set-up leaves the config entry in the state "setup error" (no reload service), so the next
        # reload is replaced by what the user has to do then: reload the entry / restart (unload + setup)
        loaded = True
        if sim.runs[0]["exc"]:
            if _failed_install_exc(sim.runs[0]):
                loaded = False
            else:
                sim.dead = True
        dirty = True
        n_run_ops = 0
        for op in scn["ops"]:
            await w.sleep(op.get("dt", 0.25))
            kind = op["kind"]
            if kind == "ext_install":
                had = sim.table.get(op["pkg"])
                ver = op["v"]
                if op.get("pin"):
                    ref = resolve([ln for p in sorted(sim.model) for ln in sim.model[p]])
                    exp = ref["sel"].get(op["pkg"])
                    if exp is not None and exp["pinned"] and op["pkg"] not in ref["open"] \
                            and not same_version(sim.last_py.get(op["pkg"]), exp["v"]):
                        ver = exp["v"]
                        w.probe("host_installs_pinned_version")
                if op.get("restore"):
                    # the host happens to install the version pyscript installed last - after a completed run has
                    # seen the package at another version (pyscript had the opportunity to notice the take-over)
                    last = sim.last_py.get(op["pkg"])
                    if op["pkg"] in sim.seen_foreign and last is not None and (had is None or had[1] == "host") \
                            and not (had is not None and same_version(had[0], last)):
                        ver = last
                        w.probe("host_restores_version_pyscript_installed")
                if had is not None and had[1] == "pyscript":
                    w.probe("external_upgrade_of_own")
                sim.table[op["pkg"]] = [ver, "host"]
                w.fault("external_install")
                w.trace.append(["op", "ext_install", w.vts(), op["pkg"], ver])
            elif kind == "pip":
                sim.pip = {"mode": op.get("mode", "ok"), "pkgs": list(op.get("pkgs") or [])}
                if sim.pip["mode"] not in PIP_MODES:
                    raise HarnessError(f"unknown installer mode {sim.pip['mode']}")
                w.trace.append(["op", "pip", w.vts(), sim.pip["mode"], sim.pip["pkgs"]])
            elif kind == "ext_remove":
                had = sim.table.pop(op["pkg"], None)
                if had is not None and had[1] == "pyscript":
                    w.probe("external_removal_of_own")
                if had is not None:
                    w.fault("external_removal")
                w.trace.append(["op", "ext_remove", w.vts(), op["pkg"]])
            elif kind == "index":
                if op["pkg"] in sim.index:
                    sim.index[op["pkg"]] = op["v"]
                w.trace.append(["op", "index", w.vts(), op["pkg"], op["v"]])
            elif kind == "allow":
                if w.cfg[CONF_ALLOW] != op["v"]:
                    w.probe("allow_toggled")
                    sim.config_changes += 1
                outcome = "yaml"
                if sim.ui:  # the setting of a UI entry is changed in the options dialog (takes effect at once)
                    outcome = await w.options_dialog({CONF_ALLOW: op["v"]})
                w.cfg[CONF_ALLOW] = op["v"]
                w.trace.append(["op", "allow", w.vts(), op["v"], outcome])
            elif kind == "config":
                what = op.get("what", "dialog")
                outcome = "yaml"
                if what in ("hass_is_global", "legacy_decorators"):
                    val = bool(op.get("v"))
                    if bool(w.cfg[CFG_KEY[what]]) != val:
                        sim.config_changes += 1
                        w.probe("other_setting_changed")
                    if sim.ui:
                        outcome = await w.options_dialog({what: val})
                    w.cfg[CFG_KEY[what]] = val  # yaml entry: read again by the next reload / restart
                elif what == "extra":
                    new = {EXTRA_KEY: int(op["v"])} if op.get("v") else {}
                    if new != (w.cfg.get("extra_conf") or {}):
                        sim.config_changes += 1
                        w.probe("yaml_extra_key_changed")
                    w.cfg["extra_conf"] = new
                elif what == "dialog":
                    outcome = await w.options_dialog({})
                else:
                    raise HarnessError(f"unknown config op {what}")
                w.fault("config_change")
                w.trace.append(["op", "config", w.vts(), what, op.get("v"), outcome])
            elif kind in ("write", "delete"):
                if apply_edit(w, sim, op):
                    dirty = True
            elif kind == "overlap":
                n_run_ops += 1
                if n_run_ops > MAX_RUN_OPS or sim.dead:
                    w.trace.append(["op", "run_skipped", w.vts()])
                    continue
                if dirty and order is None:
                    sweep(w, sim, tier_conf, sweep_viol)
                    dirty = False
                if await overlap_group(w, sim, op, loaded, pys):
                    dirty = True
            elif kind == "run":
                n_run_ops += 1
                if n_run_ops > MAX_RUN_OPS or sim.dead:
                    w.trace.append(["op", "run_skipped", w.vts()])
                    continue
                if dirty and order is None:
                    sweep(w, sim, tier_conf, sweep_viol)
                    dirty = False
                before = len(sim.runs)
                how = op["how"]
                if how == "reload" and not loaded:
                    how = "restart"
                    w.probe("restart_after_failed_setup")
                if sim.runs and sim.runs[-1]["pip_failed"]:
                    w.probe("run_after_failed_install")
                sim.next_how = how
                try:
                    if how == "reload":
                        w.probe("reload_run")
                        await w.reload()
                    elif how == "restart":
                        w.probe("entry_unload_setup")
                        if not await w.unload_entry():
                            raise HarnessError("unload_entry failed")
                        await w.setup_entry()
                    elif how == "direct":
                        w.probe("direct_call")
                        w.trace.append(["op", "direct", w.vts()])
                        await pys.install_requirements(w.hass, w.entry, w.pyscript_dir)
                    else:
                        raise HarnessError(f"unknown run kind {how}")
                except HarnessError:
                    raise
                except Exception as exc:  # pylint: disable=broad-except
                    if len(sim.runs) == before + 1 and sim.runs[-1]["exc"]:
                        w.trace.append(["op", "run_raised", w.vts(), type(exc).__name__])
                    else:
                        raise HarnessError(f"{how} raised outside install_requirements: {exc!r}") from exc
                await w.settle()
                if len(sim.runs) != before + 1:
                    raise HarnessError(f"{how} ran install_requirements {len(sim.runs) - before} times")
                if sim.runs[-1]["exc"]:
                    if _failed_install_exc(sim.runs[-1]):
                        if how == "restart":
                            loaded = False
                    else:
                        sim.dead = True
                elif how == "restart":
                    loaded = True
            else:
                raise HarnessError(f"unknown op {kind}")
        if dirty and order is None and not sim.dead:
            sweep(w, sim, tier_conf, sweep_viol)
        await w.settle(0.5)
        sim.note_record(w.entry, "end_of_history")

    w.run(driver)
    return w, sim, sweep_viol


# ====================================================================== oracle
def judge_table(table: dict, ref: dict, t: float, where: str) -> list:
    """The resolver's result table against the reference selection."""
    out = []
    sel = ref["sel"]
    for name in sorted(table):
        base = name
        got = table[name]
        if base in ref["open"]:
            continue
        if base in sel:
            exp = sel[base]
            if got in exp["alts"] or (exp["pinned"] and got != UNPINNED and same_version(got, exp["v"])):
                continue
            if exp["pinned"] and got == UNPINNED:
                kind = "unpinned_selected_despite_pin"
            elif exp["pinned"] and any(same_version(got, p) for p in exp["pins"]):
                kind = "lower_pin_selected"
            elif not exp["pinned"]:
                kind = "version_for_unpinned"
            else:
                kind = "other_version"
            out.append({"class": "C20.wrong_version", "sig": {"form": form_of(ref, base), "kind": kind},
                        "detail": f"{where}: package {base!r} resolved to {got!r}, expected {exp['v']!r} "
                                  f"(pins {exp['pins']}, unpinned entry: {exp['unpinned_too']})", "t": t})
            continue
        cls = ref["claims"].get(name)
        if cls is not None and cls["kind"] == "unsupported":
            out.append({"class": "C20.unsupported_specifier_not_ignored", "sig": {"form": cls["form"]},
                        "detail": f"{where}: line {cls['text']!r} is not ignored, it becomes a requirement "
                                  f"named {name!r} (version {got!r})", "t": t})
        elif cls is not None:
            continue  # malformed line handed on literally: don't-care
        else:
            out.append({"class": "C20.wrong_version", "sig": {"form": "none", "kind": "unrequested_package"},
                        "detail": f"{where}: {name!r} -> {got!r} is in the result but no line asks for it", "t": t})
    for base in sorted(sel):
        if base in ref["open"] or base in table:
            continue
        out.append({"class": "C20.wrong_version", "sig": {"form": form_of(ref, base), "kind": "missing"},
                    "detail": f"{where}: package {base!r} (expected {sel[base]['v']!r}) is missing from the result",
                    "t": t})
    return out


def _split_req(req: str) -> tuple[str, str | None]:
    if "==" in req:
        name, ver = req.split("==", 1)
        return name, ver
    return req, None


def judge_run(rec: dict, ref: dict, universe: list[str], tainted: set, probe, open_ever: set | None = None) -> list:
    """One run of install_requirements against the property."""
    out = []
    t = rec["t"]
    k = rec["k"]
    sel = ref["sel"]
    where = f"run {k} ({rec['how']})"
    tainted |= ref["open"]
    if open_ever is None:
        open_ever = set()
    open_ever |= ref["open"]
    # a run that overlapped with another one had neither the installed packages nor the record for itself: what
    # it resolved, whether it was allowed to install and what it asked the installer for are judged here, who
    # owns what and the record are judged for the group as a whole (judge_group)
    exclusive = not rec.get("overlapped")
    # the setting as the run found it; a run that overlapped with a reload may have begun before that reload
    # re-read the configuration: then what counts is the setting at the moment(s) it called the installer
    allow = rec["allow"]
    if not exclusive and rec.get("allow_at_call"):
        allow = all(rec["allow_at_call"])
    pip_failed = list(rec.get("pip_failed") or [])
    failed_pkgs = {_split_req(r)[0] for r in pip_failed}
    if pip_failed:
        probe("installer_failed")
        if rec["installed"]:
            probe("installer_failed_partially")
        probe("run_raised_on_failed_install" if rec["exc"] else "run_continued_after_failed_install")
    if _failed_install_exc(rec):
        # the installer reported a failure and install_requirements passed it on: whether a failed installation
        # stops the run is not stated, so raising or not is don't-care; the record is judged below in any case
        pass
    elif rec["exc"] and bool(open_ever):
        # a run that raises because of a '==' pin that is not a PEP 440 version: the property does not say what
        # has to happen with such a line, so this is don't-care (counted, not judged)
        probe("run_raised_on_nonpep440_pin")
    elif rec["exc"]:
        has_np = bool(open_ever)  # a non-PEP-440 pin in this or an earlier run of the history
        out.append({"class": "C20.run_failed", "sig": {"where": "install_requirements", "exc": rec["exc_type"],
                                                       "nonpep440_pin": has_np},
                    "detail": f"{where}: install_requirements raised {rec['exc']} with files {rec['disk']}, "
                              f"installed {rec['table_before']}, record {rec['record_before']}", "t": t})
    if rec["resolved"] is not None:
        out.extend(judge_table(rec["resolved"], ref, t, where))
    elif not rec["exc"]:
        raise HarnessError("process_all_requirements was not called in a run")
    flat = [r for call in rec["calls"] for r in call]
    before = rec["table_before"]
    # ---- installer calls
    if not allow:
        if sel or ref["open"]:
            probe("allow_false_with_requirements")
        for name, exp in sel.items():
            have = before.get(name)
            if exclusive and name not in ref["open"] and name not in tainted and have is not None \
                    and have[1] == "pyscript" and exp["pinned"] and not same_version(have[0], exp["v"]):
                probe("allow_false_own_package_pin_differs")
        # (a run during which the setting was switched on - a reload re-read the configuration while the run was
        # suspended - reads it after its first suspension and may install: found in the thorough tier)
        if flat and rec.get("allow_end", rec["allow"]) == rec["allow"]:
            out.append({"class": "C20.installed_when_not_allowed", "sig": {},
                        "detail": f"{where}: allow_all_imports is false but the installer was called with {flat}",
                        "t": t})
    if rec.get("allow_expected") is False and allow and flat:
        # UI entry: the user's setting is off, yet the run found it on (docs: the yaml values are ignored then)
        out.append({"class": "C20.installed_when_not_allowed", "sig": {"ui_setting": "not_in_effect"},
                    "detail": f"{where}: allow_all_imports is off in the UI (the entry was configured there) but the "
                              f"config entry says on and the installer was called with {flat}", "t": t})
    called: dict[str, str | None] = {}
    for req in flat:
        name, ver = _split_req(req)
        called[name] = ver
        if name in ref["open"] or name in tainted and name not in sel:
            continue
        if name in sel:
            exp = sel[name]
            if not allow:
                continue
            if exp["pinned"] and not (ver is not None and same_version(ver, exp["v"])):
                out.append({"class": "C20.wrong_version", "sig": {"form": form_of(ref, name), "kind": "installer_arg"},
                            "detail": f"{where}: installer got {req!r}, the highest pin is {exp['v']!r}", "t": t})
            elif not exp["pinned"] and ver is not None:
                out.append({"class": "C20.wrong_version", "sig": {"form": form_of(ref, name), "kind": "installer_arg"},
                            "detail": f"{where}: installer got {req!r} for an unpinned requirement", "t": t})
            if not exclusive:
                continue
            have = before.get(name)
            if have is not None and have[1] == "pyscript" and name in failed_pkgs:
                probe("install_failed_for_own_update")
            if have is None and name in failed_pkgs:
                probe("install_failed_for_missing_pin" if exp["pinned"] else "install_failed_for_missing_unpinned")
            elif have is None:
                probe("missing_package_installed")
                if not exp["pinned"]:
                    probe("unpinned_installed_from_index")
            elif have[1] == "host":
                out.append({"class": "C20.foreign_package_touched",
                            "sig": {"pinned": exp["pinned"], "recorded": name in rec["record_before"]},
                            "detail": f"{where}: {name!r} {have[0]} was installed by the host (record before the run: "
                                      f"{rec['record_before'].get(name)!r}) but the installer was called with {req!r}",
                            "t": t})
            elif exp["pinned"] and have[0] == exp["v"] and ver == exp["v"]:
                out.append({"class": "C20.unneeded_reinstall", "sig": {},
                            "detail": f"{where}: {name!r} {have[0]} was installed by pyscript and the pin is the same, "
                                      f"yet the installer was called with {req!r}", "t": t})
            continue
        cls = ref["claims"].get(req) or ref["claims"].get(name)
        if cls is not None and cls["kind"] == "unsupported":
            out.append({"class": "C20.unsupported_specifier_not_ignored", "sig": {"form": cls["form"]},
                        "detail": f"{where}: line {cls['text']!r} is not ignored: the installer was called with "
                                  f"{req!r}", "t": t})
            if cls.get("name"):
                tainted.add(cls["name"])  # pip got a requirement pyscript does not understand: state unknown
                rec.setdefault("pip_tainted", set()).add(cls["name"])
        elif cls is not None:
            continue
        elif allow:
            out.append({"class": "C20.unrequested_install", "sig": {},
                        "detail": f"{where}: installer called with {req!r}, which no requirement line asks for",
                        "t": t})
    # "must be installed / updated" is only demanded of a run for which the setting was on from its beginning to its
    # end (it reads the setting after its first suspension; found with VERIF_SEED=11: yaml switched off, a direct
    # call and a reload started together, the reload's import flow changed the entry while the call was suspended)
    allow_stable = rec.get("allow_end", rec["allow"]) == rec["allow"]
    if not allow_stable:
        probe("allow_changed_during_run")
    if allow and allow_stable and not rec["exc"] and exclusive:
        for name in sorted(sel):
            if name in ref["open"] or name in tainted:
                continue
            exp = sel[name]
            have = before.get(name)
            if have is None:
                if name not in called:
                    out.append({"class": "C20.not_installed", "sig": {"pinned": exp["pinned"]},
                                "detail": f"{where}: {name!r} is required ({exp['v']!r}), not installed, "
                                          f"allow_all_imports is set, but the installer was not called for it "
                                          f"(calls: {flat})", "t": t})
            elif have[1] == "pyscript":
                if not exp["pinned"]:
                    probe("own_package_unpinned")
                elif same_version(have[0], exp["v"]):
                    probe("own_package_pin_same")
                else:
                    probe("own_package_pin_differs")
                    if name not in called:
                        out.append({"class": "C20.own_package_not_updated", "sig": {},
                                    "detail": f"{where}: {name!r} {have[0]} was installed by pyscript, the pin is now "
                                              f"{exp['v']!r}, but the installer was not called for it", "t": t})
            else:
                probe("foreign_package_present")
                last = rec["last_py_before"].get(name)
                if last is not None and same_version(have[0], last):
                    # the host has the very version pyscript once installed (and knows it is not its own any more)
                    probe("foreign_package_at_version_pyscript_installed")
                    if exp["pinned"] and not same_version(exp["v"], have[0]):
                        probe("foreign_package_at_version_pyscript_installed_pin_differs")
    for req in rec["unparsable"]:
        tainted.add(_split_req(req)[0])
    if exclusive:
        out.extend(judge_record(rec, ref, universe, tainted, probe, where, {}))
    return out


def judge_record(rec: dict, ref: dict, universe: list[str], tainted: set, probe, where: str, sig_all: dict,
                 taint: bool = False) -> list:
    """'pyscript's record of what it installed always matches what it installed' over one interval in which nothing
    but pyscript touched the packages: a single run, or an overlap group from its start to the quiescent point
    after its last run (``sig_all`` marks the latter in the signature)."""
    out = []
    sel = ref["sel"]
    pip_failed = list(rec.get("pip_failed") or [])
    failed_pkgs = {_split_req(r)[0] for r in pip_failed}
    after = rec["table_after"]
    rec_after = rec["record_after"]
    for name in sorted(set(universe) | set(rec_after)):
        n_out = len(out)
        if name in tainted:
            continue
        if name not in universe:
            cls = ref["claims"].get(name)
            if cls is not None:
                continue
            out.append({"class": "C20.record_mismatch", "sig": {"kind": "unknown_key", **sig_all},
                        "detail": f"{where}: record holds {name!r}: {rec_after[name]!r}, which was never installed",
                        "t": rec["t_end"]})
            continue
        have = after.get(name)
        got = rec_after.get(name)
        unp = name in sel and not sel[name]["pinned"]
        sig_x: dict = {}
        note = ""
        if pip_failed:
            # an injected installer failure in this run: same rule, the signature tells the situations apart
            sig_x = {"installer": "failed_for_it" if name in failed_pkgs else
                     ("failed_for_another" if name in rec["installed"] else "failed")}
            note = f" [the installer failed for {pip_failed}, installed {rec['installed']}, run raised: {rec['exc']}]"
        if pip_failed and name in rec["installed"] and not same_version(got, have[0] if have else None):
            # pyscript installed this package in this run while the installation of another one failed, and its
            # record does not say so (no entry, or the stale entry of an earlier session): one signature; what it
            # does with the package in later runs is a consequence and not judged again
            out.append({"class": "C20.record_mismatch",
                        "sig": {"kind": "installed_but_not_recorded", **sig_x, **sig_all},
                        "detail": f"{where}: pyscript installed {name!r} {rec['installed'][name]} in this run but "
                                  f"the record after the run is {rec_after}{note}", "t": rec["t_end"]})
            tainted.add(name)
        elif have is not None and have[1] == "pyscript":
            if got is None:
                prev = rec["record_before"].get(name)
                if prev is not None and prev != have[0] and same_version(prev, have[0]):
                    # the entry was there and named the installed version in another spelling (1.0 / 1.0.0): its
                    # own signature; the package is dropped for good, so later runs are not judged for it again
                    sig_x = {**sig_x, "spelling": "record_and_installed_differ"}
                    note += f" [record before the run: {name!r}: {prev!r}]"
                    probe("record_spelling_differs_from_installed")
                    tainted.add(name)
                out.append({"class": "C20.record_mismatch",
                            "sig": {"kind": "missing", "unpinned": unp, **sig_x, **sig_all},
                            "detail": f"{where}: pyscript installed {name!r} {have[0]} (this run: "
                                      f"{name in rec['installed']}) but the record after the run is {rec_after}{note}",
                            "t": rec["t_end"]})
            elif not same_version(got, have[0]):
                out.append({"class": "C20.record_mismatch",
                            "sig": {"kind": "wrong_version", "unpinned": unp, **sig_x, **sig_all},
                            "detail": f"{where}: pyscript installed {name!r} {have[0]} but records {got!r}{note}",
                            "t": rec["t_end"]})
        elif got is not None:
            last = rec["last_py_before"].get(name)
            if name not in rec["record_before"]:
                out.append({"class": "C20.record_mismatch",
                            "sig": {"kind": "invented", "unpinned": unp, **sig_x, **sig_all},
                            "detail": f"{where}: {name!r} (installed: {have}) is not pyscript's, yet it appears in the "
                                      f"record as {got!r}{note}", "t": rec["t_end"]})
            elif last is None or not same_version(got, last):
                out.append({"class": "C20.record_mismatch",
                            "sig": {"kind": "never_installed_that", "unpinned": unp, **sig_x, **sig_all},
                            "detail": f"{where}: record says {name!r} {got!r}; pyscript last installed {last!r}{note}",
                            "t": rec["t_end"]})
        if taint and len(out) > n_out:
            tainted.add(name)  # what later runs do with this package is a consequence
    return out


def judge_group(grp: dict, runs: list[dict], universe: list[str], tainted: set, probe) -> list:
    """Overlapping runs, judged at the quiescent point after the last of them has ended (conservation): every
    package the installer installed for pyscript is in the record with the installed version, nothing else is
    claimed, and nothing the host owned at the start was changed.  Nothing but pyscript touches the packages
    between the start of the group and that point."""
    recs = [runs[k] for k in grp["runs"]]
    ref = resolve(recs[-1]["lines"])
    for rec in recs:
        ref["claims"].update({k: v for k, v in resolve(rec["lines"])["claims"].items() if k not in ref["claims"]})
    installed: dict = {}
    pip_failed: list = []
    for rec in recs:
        installed.update(rec["installed"])
        pip_failed.extend(r for r in rec["pip_failed"] if r not in pip_failed)
    excs = [f"run {r['k']}: {r['exc']}" for r in recs if r["exc"]]
    whole = {"t": grp["t"], "t_end": grp["t_end"], "table_before": grp["table_before"],
             "table_after": grp["table_after"], "record_before": grp["record_before"],
             "record_after": grp["record_after"], "last_py_before": grp["last_py_before"],
             "installed": installed, "pip_failed": pip_failed, "exc": "; ".join(excs) or None}
    mode = "installer sessions side by side" if grp["serial"] is False else "one installer session at a time"
    story = "; ".join(f"run {r['k']} ({r['how']}) {r['t']}-{r['t_end']} s read {r['files']} called {r['calls']} "
                      f"record after it {r['record_after']}" for r in recs)
    where = f"overlapping runs {grp['runs']} ({mode}; {story}), at the quiescent point after them"
    sig_all = {"overlap": True}
    out = []
    if installed:
        probe("overlap_cluster_installed_package")
    if grp["record_after"] != grp["record_before"]:
        probe("overlap_cluster_changed_record")
    for name in sorted(installed):
        had = grp["table_before"].get(name)
        if name in tainted or name not in universe or had is None or had[1] != "host":
            continue
        out.append({"class": "C20.foreign_package_touched",
                    "sig": {"recorded": name in grp["record_before"], **sig_all},
                    "detail": f"{where}: {name!r} {had[0]} was installed by the host (record before: "
                              f"{grp['record_before'].get(name)!r}) and pyscript's installer changed it to "
                              f"{installed[name]!r}", "t": grp["t_end"]})
        tainted.add(name)
    out.extend(judge_record(whole, ref, universe, tainted, probe, where, sig_all, taint=True))
    return out


def judge_drift(ev: dict, universe: list[str], tainted: set, probe) -> list:
    """The record changed while no run of install_requirements was in progress (options dialog, yaml import, ...).

    Nothing is installed outside a run, so a record that matched what pyscript installed cannot match any more,
    and a version that appears in it was not installed by pyscript.  Stale entries (package changed or removed
    externally since) stay don't-care.
    """
    out = []
    probe("record_changed_outside_a_run")
    for name in sorted(set(ev["old"]) | set(ev["new"])):
        if name in tainted or name not in universe:
            continue
        old, new = ev["old"].get(name), ev["new"].get(name)
        if old == new:
            continue
        have = ev["table"].get(name)
        how = "lost" if new is None else ("invented" if old is None else "changed")
        owned = have is not None and have[1] == "pyscript" and same_version(old, have[0])
        if owned and not same_version(new, have[0]):
            why = f"pyscript installed {name!r} {have[0]} and the record said so"
        elif new is not None and not same_version(new, old) and not same_version(new, ev["last_py"].get(name)):
            why = f"pyscript last installed {name!r} {ev['last_py'].get(name)!r}"
        else:
            continue
        out.append({"class": "C20.record_mismatch",
                    "sig": {"kind": "changed_outside_a_run", "how": how, "via": ev["via"]},
                    "detail": f"before run {ev['before_run']}: {why}; after {ev['via']} (no run of "
                              f"install_requirements in between) the record is {ev['new']} (was {ev['old']}, "
                              f"installed: {ev['table']})", "t": ev["t"]})
        tainted.add(name)  # what later runs do with this package is a consequence
    return out


def judge_history(w: "ReqWorld", sim: PkgSim, scn: dict) -> tuple[list, dict]:
    universe = list(scn["spec"]["pkgs"])
    tainted: set = set()
    open_ever: set = set()
    out = []
    stats = {"allowed_runs_with_reqs": 0, "competing": 0, "installer_reqs": 0, "multi_file": 0}
    prev_sel = None
    for rec in sim.runs + [None]:
        for ev in sim.drifts:
            if ev["before_run"] == (len(sim.runs) if rec is None else rec["k"]):
                out.extend(judge_drift(ev, universe, tainted, w.probe))
        if rec is None:
            break
        ref = resolve(rec["lines"])
        sel = ref["sel"]
        out.extend(judge_run(rec, ref, universe, tainted, w.probe, open_ever))
        for grp in sim.clusters:
            if grp["runs"][-1] == rec["k"]:
                out.extend(judge_group(grp, sim.runs, universe, tainted, w.probe))
        stats["installer_reqs"] += sum(len(c) for c in rec["calls"])
        if rec["allow"] and sel:
            stats["allowed_runs_with_reqs"] += 1
        if len(rec["files"]) >= 2:
            stats["multi_file"] += 1
        if not rec["lines"]:
            w.probe("no_requirements_at_all")
        # reach probes of the workload
        per_file: dict[str, set] = {}
        for path, lines in rec["files"].items():
            for ln in lines:
                cls = classify(ln)
                if cls["kind"] in ("pin", "unpinned"):
                    per_file.setdefault(cls["name"], set()).add(path)
                elif cls["kind"] == "unsupported":
                    w.probe("unsupported_specifier_line")
                elif cls["kind"] == "nonpep440":
                    w.probe("nonpep440_pin")
                elif cls["kind"] == "malformed":
                    w.probe("malformed_line")
                elif cls["kind"] == "comment" and "==9.9" in ln:
                    w.probe("comment_hides_higher_pin")
                if cls["kind"] in ("pin", "unpinned") and "==9.9" in ln:
                    w.probe("comment_hides_higher_pin")
                if cls["kind"] in ("pin", "unpinned") and any(ch in ln for ch in ",<>~!"):
                    w.probe("inline_comment_with_specifier_chars")  # the requirement itself has none of them
        if any(len(v) >= 2 for v in per_file.values()):
            w.probe("same_pkg_in_two_files")
        for name, exp in sel.items():
            if not exp["pinned"]:
                w.probe("unpinned_only")
            if exp["pinned"] and exp["unpinned_too"]:
                w.probe("pin_and_unpinned_same_pkg")
            if exp["n_pins"] >= 2 or (exp["pinned"] and exp["unpinned_too"]):
                stats["competing"] += 1
            if len(exp["alts"]) > 1:
                w.probe("equal_versions_different_spelling")
            if exp["n_distinct"] >= 2:
                vs = sorted({Version(v) for v in exp["pins"]})
                if max(exp["pins"]) != str(max(vs)) and not same_version(max(exp["pins"]), str(max(vs))):
                    w.probe("numeric_vs_lexical_order")
                if any(v.is_prerelease or v.is_postrelease for v in vs):
                    w.probe("prerelease_or_post_pin")
            if prev_sel is not None and name in prev_sel and prev_sel[name]["pinned"] and exp["pinned"] \
                    and not same_version(prev_sel[name]["v"], exp["v"]):
                w.probe("pin_changed_between_runs")
        prev_sel = sel
    return out, stats


def compare_worlds(wa, sima, wb, simb) -> list:
    """Same history, other file/line/listing order: everything observable must be identical.

    Version spelling (1.0 / 1.0.0) is not a difference.  Packages for which an unsupported specifier reached the
    installer (already reported) are left out of the installer/record comparison from then on: what pip makes
    of two conflicting requirements depends on the order of its argument list.
    """
    out = []
    skip: set = set()
    for ra, rb in zip(sima.runs, simb.runs):
        ref = resolve(ra["lines"])
        skip |= ra.get("pip_tainted", set()) | rb.get("pip_tainted", set())
        if ra["visited"] != rb["visited"] or ra["disk"] != rb["disk"]:
            wa.probe("worlds_visit_order_differs")
        fa = sorted(canon_req(r) for c in ra["calls"] for r in c if _split_req(r)[0] not in skip)
        fb = sorted(canon_req(r) for c in rb["calls"] for r in c if _split_req(r)[0] not in skip)
        reca = {k: canon_v(v) for k, v in sorted(ra["record_after"].items()) if k not in skip}
        recb = {k: canon_v(v) for k, v in sorted(rb["record_after"].items()) if k not in skip}
        diffs = []
        if canon_table(ra["resolved"]) != canon_table(rb["resolved"]):
            ta, tb = canon_table(ra["resolved"]) or {}, canon_table(rb["resolved"]) or {}
            names = sorted(k for k in set(ta) | set(tb) if ta.get(k) != tb.get(k))
            diffs.append(("resolved table", names[0] if names else "?", ra["resolved"], rb["resolved"]))
        lone = not ra.get("overlapped") and not rb.get("overlapped")
        if ra.get("overlapped") != rb.get("overlapped") and not diffs:
            raise HarnessError("a run overlapped with another one in one world only without an observable difference")
        if fa != fb and lone:
            names = sorted({_split_req(r)[0] for r in set(fa) ^ set(fb)})
            diffs.append(("installer calls", names[0] if names else "?", fa, fb))
        if reca != recb and lone:
            names = sorted(k for k in set(reca) | set(recb) if reca.get(k) != recb.get(k))
            diffs.append(("record", names[0], ra["record_after"], rb["record_after"]))
        ga = [g for g in sima.clusters if g["runs"][-1] == ra["k"]]
        gb = [g for g in simb.clusters if g["runs"][-1] == rb["k"]]
        if ga and gb and not diffs:
            # overlapping runs: what was asked of the installer by all of them together and the record at the
            # quiescent point after them
            ka, kb = ga[0]["runs"], gb[0]["runs"]
            fa = sorted(canon_req(r) for k in ka for c in sima.runs[k]["calls"] for r in c
                        if _split_req(r)[0] not in skip)
            fb = sorted(canon_req(r) for k in kb for c in simb.runs[k]["calls"] for r in c
                        if _split_req(r)[0] not in skip)
            reca = {k: canon_v(v) for k, v in sorted(ga[0]["record_after"].items()) if k not in skip}
            recb = {k: canon_v(v) for k, v in sorted(gb[0]["record_after"].items()) if k not in skip}
            if set(fa) != set(fb):
                names = sorted({_split_req(r)[0] for r in set(fa) ^ set(fb)})
                diffs.append(("installer calls of the overlapping runs", names[0] if names else "?", fa, fb))
            if reca != recb:
                names = sorted(k for k in set(reca) | set(recb) if reca.get(k) != recb.get(k))
                diffs.append(("record after the overlapping runs", names[0], ga[0]["record_after"],
                              gb[0]["record_after"]))
        if bool(ra["exc"]) != bool(rb["exc"]):
            diffs.append(("outcome", sorted(ref["open"])[0] if ref["open"] else "?", ra["exc"], rb["exc"]))
        if diffs:
            what, name, va, vb = diffs[0]
            out.append({"class": "C20.order_dependent", "sig": {"form": form_of(ref, name)},
                        "detail": f"run {ra['k']} ({ra['how']}): {what} differs for {name!r} between two orders of the "
                                  f"same files/lines: [{_visit_text(ra['disk'], ra['visited'])}] -> {va!r}; "
                                  f"[{_visit_text(rb['disk'], rb['visited'])}] -> {vb!r}", "t": ra["t"]})
            break  # the histories have diverged; later differences are consequences
    if not out and len(sima.runs) != len(simb.runs):
        raise HarnessError("worlds ran a different number of runs without an observable difference")
    return out


# ====================================================================== entry points
def warmup() -> None:
    scn = gen(random.Random(1), "quick")
    scn["ops"] = [op for op in scn["ops"] if op["kind"] != "run"][:1]
    run(scn)
    # World.run ends with a full gc.collect(); with Home Assistant imported that scans ~1e6 long-lived objects
    # (0.16 s, 85 % of a run).  Freezing the heap that exists after the warm-up run takes those objects out of
    # the collector's view; garbage of later runs is still collected.  Has no effect on what a run observes.
    import gc

    gc.collect()
    gc.freeze()


def _tier_of(scn: dict) -> dict:
    return TIERS.get(scn["spec"].get("tier", "quick"), TIERS["quick"])


def run(scn: dict) -> dict:
    scn = copy.deepcopy(scn)
    normalize(scn)
    conf = _tier_of(scn)
    wa, sima, sweep_viol = run_world(scn, None, conf)
    wb, simb, _ = run_world(scn, scn["spec"]["order_b"], conf)
    va, stats = judge_history(wa, sima, scn)
    reach_a = dict(wa.reach)
    vb, _ = judge_history(wb, simb, scn)
    wa.reach = reach_a  # workload probes are counted once (world A); world B adds only its own seam probes
    for key in ("listing_order_changed_visit_order",):
        if wb.reach.get(key):
            wa.probe(key, wb.reach[key])
    cross = compare_worlds(wa, sima, wb, simb)
    violations = []
    seen = set()
    for viol in sorted(cross + sweep_viol + va + vb, key=lambda v: v.get("t", 0.0)):
        key = (viol["class"], json.dumps(viol["sig"], sort_keys=True))
        if key in seen:
            continue
        seen.add(key)
        violations.append(viol)
    wa.trace.append(["world_b", wb.digest(), len(simb.runs)])
    nontrivial = stats["allowed_runs_with_reqs"] >= 1 and (stats["multi_file"] >= 1 or stats["competing"] >= 1)
    extra = {
        "install_runs": len(sima.runs) + len(simb.runs),
        "installer_requirements": stats["installer_reqs"],
        "orderings_swept": sima.sweep_orderings,
        "sweeps": sima.sweeps,
        "installed_version_queries": sima.iv_calls + simb.iv_calls,
        "competing_packages": stats["competing"],
    }
    return base_result(wa, violations, nontrivial, extra)
