"""C12 - a @service exists exactly while declared and calls the current definition.

Workload: 1-3 script files whose 'life_<ctx>' service defines, redefines and deletes global @service functions at
run time (default name, explicit name, two names in one decorator, two decorators, supports_response
none/optional/only, the default name spelled with a capital letter, one name given twice); default names collide between contexts (ownership); ops define / redefine / delete /
edit+reload / unload / setup; calls with generated data after every op and, non-blocking, right before an op;
plus outgoing calls from a script to a recording service through every call form; some of them carry ordinary data
fields that merely share the NAME of a call option (context / blocking / return_response) without having its type.

Definitions in progress: 'define_racing' issues a definition without waiting for it (non-blocking service call) and,
a seeded 0-25 ms later, does something that stops or supersedes it: the script is edited and reloaded, the integration
is unloaded, the slot is deleted, or the slot is defined once more.  cfg["svc_params_delay_ms"] (sim/world.py) makes
the refresh of the service descriptions inside the start-up of a @service a real suspension point (legal: Home
Assistant loads descriptions through the executor), so the stop can land between "name registered" and "start-up
finished".

Doc strings: a definition may carry a doc string, from which pyscript builds the service description: plain text, a
'yaml' doc string that is a mapping (the documented form), an empty one, one that parses to plain text or to a list
(no description can be built from it: Home Assistant refuses it AFTER the name was registered) or one that does not
parse at all (refused before anything is registered).  In the same dimension: a @service function that also carries
@state_active but no trigger decorator, which pyscript reports as an error ('no_trigger').  What pyscript does with a function whose description cannot be
built is open (don't-care while that function is the declaring one); once it is redefined, deleted, reloaded away or
unloaded, its names are undeclared and must be gone.

File-level declarations: the script file itself (initial version and versions written by 'reload_ctx') may declare
slot functions at top level, in every form and with every doc string kind; editing them away + reload, deleting the
whole file + reload ('drop_file', restored by a later 'reload_ctx') and unload + set-up (file-level declarations come
back) are lifecycle ops like the run-time ones.  The file's own services life_<ctx> / out_<ctx> are judged too.

Definitions through a module: a script file may import a module of its own (modules/ma.py for ca.py ...); its life_<ctx>
service then has a second route ('via': 'mod') that calls the module's function life(), which defines / deletes the
slot functions in the MODULE's global context while the calling evaluation belongs to the file's context.  The module
is a context of its own in the reference model ('ma'): its default names collide with the files' (ownership), it stays
loaded when the importing file is edited + reloaded or deleted (only changed files and their importers are reloaded),
and an edit of the module reloads it and its importer.

Several declarers of one name: the form 'shared' gives both slot functions of a context the same explicit name, at run
time and (both at once) at file level.  The name exists while at least one of them is live and calling it runs the one
that was defined last (for file-level declarations: the one further down in the file).

Closely spaced lifecycle ops: 'reload_racing' is an edit + reload (waited for) followed 0-10 ms later by the next edit +
reload, an unload, the deletion of the file or an outgoing call; cfg["svc_desc_delays_ms"] (seam of this module) makes
Home Assistant's description loader, as pyscript calls it, take the k-th of a list of pauses for its k-th call, so the
start pass of the reloaded file (one start-up per decorated function) can still be suspended when the next op arrives,
and an outgoing call can be made while another task is refreshing the descriptions (also 'define_racing' + 'out').

'pre': in the same call of life(), before the definition, the script defines a function whose user decorator raises and
catches the exception.  At the end of every run the integration is unloaded and everything must be gone.

Findings of the unchanged code have their own violation classes (the run ends at the first of them, its
consequences are not judged) and a 'steer' coin keeps half of the runs away from their constructs:
C12.leak_after_description_failure (legacy: a definition that fails after its name was registered leaves it registered),
C12.file_level_name_redefined_at_run_time (default subsystem: owner recorded under the function's context name),
C12.handler_of_refused_definition_kept, C12.name_differing_in_case (both: bookkeeping keyed by the raw spelling),
C12.name_given_twice_released_once (legacy), C12.handler_of_removed_declarer_kept (both: the latest declarer of a shared
name is removed, Home Assistant keeps its handler; same root as C09-K2), C12.older_declarer_of_shared_name_ran (default
subsystem, file level: start pass in set order), C12.definition_after_failed_decorator_not_registered (both),
C12.outgoing_data_field_named_limit, C12.entity_method_call_lost_during_description_refresh (entity-method calls).

Oracle: a reference model of declared names, owners and latest generations.  Concurrent definitions/deletions of one
slot are put in the order in which the script reported them done (marks 'life'), a definition whose context was
reloaded/unloaded meanwhile is not declared by a loaded context any more, whenever it finishes.
"""

from __future__ import annotations

import copy
import functools
import gc
import random
import sys
import weakref

from ..common import base_result, gen_cfg
from ..world import World

PROPERTY = "C12"
LEVEL = "exploration"
RULE = (
    "seeded generation of <=18 lifecycle ops (define/redefine in 9 declaration forms, delete, reload, unload, setup) over "
    "2 slots x 1-3 contexts, service calls with generated data after every op and in flight during ops, definitions "
    "still in progress (0-25 ms old, start-up suspended 0/2/8 ms in the service-description refresh) when their script "
    "is reloaded / the integration unloaded / the slot deleted or defined again, and outgoing calls in 4 call forms, "
    "optionally with data fields named like a call option but of another type; definitions carry a doc string of 7 "
    "kinds (none / text / yaml mapping / yaml empty / yaml that is plain text / yaml that is a list / yaml that does "
    "not parse, 2-3 texts each) or, instead, @state_active without a trigger; file-level declarations of the slot functions in the initial file and in reloaded "
    "versions (edited away by the next reload), deletion of a whole script file + reload and its later restoration; "
    "a third of the files import a module of their own and route half of their define/delete ops through a function "
    "of that module (definitions live in the module's context, made by a call from the file's context; the module "
    "survives reloads of the file, an edit of the module reloads both); form 'shared' = one name declared by both slot "
    "functions of a context (run time, and both at once at file level); reload_racing = reload followed 0-10 ms later "
    "by reload / unload / file deletion / outgoing call, with the description loader taking per-call pauses from a "
    "seeded list of 2-5 values in {0,1,4,12} ms (40% of the runs; 25% use the constant 2/8 ms pause instead); 6% of "
    "the definitions come after a caught failing user decorator in the same call; outgoing calls may carry a data "
    "field named limit (never a number); every run ends with an unload after which nothing may remain; "
    "steer (half of the runs) keeps away from the constructs with a finding on record: legacy gets no definition that "
    "fails after registering (refused description, @state_active without trigger) and no name given twice, the "
    "default subsystem no run-time definition in the form the file declares for that slot at file level, no run "
    "the capital-letter spelling, no overlapping definitions one of which has a refused description, no 'shared' form; "
    "distinct = scenario digest; "
    "non-trivial = a service name changed hands between generations"
)
ASSUMPTIONS = [
    "a call that is in flight while its service is redefined may run either generation (exactly once)",
    "when a context fails to take a name owned by another context, what happens to the other names of the same "
    "function is don't-care; the owner's registration must be unaffected",
    "blocking/return_response/context are call options only with their documented types (bool / Context); a keyword "
    "of that name with a value of any other type (str, int, float, None, list) is an ordinary service data field and "
    "must be delivered like every other given keyword parameter ('exactly the given keyword parameters')",
    "a definition and a deletion/second definition of the same slot that overlap in time take effect in the order in "
    "which the script finished them (the statement following the def/del ran); a definition that is still in "
    "progress when its context is reloaded or unloaded belongs to no loaded context when it finishes",
    "a function whose doc string starts with 'yaml' but yields no service description (not a mapping, or not "
    "parseable) is legal Python; whether its names are registered while it is the declaring function is don't-care "
    "(also for another context that defines the same name meanwhile: who owns it is open until all of them are "
    "gone); once no live function of a loaded context declares a name it must not be registered, whatever the doc "
    "strings were",
    "Home Assistant folds service names to lower case, so 'pyscript.S0' and 'pyscript.s0' are one service name, "
    "for existence, for calling and for ownership",
    "a name given twice in one @service is declared once",
    "which of two script FILES wins a name both declare at file level depends on the load order, which is not "
    "documented: file-level declarations use the default-name form only in single-file scenarios",
    "a pyscript module is a global context of its own ('modules.NAME'): functions defined by one of its functions "
    "with 'global' live in the module's context whoever called it; per the reload rules of the documentation (only "
    "changed files and the files that import them are reloaded) the module and what it holds stay loaded when the "
    "importing script is edited + reloaded or deleted, and editing the module reloads the module and its importer",
    "when several live functions of one context declare one name, 'the most recent definition' is the one whose def "
    "statement was executed last (for declarations at file level: the one further down in the file); after that "
    "one is removed the most recent of the remaining declarers",
    "a keyword named limit with an int/float value is not generated: the documentation says the blocking timeout "
    "'limit' is no longer supported since HASS 2023.7, tests/test_state.py::test_service_call still expects the "
    "entity-method form to pass it on as a call option, and Home Assistant 2025.1 rejects it (TypeError) - what "
    "should happen is open; with a value of any other type it is an ordinary data field in every call form",
    "an outgoing call is judged the same whether or not another task of pyscript is refreshing the service "
    "descriptions at that moment (Home Assistant's description loader may suspend for any time; the seam delays it "
    "by 0-12 ms per call)",
    "a function definition whose user decorator raises is an ordinary Python exception the script may catch; "
    "definitions made afterwards by the same script code are declared like any other",
]
TIERS = {
    "quick": {"runs": 450, "chunk": 15},
    "thorough": {"runs": 20000, "chunk": 120, "chunk_timeout": 1800},
}
REACH_PROBES = ["name_changed_hands", "foreign_takeover_attempt", "call_in_flight_during_redefinition", "alias_form",
                "two_decorators_form", "response_returned", "deleted_then_called", "reload_dropped_runtime_definitions",
                "outgoing_entity_method", "outgoing_return_response", "two_calls_of_one_service_overlap",
                "outgoing_option_named_data_field", "definition_in_progress_when_stopped",
                "name_registered_by_definition_in_progress", "definition_in_progress_when_redefined_or_deleted",
                "slow_service_description_load", "doc_string_plain", "doc_string_yaml_mapping",
                "doc_string_yaml_not_a_mapping", "doc_string_yaml_unparseable", "description_refused_then_undeclared",
                "name_defined_elsewhere_while_undecided", "file_level_declaration", "file_level_declaration_edited_away",
                "file_level_declaration_back_after_setup", "script_file_deleted", "script_file_restored",
                "file_level_name_redefined_at_run_time", "definition_overlapped_by_refused_definition",
                "state_active_without_trigger", "name_declared_in_two_spellings", "name_given_twice_form",
                "defined_through_module_function", "module_definition_deleted",
                "module_definition_survived_reload_of_importing_file", "module_reloaded", "reload_followed_closely",
                "lifecycle_op_while_start_pass_suspended", "outgoing_call_during_description_refresh",
                "outgoing_data_field_named_limit", "shared_name_two_declarers",
                "shared_name_two_declarers_at_file_level", "latest_declarer_of_shared_name_removed",
                "definition_after_failed_decorator", "final_unload"]
SHRINK_LISTS = [["ops"]]

CTXS = ["ca", "cb", "cc"]
FORMS = ["default", "explicit", "two_names", "two_decorators", "optional", "only", "upper", "dup_names", "shared"]
# 'shared': one explicit name per context that BOTH slot functions can declare: two different live functions of one
# context declaring one service name ("at least one live function declares it"; the most recent definition runs)
# 'upper': the default name written with a capital letter (Home Assistant folds service names to lower case, so it IS
# the default name, also for ownership); 'dup_names': the same name twice in one decorator
RACE_THEN = ["reload_ctx", "reload_ctx", "unload", "unload", "delete", "define", "out", "out"]
# what follows closely on a reload whose start pass may still be suspended
RELOAD_THEN = ["reload_ctx", "reload_ctx", "unload", "unload", "drop_file", "out"]
# doc strings of a @service function: kind -> variants (the text between the triple quotes, first line first)
DOC_BODIES = {
    "text": [["blink the light named by who"], ["Sets n on the target.", "", "A longer explanation follows here."]],
    "yaml_map": [["yaml", "description: blink the light", "fields:", "  n:", "    description: a number", "    example: 3"],
                 ["yaml", "name: Blink", "description: blink it", "fields:", "  who:", "    description: target",
                  "    required: true"]],
    "yaml_empty": [["yaml"], ["yaml", "# nothing yet"]],
    # parses, but not to a mapping: no description can be built from it
    "yaml_text": [["yaml", "toggles the given light twice"], ["yaml based configuration is applied by this service"],
                  ["yaml", "42"]],
    "yaml_list": [["yaml", "- turn the light on", "- then off again"], ["yaml", "- n", "- who"]],
    # does not parse
    "yaml_broken": [["yaml", "description: [unclosed"], ["yaml", "description: x", "  fields: {"]],
    # not a doc string: the function carries @state_active but no trigger decorator, which pyscript reports as an error
    "no_trigger": [[]],
}
DOC_POOL = (["none"] * 12 + ["text"] * 2 + ["yaml_map"] * 2 + ["yaml_empty"] + ["yaml_text"] * 2 + ["yaml_list"] * 2 +
            ["yaml_broken", "no_trigger"])
SCHEMA_FAIL = ("yaml_text", "yaml_list")          # Home Assistant refuses the description after the name was registered
BAD_DOCS = SCHEMA_FAIL + ("yaml_broken", "no_trigger")   # the definition is reported as an error by pyscript
WHY_LEAK = {"yaml_text": "description_refused_after_registration", "yaml_list": "description_refused_after_registration",
            "yaml_broken": "doc_string_unparseable", "no_trigger": "state_active_without_trigger"}
TOP_GEN = 100                                     # generation number of a file-level definition = TOP_GEN + file version
# values for a data field that is merely NAMED like a call option: never of the option's own type
ODD_VALUES = {
    "context": ["kitchen", 7, None, ["hall"]],
    "blocking": ["later", 0, 1, None, 2.5],
    "return_response": ["yes", 0, 1, None],
    # 'limit' (the blocking timeout of old Home Assistant versions, "no longer supported" per the documentation) is
    # still split out by the entity-method form when it is an int or float - a pinned test expects that, the installed
    # Home Assistant refuses it: open, so never a number here; with any other type it is a data field like the others
    "limit": ["ten", None, True, [3]],
}


def is_mod(ctx: str) -> bool:
    """Model contexts 'ma'/'mb'/'mc' are the pyscript modules modules/ma.py ... imported by ca.py ..."""
    return ctx.startswith("m")


def host_of(ctx: str) -> str:
    """The script file through whose life_<ctx> service the definitions of a (module) context are driven."""
    return "c" + ctx[1:] if is_mod(ctx) else ctx


def mod_of(ctx: str) -> str:
    return "m" + ctx[1:]


def names_of(ctx: str, slot: int, form: str) -> list[str]:
    if form in ("default", "upper"):
        return [f"s{slot}"]
    if form == "dup_names":
        return [f"dup{slot}_{ctx}"]
    if form == "shared":
        return [f"sh_{ctx}"]
    if form == "explicit":
        return [f"x{slot}_{ctx}"]
    if form == "two_names":
        return [f"al{slot}_{ctx}", f"al{slot}b_{ctx}"]
    if form == "two_decorators":
        return [f"d{slot}_{ctx}", f"d{slot}b_{ctx}"]
    if form == "optional":
        return [f"opt{slot}_{ctx}"]
    return [f"only{slot}_{ctx}"]


def gen(rng: random.Random, tier: str) -> dict:
    cfg = gen_cfg(rng)
    cfg["drift"] = 0.0
    # the refresh of the service descriptions (State.get_service_params(): in the start-up of a @service of the default
    # subsystem, in pyscript.reload, after Home Assistant has started) is a real suspension point.  Two seams:
    # - svc_params_delay_ms (sim/world.py): every refresh is preceded by the same pause;
    # - svc_desc_delays_ms (this module): Home Assistant's description loader itself takes the k-th of these pauses for
    #   its k-th call (cyclic), i.e. refreshes take different times, as they do when other integrations register
    #   services meanwhile - so a reload/unload can arrive while the start pass of the previous load is still suspended
    cfg["svc_params_delay_ms"] = 0
    seam = rng.random()
    if seam < 0.25:
        cfg["svc_params_delay_ms"] = rng.choice([2.0, 8.0])
    elif seam < 0.65:
        cfg["svc_desc_delays_ms"] = [rng.choice([0, 0, 1.0, 4.0, 12.0]) for _ in range(rng.randint(2, 5))]
    ctxs = CTXS[: rng.randint(1, 3)]
    # script files that import a module of their own (modules/ma.py for ca.py ...) through whose function life() the
    # slot functions can be defined and deleted in the MODULE's global context, by a call coming from the file's context
    mods = [ctx for ctx in ctxs if rng.random() < 0.3]
    # half of the runs stay away from the construct with a finding on record (legacy subsystem: a doc string whose
    # description Home Assistant refuses leaves the name registered for ever)
    steer = rng.random() < 0.5
    avoid = steer and cfg["legacy"]
    # ... and from the other one (default subsystem: a run-time definition of a name the file also declares at file
    # level is refused as another context's, and the name is lost)
    avoid_over = steer and not cfg["legacy"]
    file_top: dict = {}   # ctx -> {slot: form} declared at file level by the file version on disk

    def gen_form(ctx, slot) -> str:
        form = steer_form(rng.choice(FORMS + ["default", "default", "shared"]))
        if avoid_over and file_top.get(ctx, {}).get(slot) == form:
            form = steer_form(rng.choice([f for f in FORMS if f != form]))
            if file_top.get(ctx, {}).get(slot) == form:
                form = "explicit" if form != "explicit" else "optional"
        return form

    def note_top(ctx, decls) -> list:
        file_top[ctx] = {d["slot"]: d["form"] for d in decls}
        return decls

    def steer_form(form: str) -> str:
        if steer and form == "upper":
            return "default"      # finding on record: names that differ only in case
        if avoid and form == "dup_names":
            return "two_names"    # finding on record (legacy): a name given twice is released once
        if steer and form == "shared":
            return "explicit"     # finding on record: the handler of a removed declarer of a shared name is kept
        return form

    def gen_doc() -> dict:
        doc = rng.choice(DOC_POOL)
        docv = rng.randrange(6)
        if doc == "none":
            return {}
        if avoid and doc in SCHEMA_FAIL + ("no_trigger",):
            doc = "yaml_broken" if docv % 2 else "yaml_map"
        return {"doc": doc, "docv": docv % len(DOC_BODIES[doc])}

    def gen_top() -> list:
        """File-level declarations of the slot functions (default names only where no other file can claim them)."""
        decls = []
        if not steer and rng.random() < 0.12:
            # both slot functions declare the same name at file level: the later one is the most recent definition
            return [{"slot": slot, "form": "shared", **gen_doc()} for slot in (0, 1)]
        for slot in (0, 1):
            if rng.random() < 0.4:
                form = steer_form(rng.choice(FORMS))
                if len(ctxs) > 1 and form in ("default", "upper"):
                    form = "explicit"
                decls.append({"slot": slot, "form": form, **gen_doc()})
        return decls

    def gen_out(ctx) -> dict:
        data = {"a": rng.randint(0, 9), "txt": rng.choice(["x", "y"])}
        flags = {}
        if rng.random() < 0.4:
            flags["blocking"] = rng.random() < 0.7
        if rng.random() < 0.3:
            flags["return_response"] = True
        if rng.random() < 0.2:
            flags["context"] = True
        form = rng.choice(["direct", "service_call", "entity_pos", "entity_kw"])
        if flags.get("return_response"):
            # Home Assistant only returns a response to a blocking call; the entity-method form documents
            # no implicit blocking, so it is always given there
            if form.startswith("entity") or "blocking" in flags:
                flags["blocking"] = True
        odd = {}
        if rng.random() < 0.4:
            # ordinary data fields that share the name of a call option (only where the option itself is not given)
            for key in rng.sample(sorted(ODD_VALUES), rng.choice([1, 1, 2, 3])):
                if key not in flags:
                    odd[key] = rng.choice(ODD_VALUES[key])
        return {"kind": "out", "ctx": ctx, "form": form, "data": data, "flags": flags, "odd": odd}

    def gen_pre() -> dict:
        # in the same call, before the definition: a function definition whose user decorator raises, caught by the script
        return {"pre": "bad_deco"} if rng.random() < 0.06 else {}

    top = {}
    for ctx in ctxs:
        if rng.random() < 0.3:
            top[ctx] = note_top(ctx, gen_top())
    ops = []
    restore: dict = {}    # ctx whose file was deleted -> ops until it is written again
    for _ in range(rng.randint(4, 18 if tier == "thorough" else 13)):
        for ctx in sorted(restore):
            restore[ctx] -= 1
            if restore[ctx] <= 0:
                del restore[ctx]
                ops.append({"kind": "reload_ctx", "ctx": ctx, "top": note_top(ctx, gen_top() if rng.random() < 0.5 else [])})
        roll = rng.random()
        ctx = rng.choice(ctxs)
        # where the slot functions live: the file's own global context, or (a quarter of the ops of a file that has
        # one) the module's
        dctx = mod_of(ctx) if ctx in mods and rng.random() < 0.5 else ctx
        if roll < 0.41:
            slot = rng.randint(0, 1)
            ops.append({"kind": "define", "ctx": dctx, "slot": slot, "form": gen_form(dctx, slot),
                        "inflight": rng.random() < 0.3, **gen_doc(), **gen_pre()})
        elif roll < 0.48:
            # a definition that is still in progress (issued, not awaited) when something stops or supersedes it
            then = rng.choice(RACE_THEN)
            slot = rng.randint(0, 1)
            op = {"kind": "define_racing", "ctx": dctx, "slot": slot,
                  "form": gen_form(dctx, slot), "then": then,
                  "form2": gen_form(dctx, slot),
                  "after_ms": rng.choice([0, 0.1, 0.4, 1, 3, 10, 25]), **gen_doc()}
            if then == "reload_ctx" and not is_mod(dctx):
                note_top(ctx, [])
            if then == "out":
                # an outgoing call of a script (this or another file) while the definition is in progress
                op["out"] = gen_out(rng.choice(ctxs))
            doc2 = gen_doc()
            if doc2:
                op["doc2"], op["docv2"] = doc2["doc"], doc2["docv"]
            if steer and then == "define":
                # (finding on record: the handler of a refused definition that overlapped another one stays)
                for key, keyv in (("doc", "docv"), ("doc2", "docv2")):
                    if op.get(key) in SCHEMA_FAIL:
                        op[key], op[keyv] = "yaml_broken", op[keyv] % len(DOC_BODIES["yaml_broken"])
            ops.append(op)
            if then == "unload":
                ops.append({"kind": "setup"})
        elif roll < 0.60:
            ops.append({"kind": "delete", "ctx": dctx, "slot": rng.randint(0, 1), "inflight": rng.random() < 0.3})
        elif roll < 0.67:
            if is_mod(dctx):
                # the module is edited: it and the file that imports it are reloaded
                ops.append({"kind": "reload_ctx", "ctx": dctx})
            else:
                ops.append({"kind": "reload_ctx", "ctx": ctx, "top": note_top(ctx, gen_top() if rng.random() < 0.5 else [])})
        elif roll < 0.715:
            # a reload closely followed by the next lifecycle op: the start pass of the reloaded file (one start-up per
            # decorated function, each of which may be suspended in the description refresh) can still be going on
            then = rng.choice(RELOAD_THEN)
            if ctx in restore:
                continue
            op = {"kind": "reload_racing", "ctx": ctx, "top": note_top(ctx, gen_top() if rng.random() < 0.6 else []),
                  "then": then, "after_ms": rng.choice([0, 0.1, 0.5, 1, 2, 5, 10])}
            if then == "reload_ctx":
                op["top2"] = note_top(ctx, gen_top() if rng.random() < 0.3 else [])
            if then == "out":
                op["out"] = gen_out(rng.choice(ctxs))
            ops.append(op)
            if then == "unload":
                ops.append({"kind": "setup"})
            if then == "drop_file":
                note_top(ctx, [])
                restore[ctx] = rng.randint(1, 4)
        elif roll < 0.78:
            # two calls of one service in flight at once, the first resumes while the second is still suspended
            naps = rng.choice([[0.2, 0.3], [0.3, 0.1], [0.2, 0.2], [0.4, 0.5]])
            ops.append({"kind": "overlap", "ctx": dctx, "slot": rng.randint(0, 1), "naps": naps, "gap": 0.1})
        elif roll < 0.83:
            ops.append({"kind": "unload"})
            ops.append({"kind": "setup"})
        elif roll < 0.87:
            # the whole script file is deleted and pyscript reloaded; a later reload_ctx writes it again
            if ctx not in restore:
                ops.append({"kind": "drop_file", "ctx": ctx})
                note_top(ctx, [])
                restore[ctx] = rng.randint(1, 4)
        else:
            ops.append(gen_out(ctx))
    # at the end of every run the integration is unloaded: nothing that pyscript registered may remain
    return {"cfg": cfg, "spec": {"ctxs": ctxs, "top": top, "steer": steer, "mods": mods, "final_unload": True}, "ops": ops}


def _def_block(ctx: str, slot: int, form: str, indent: str, doc: str = "none", docv: int = 0, gen_expr: str = "gen") -> list[str]:
    names = names_of(ctx, slot, form)
    fname = f"s{slot}"
    lines = []
    if form == "default":
        lines.append(f"{indent}@service")
    elif form == "upper":
        lines.append(f"{indent}@service('pyscript.S{slot}')")
    elif form == "dup_names":
        lines.append(f"{indent}@service('pyscript.{names[0]}', 'pyscript.{names[0]}')")
    elif form in ("explicit", "shared"):
        lines.append(f"{indent}@service('pyscript.{names[0]}')")
    elif form == "two_names":
        lines.append(f"{indent}@service('pyscript.{names[0]}', 'pyscript.{names[1]}')")
    elif form == "two_decorators":
        lines.append(f"{indent}@service('pyscript.{names[0]}')")
        lines.append(f"{indent}@service('pyscript.{names[1]}')")
    elif form == "optional":
        lines.append(f"{indent}@service('pyscript.{names[0]}', supports_response='optional')")
    else:
        lines.append(f"{indent}@service('pyscript.{names[0]}', supports_response='only')")
    if doc == "no_trigger":
        lines.append(f"{indent}@state_active('True')")
    lines.append(f"{indent}def {fname}(**kw):")
    if doc not in ("none", "no_trigger"):
        body = DOC_BODIES[doc][docv % len(DOC_BODIES[doc])]
        if len(body) == 1:
            lines.append(f'{indent}    """{body[0]}"""')
        else:
            lines.append(f'{indent}    """{body[0]}')
            lines += [f"{indent}    {ln}" if ln else "" for ln in body[1:]]
            lines.append(f'{indent}    """')
    lines.append(f"{indent}    sim.mark('svc', {ctx!r}, {slot}, {gen_expr}, {form!r}, **kw)")
    lines.append(f"{indent}    if kw.get('nap'):")
    lines.append(f"{indent}        task.sleep(kw['nap'])")
    lines.append(f"{indent}        sim.mark('svc_end', {ctx!r}, {slot}, {gen_expr}, {form!r}, **kw)")
    lines.append(f"{indent}    return {{'ctx': {ctx!r}, 'slot': {slot}, 'gen': {gen_expr}, 'n': kw.get('n')}}")
    return lines


def _doc_of(op: dict, second: bool = False) -> tuple:
    """(kind, variant) of the doc string of a definition op ('none' where the scenario predates doc strings)."""
    doc = op.get("doc2" if second else "doc") or "none"
    return doc, int(op.get("docv2" if second else "docv") or 0) if doc != "none" else 0


def _docs_used(scn: dict, ctx: str) -> list:
    """The (slot, form, doc, variant) combinations with a doc string that the ops define in ctx at run time."""
    used = set()
    for op in scn["ops"]:
        if op.get("ctx") != ctx or op["kind"] not in ("define", "define_racing"):
            continue
        doc, docv = _doc_of(op)
        if doc != "none":
            used.add((op["slot"], op["form"], doc, docv))
        if op["kind"] == "define_racing":
            doc, docv = _doc_of(op, True)
            if doc != "none":
                used.add((op["slot"], op["form2"], doc, docv))
    return sorted(used)


RAISING_DECO = ["def raising_deco(func):", "    raise ValueError('this decorator refuses every function')", ""]


def _life_body(ctx: str, docs=()) -> list[str]:
    """Body of the function that defines / deletes the slot functions in the global context it belongs to."""
    lines = ["    global s0, s1",
             "    if pre == 'bad_deco':",
             "        # a definition that fails in a user decorator; the script carries on",
             "        try:",
             "            @raising_deco",
             "            def victim():",
             "                pass",
             "        except ValueError:",
             f"            sim.mark('life', 'caught', {ctx!r}, slot, gen)"]
    for slot in (0, 1):
        for form in FORMS:
            lines.append(f"    if cmd == 'define' and slot == {slot} and form == {form!r}:")
            lines += _def_block(ctx, slot, form, "        ")
            lines.append(f"        sim.mark('life', 'defd', {ctx!r}, {slot}, gen)")
        for dslot, form, doc, docv in docs:
            if dslot != slot:
                continue
            lines.append(f"    if cmd == 'define:{doc}:{docv}' and slot == {slot} and form == {form!r}:")
            lines += _def_block(ctx, slot, form, "        ", doc, docv)
            lines.append(f"        sim.mark('life', 'defd', {ctx!r}, {slot}, gen)")
        lines.append(f"    if cmd == 'delete' and slot == {slot}:")
        lines.append(f"        del s{slot}")
        lines.append(f"        sim.mark('life', 'del', {ctx!r}, {slot}, None)")
    return lines


def _mod_src(mctx: str, version: int, docs=()) -> str:
    """modules/<mctx>.py: no service of its own; life() is called by the importing file's life_<ctx> service."""
    lines = [f"# module version {version}", ""] + RAISING_DECO
    lines += ["def life(cmd=None, slot=None, gen=None, form=None, pre=None):"]
    lines += _life_body(mctx, docs)
    return "\n".join(lines) + "\n"


def _ctx_src(ctx: str, version: int, docs=(), top=(), mod: bool = False) -> str:
    lines = [f"# version {version}", ""]
    if mod:
        lines += [f"import {mod_of(ctx)}", ""]
    lines += RAISING_DECO
    for decl in top:
        # file-level declaration of a slot function (the same global name the run-time definitions use)
        doc, docv = _doc_of(decl)
        lines += _def_block(ctx, decl["slot"], decl["form"], "", doc, docv, gen_expr=str(TOP_GEN + version))
        lines.append("")
    lines += ["@service", f"def life_{ctx}(cmd=None, slot=None, gen=None, form=None, pre=None, via=None):"]
    if mod:
        lines += ["    if via == 'mod':",
                  "        # the same, done by a function of the module in the module's global context",
                  f"        {mod_of(ctx)}.life(cmd, slot, gen, form, pre)",
                  "        return"]
    lines += _life_body(ctx, docs)
    lines += ["", "@service", f"def out_{ctx}(form=None, data=None, flags=None, odd=None):",
              "    kw = dict(data)",
              "    kw.update(odd or {})",
              "    if 'blocking' in flags:",
              "        kw['blocking'] = flags['blocking']",
              "    if 'return_response' in flags:",
              "        kw['return_response'] = True",
              "    if 'context' in flags:",
              "        kw['context'] = sim.get('make_context')()",
              "    if form == 'direct':",
              "        ret = test.record(**kw)",
              "    elif form == 'service_call':",
              "        ret = service.call('test', 'record', **kw)",
              "    elif form == 'entity_pos':",
              "        kw.pop('a')",
              "        kw.pop('txt')",
              "        ret = test.e1.record_one(data['a'], **kw)",
              "    else:",
              "        ret = test.e1.record(**kw)",
              f"    sim.mark('out', {ctx!r}, form, ret=ret)",
              ""]
    return "\n".join(lines) + "\n"


def _cmd_of(doc: str, docv: int) -> str:
    return "define" if doc == "none" else f"define:{doc}:{docv}"


def render(scn: dict) -> dict:
    top = scn["spec"].get("top") or {}
    mods = scn["spec"].get("mods") or []
    files = {f"pyscript/{ctx}.py": _ctx_src(ctx, 0, _docs_used(scn, ctx), top.get(ctx) or [], ctx in mods)
             for ctx in scn["spec"]["ctxs"]}
    for ctx in mods:
        files[f"pyscript/modules/{mod_of(ctx)}.py"] = _mod_src(mod_of(ctx), 0, _docs_used(scn, mod_of(ctx)))
    return files


def normalize(scn: dict) -> dict | None:
    ctxs = scn["spec"]["ctxs"]
    mods = scn["spec"]["mods"] = [ctx for ctx in scn["spec"].get("mods") or [] if ctx in ctxs]
    known = set(ctxs) | {mod_of(ctx) for ctx in mods}
    scn["ops"] = [op for op in scn["ops"] if op.get("ctx", ctxs[0]) in known and
                  (op.get("out") or {}).get("ctx", ctxs[0]) in ctxs]
    return scn


def simplify(scn: dict):
    # file-level declarations off / one by one / without doc string
    top = scn["spec"].get("top") or {}
    for ctx in sorted(top):
        if top[ctx]:
            cand = copy.deepcopy(scn)
            cand["spec"]["top"][ctx] = []
            yield cand
            for j, decl in enumerate(top[ctx]):
                if len(top[ctx]) > 1:
                    cand = copy.deepcopy(scn)
                    del cand["spec"]["top"][ctx][j]
                    yield cand
                if decl.get("doc"):
                    cand = copy.deepcopy(scn)
                    cand["spec"]["top"][ctx][j].pop("doc")
                    yield cand
    if len(scn["spec"]["ctxs"]) > 1:
        used = {op.get("ctx") for op in scn["ops"]}
        for ctx in scn["spec"]["ctxs"]:
            if ctx not in used:
                cand = copy.deepcopy(scn)
                cand["spec"]["ctxs"].remove(ctx)
                yield cand
    for ctx in scn["spec"].get("mods") or []:
        # without the module: its ops act on the file's own context instead / are dropped
        cand = copy.deepcopy(scn)
        cand["spec"]["mods"].remove(ctx)
        for op in cand["ops"]:
            if op.get("ctx") == mod_of(ctx):
                op["ctx"] = ctx
                if op["kind"] == "reload_ctx":
                    op["top"] = []
        yield cand
    if scn["spec"].get("final_unload"):
        cand = copy.deepcopy(scn)
        cand["spec"]["final_unload"] = False
        yield cand
    for i, op in enumerate(scn["ops"]):
        if op.get("inflight"):
            cand = copy.deepcopy(scn)
            cand["ops"][i]["inflight"] = False
            yield cand
        if op.get("pre"):
            cand = copy.deepcopy(scn)
            cand["ops"][i].pop("pre")
            yield cand
        if is_mod(op.get("ctx", "")) and op["kind"] != "reload_ctx":
            cand = copy.deepcopy(scn)
            cand["ops"][i]["ctx"] = host_of(op["ctx"])
            yield cand
        if op["kind"] == "reload_racing":
            # the two ops one after the other, each waited for
            cand = copy.deepcopy(scn)
            plain = [{"kind": "reload_ctx", "ctx": op["ctx"], "top": op.get("top") or []}]
            if op["then"] == "reload_ctx":
                plain.append({"kind": "reload_ctx", "ctx": op["ctx"], "top": op.get("top2") or []})
            elif op["then"] == "out":
                plain.append(op["out"])
            else:
                plain.append({"kind": op["then"], "ctx": op["ctx"]})
            cand["ops"][i:i + 1] = plain
            yield cand
            for key in ("top", "top2"):
                if op.get(key):
                    cand = copy.deepcopy(scn)
                    cand["ops"][i][key] = []
                    yield cand
            if op["after_ms"]:
                cand = copy.deepcopy(scn)
                cand["ops"][i]["after_ms"] = 0
                yield cand
        for key in ("doc", "doc2"):
            if op.get(key):
                # no doc string / the first text of its kind
                cand = copy.deepcopy(scn)
                cand["ops"][i].pop(key)
                yield cand
                if op.get(key.replace("doc", "docv")):
                    cand = copy.deepcopy(scn)
                    cand["ops"][i][key.replace("doc", "docv")] = 0
                    yield cand
        if op["kind"] == "reload_ctx" and op.get("top"):
            cand = copy.deepcopy(scn)
            cand["ops"][i]["top"] = []
            yield cand
            for j, decl in enumerate(op["top"]):
                if len(op["top"]) > 1:
                    cand = copy.deepcopy(scn)
                    del cand["ops"][i]["top"][j]
                    yield cand
                if decl.get("doc"):
                    cand = copy.deepcopy(scn)
                    cand["ops"][i]["top"][j].pop("doc")
                    yield cand
        if op["kind"] == "drop_file":
            # an edit + reload of the file instead of its deletion
            cand = copy.deepcopy(scn)
            cand["ops"][i] = {"kind": "reload_ctx", "ctx": op["ctx"], "top": []}
            yield cand
        if op["kind"] == "define_racing":
            # an ordinary, awaited definition instead (followed by the plain form of what came after it)
            cand = copy.deepcopy(scn)
            plain = [{"kind": "define", "ctx": op["ctx"], "slot": op["slot"], "form": op["form"], "inflight": False}]
            if op.get("doc"):
                plain[0].update({"doc": op["doc"], "docv": op.get("docv", 0)})
            if op["then"] == "define":
                plain.append({"kind": "define", "ctx": op["ctx"], "slot": op["slot"], "form": op["form2"], "inflight": False})
                if op.get("doc2"):
                    plain[1].update({"doc": op["doc2"], "docv": op.get("docv2", 0)})
            elif op["then"] == "unload":
                plain.append({"kind": "unload"})
            elif op["then"] == "out":
                plain.append(op["out"])
            elif op["then"] == "reload_ctx" and is_mod(op["ctx"]):
                plain.append({"kind": "reload_ctx", "ctx": op["ctx"]})
            else:
                plain.append({"kind": op["then"], "ctx": op["ctx"], "slot": op["slot"], "inflight": False})
            cand["ops"][i:i + 1] = plain
            yield cand
            if op["after_ms"]:
                cand = copy.deepcopy(scn)
                cand["ops"][i]["after_ms"] = 0
                yield cand
            if op["form"] != "default":
                cand = copy.deepcopy(scn)
                cand["ops"][i]["form"] = "default"
                yield cand
        out = op if op["kind"] == "out" else op.get("out")
        if out and out.get("odd"):
            def with_odd(odd):
                cand = copy.deepcopy(scn)
                (cand["ops"][i] if op["kind"] == "out" else cand["ops"][i]["out"])["odd"] = odd
                return cand

            yield with_odd({})
            if len(out["odd"]) > 1:
                for key in sorted(out["odd"]):
                    yield with_odd({key: out["odd"][key]})
    delays = scn["cfg"].get("svc_desc_delays_ms") or []
    if len(delays) > 1:
        for j in range(len(delays)):
            if delays[j]:
                cand = copy.deepcopy(scn)
                cand["cfg"]["svc_desc_delays_ms"][j] = 0
                yield cand
    for key, val in (("timer_late_ms", 0.0), ("cost_us", 50), ("exec_latency_ms", [0.0, 0.0]), ("set_order_salt", 0),
                     ("svc_params_delay_ms", 0), ("svc_desc_delays_ms", [])):
        if (scn["cfg"].get(key) or val) != val:
            cand = copy.deepcopy(scn)
            cand["cfg"][key] = val
            yield cand


def warmup() -> None:
    scn = gen(random.Random(2), "quick")
    scn["ops"] = scn["ops"][:2]
    run(scn)


_LAST_HASS: list = []   # weak reference to the hass of the run that has just finished (harness bookkeeping only)


def run(scn: dict) -> dict:
    res = _run(scn)
    _release_finished_world()
    return res


def _release_finished_world() -> None:
    """Free what the finished world holds NOW, while pyscript's class-level references are reset.

    A registration that pyscript leaks (the subject of this module) keeps its function object alive past the end of
    the world; World.run's final gc.collect() cannot free it because the world is still referenced from _run's frame,
    and afterwards the finished hass stays pinned by process-wide references until the next set-up replaces them.
    Freed later - by gc_now() of the NEXT run in this worker process - the function's finaliser (EvalFuncVar.__del__
    -> trigger_stop -> Function.service_remove) would remove the equally named service of that next run.
    """
    try:
        from custom_components.pyscript.decorator import DecoratorRegistry
        from custom_components.pyscript.decorator_abc import DecoratorManager
        from custom_components.pyscript.trigger import TrigTime

        for cls in (DecoratorManager, DecoratorRegistry, TrigTime):
            cls.hass = None   # (class attributes that World's reset leaves; set again by the next set-up)
    except Exception:  # pylint: disable=broad-except
        pass
    try:
        from homeassistant import core as ha_core
        from pytest_homeassistant_custom_component import common as ha_test_common

        ha_core._hass.hass = None
        del ha_test_common.INSTANCES[:]
    except Exception:  # pylint: disable=broad-except
        pass
    # the default subsystem registers a weakref.finalize per decorated function whose callback (through its manager,
    # the script context and the global symbol table) references the function variable itself: such a variable is never
    # freed and pins its whole world.  The world is finished: drop those callbacks.
    registry = getattr(weakref.finalize, "_registry", {})
    for fin in list(registry):
        info = registry.get(fin)
        if info is not None and getattr(info.func, "__name__", "") == "on_func_var_deleted":
            fin.detach()
    fin = info = None
    hook = sys.unraisablehook
    sys.unraisablehook = lambda _unraisable: None   # the finalisers find no hass any more: nothing to report
    try:
        ref = _LAST_HASS.pop() if _LAST_HASS else None
        for attempt in (0, 1):
            # Home Assistant keeps per-hass singletons (registries, translation cache ...) in lru_caches keyed by hass
            for cache in _ha_caches(refresh=bool(attempt)):
                cache.cache_clear()
            gc.collect()
            if ref is None or ref() is None:
                break
            if attempt == 0:
                # some other class attribute is the finished hass: reset it too
                for holder in gc.get_referrers(ref()):
                    if isinstance(holder, dict):
                        for owner in gc.get_referrers(holder):
                            if isinstance(owner, type):
                                for key in [k for k, v in holder.items() if v is ref()]:
                                    setattr(owner, key, None)
                holder = owner = None
        else:
            raise RuntimeError("C12: the finished hass is still referenced; its finalisers could act on the next run")
    finally:
        sys.unraisablehook = hook


_HA_CACHES: list = []


def _ha_caches(refresh: bool = False) -> list:
    if refresh or not _HA_CACHES:
        _HA_CACHES[:] = [obj for obj in gc.get_objects() if isinstance(obj, functools._lru_cache_wrapper) and
                         (getattr(obj, "__module__", "") or "").startswith("homeassistant.")]
    return _HA_CACHES


class C12World(World):
    """Seam: Home Assistant's service-description loader, as called by pyscript, suspends for a per-call time."""

    desc_busy = 0   # description loads in progress right now (reach probes and violation labels only)

    def extra_patches(self) -> list:
        import asyncio
        from unittest.mock import patch

        import custom_components.pyscript.state as state_mod

        delays = [float(d) for d in (self.cfg.get("svc_desc_delays_ms") or [])]
        if not any(d > 0 for d in delays):
            delays = [0.0]
        orig = state_mod.async_get_all_descriptions
        calls = [0]
        self.desc_spans = []   # [virtual time begun, virtual time finished or None] of every description load

        async def slow_descriptions(hass):
            # (legal: the loader reads the services.yaml of integrations whose descriptions are not cached yet in the
            # executor; how long that takes depends on what else registered services since the last call)
            delay = delays[calls[0] % len(delays)]
            calls[0] += 1
            span = [self.loop.vt, None]
            self.desc_spans.append(span)
            self.desc_busy += 1
            try:
                if delay > 0:
                    self.fault("slow_service_description_load")
                    await asyncio.sleep(delay / 1000.0)
                return await orig(hass)
            finally:
                self.desc_busy -= 1
                span[1] = self.loop.vt

        return [patch.object(state_mod, "async_get_all_descriptions", slow_descriptions)]

    def desc_load_between(self, t0: float, t1: float) -> bool:
        """A description load that took time (ie suspended) was in progress at some time in [t0, t1]."""
        return any(beg <= t1 and (end is None or (end >= t0 and end > beg)) for beg, end in self.desc_spans)


def _run(scn: dict) -> dict:
    spec = scn["spec"]
    cfg = dict(scn["cfg"])
    cfg["initial_states"] = {"test.e1": ["on", {}]}
    w = C12World(cfg, render(scn))
    sub = "legacy" if cfg["legacy"] else "new"
    violations: list = []
    state = {"changed_hands": False}
    records: list = []

    def viol(cls, sig, detail):
        violations.append({"class": cls, "sig": {"subsystem": sub, **sig}, "detail": detail, "t": w.vts()})

    def pre_setup(hass):
        from homeassistant.core import SupportsResponse, callback
        from homeassistant.helpers.service import async_set_service_schema

        @callback
        def record(call):
            records.append({"service": call.service, "data": dict(call.data), "ctx": call.context, "vt": w.loop.vt,
                            "return_response": call.return_response})
            if call.return_response:
                return {"echo": dict(call.data)}
            return None

        hass.services.async_register("test", "record", record, supports_response=SupportsResponse.OPTIONAL)
        hass.services.async_register("test", "record_one", record, supports_response=SupportsResponse.OPTIONAL)
        async_set_service_schema(hass, "test", "record", {"description": "record", "fields": {
            "entity_id": {"description": "entity"}, "a": {"description": "a"}, "txt": {"description": "txt"}}})
        async_set_service_schema(hass, "test", "record_one", {"description": "record one", "fields": {
            "entity_id": {"description": "entity"}, "a": {"description": "a"}}})

    w.pre_setup = pre_setup

    async def driver(w: World):
        from homeassistant.core import Context
        from homeassistant.exceptions import ServiceNotFound

        made_ctx: list = []

        def make_context():
            ctx = Context()
            made_ctx.append(ctx)
            return ctx

        w.natives["make_context"] = make_context
        await w.started()
        del _LAST_HASS[:]
        _LAST_HASS.append(weakref.ref(w.hass))
        # ---- reference model
        slots: dict = {}      # (ctx, slot) -> {"gen", "form", "names": registered names}
        owner: dict = {}      # name -> ctx
        gens: dict = {}
        mods = [ctx for ctx in spec.get("mods") or [] if ctx in spec["ctxs"]]
        model_ctxs = list(spec["ctxs"]) + [mod_of(ctx) for ctx in mods]   # files + their modules
        version = {ctx: 0 for ctx in model_ctxs}
        docs_used = {ctx: _docs_used(scn, ctx) for ctx in model_ctxs}
        seq = [0]             # definitions are numbered in the order in which they took effect
        stale: dict = {}      # name -> [ctx, slot, gen] of the removed declarer that was the latest one of a name that
        #                       another live function still declares (finding on record: its handler stays)
        cur_top = {ctx: list((spec.get("top") or {}).get(ctx) or []) for ctx in spec["ctxs"]}   # file-level declarations
        dropped: set = set()  # contexts whose script file is deleted
        mixed: set = set()    # names declared, at overlapping times, in spellings that differ in case
        tainted: dict = {}    # name -> doc kind: declared by a function without usable description, not seen absent since
        entry_loaded = True
        call_n = [0]
        all_names = sorted({n for ctx in model_ctxs for slot in (0, 1) for form in FORMS for n in names_of(ctx, slot, form)})

        async def life_call(ctx, data, blocking=True):
            """Ask the script to define / delete a slot function in context ctx (a file's or its module's)."""
            if is_mod(ctx):
                data = {**data, "via": "mod"}
            return await w.call_service("pyscript", f"life_{host_of(ctx)}", data, blocking=blocking)

        def latest(holders):
            return max(holders, key=lambda h: slots[h]["seq"])

        def note_removed(ctx, slot, ent):
            """A declarer is gone: was it the most recent one of a name that other live functions still declare?"""
            dec = declared()
            # (a definition whose description was refused may have registered its names all the same)
            for name in ent["names"] or (ent.get("maybe_names") or []):
                others = [h for h in dec.get(name, []) if h != (ctx, slot)]
                if not others:
                    stale.pop(name, None)
                elif ent["seq"] > max(slots[h]["seq"] for h in others):
                    stale[name] = [ctx, slot, ent["gen"]]
                    w.probe("latest_declarer_of_shared_name_removed")

        def declared() -> dict:
            """name -> list of (ctx, slot) that currently declare it (and own it)."""
            out: dict = {}
            for (ctx, slot), ent in slots.items():
                for name in ent["names"]:
                    out.setdefault(name, []).append((ctx, slot))
            return out

        def model_remove(ctx, slot):
            ent = slots.get((ctx, slot))
            if ent is None:
                return
            note_removed(ctx, slot, ent)
            del slots[(ctx, slot)]
            if ent.get("doc") in SCHEMA_FAIL:
                w.probe("description_refused_then_undeclared")
            dec = declared()
            for name in ent["names"]:
                if name not in dec:
                    owner.pop(name, None)

        def taint(name, doc):
            """Remember the kind of failed definition that declared the name (one that registers first wins the label)."""
            rank = {None: 0, "yaml_broken": 1, "no_trigger": 2}
            if rank.get(doc, 3) >= rank.get(tainted.get(name), 3):
                tainted[name] = doc

        def undecided_elsewhere(ctx, name) -> bool:
            """Another context has a live definition of the name whose registration is open (see ASSUMPTIONS)."""
            return any(ent.get("uncertain") and c != ctx and name in names_of(c, sl, ent["form"])
                       for (c, sl), ent in slots.items())

        def note_spelling(ctx, slot, form):
            """A definition is made (or begun) while another live one spells the same service name differently."""
            for name in names_of(ctx, slot, form):
                if any((ent["form"] == "upper") != (form == "upper") for (c, sl), ent in slots.items()
                       if name in names_of(c, sl, ent["form"])):
                    mixed.add(name)
                    w.probe("name_declared_in_two_spellings")

        def model_define(ctx, slot, form, gen_no, doc="none", pre=None):
            """Register-before-remove: the new definition takes its names, then the old one is dropped."""
            new_names = []
            conflict = False
            uncertain = False
            note_spelling(ctx, slot, form)
            for name in names_of(ctx, slot, form):
                if owner.get(name, ctx) != ctx:
                    conflict = True
                    w.probe("foreign_takeover_attempt")
                    continue
                if undecided_elsewhere(ctx, name):
                    # whether the other context holds the name is open, so whether this one gets it is open too
                    uncertain = True
                    w.probe("name_defined_elsewhere_while_undecided")
                    continue
                new_names.append(name)
            if doc in BAD_DOCS:
                # no service description can be built: what happens to the names while this function declares them
                # is open; a refused take-over stays a refused take-over
                w.probe({"yaml_broken": "doc_string_yaml_unparseable", "no_trigger": "state_active_without_trigger"}.get(
                    doc, "doc_string_yaml_not_a_mapping"))
                uncertain = uncertain or not conflict
                new_names = []
                for name in names_of(ctx, slot, form):
                    taint(name, doc)
            elif doc != "none":
                w.probe("doc_string_plain" if doc == "text" else "doc_string_yaml_mapping")
            old = slots.get((ctx, slot))
            if old and set(old["names"]) != set(new_names):
                state["changed_hands"] = True
                w.probe("name_changed_hands")
            over = bool(old and old["gen"] >= TOP_GEN > gen_no and set(old["names"]) & set(new_names))
            if over:
                w.probe("file_level_name_redefined_at_run_time")
            if old:
                # (names the new definition declares too are its own now)
                note_removed(ctx, slot, {**old, "names": [n for n in old["names"] if n not in new_names],
                                         "maybe_names": [n for n in old.get("maybe_names") or [] if n not in new_names]})
            seq[0] += 1
            slots[(ctx, slot)] = {"gen": gen_no, "form": form, "names": new_names, "conflict": conflict,
                                  "uncertain": uncertain, "doc": doc, "over_file_level": over, "seq": seq[0],
                                  "after_failed_decorator": pre == "bad_deco",
                                  "maybe_names": names_of(ctx, slot, form) if uncertain else []}
            if pre == "bad_deco":
                w.probe("definition_after_failed_decorator")
            if is_mod(ctx):
                w.probe("defined_through_module_function")
            for name in new_names:
                owner[name] = ctx
                stale.pop(name, None)
                if len(declared()[name]) > 1:
                    w.probe("shared_name_two_declarers")
                    if gen_no >= TOP_GEN:
                        w.probe("shared_name_two_declarers_at_file_level")
            if old:
                dec = declared()
                for name in old["names"]:
                    if name not in dec:
                        owner.pop(name, None)
            if form == "two_names":
                w.probe("alias_form")
            if form == "two_decorators":
                w.probe("two_decorators_form")
            if form == "dup_names":
                w.probe("name_given_twice_form")

        def nviol(name, cls, sig, detail):
            """A violation about one service name (own class where the name is part of a construct with a finding)."""
            # (the two findings that used to be re-labelled here - names differing only in case, a name given twice -
            # are repaired in /repo: violations keep their own class)
            if False:
                pass
            else:
                viol(cls, sig, detail)

        async def check_all(tag):
            dec = declared() if entry_loaded else {}
            dontcare = set()
            for (ctx, slot), ent in slots.items():
                if ent.get("conflict"):
                    dontcare.update(names_of(ctx, slot, ent["form"]))
            undecided = set()
            for (ctx, slot), ent in slots.items():
                if ent.get("uncertain"):
                    undecided.update(names_of(ctx, slot, ent["form"]))
            # the services the script files themselves declare at file level
            for ctx in spec["ctxs"]:
                for name in (f"life_{ctx}", f"out_{ctx}"):
                    has = w.hass.services.has_service("pyscript", name)
                    should = entry_loaded and ctx not in dropped
                    if has != should:
                        viol("C12.registration", {"should_exist": should, "form": "file_level"},
                             f"after {tag}: pyscript.{name} exists={has}, but the file {ctx}.py is "
                             f"{'loaded' if should else 'deleted' if ctx in dropped else 'unloaded'}")
            for name in all_names:
                if name in undecided:
                    continue
                has = w.hass.services.has_service("pyscript", name)
                should = name in dec
                if not has and not should:
                    tainted.pop(name, None)
                if name in dontcare and not should:
                    # a name that could not be taken: the owner keeps it (checked through the owner), else open
                    if owner.get(name) is None:
                        continue
                    should = True
                if has and not should and name in tainted and owner.get(name) is None:
                    # declared, at some time since it was last seen absent, by a function without a usable service
                    # description; no live function declares it now
                    nviol(name, "C12.leak_after_description_failure",
                         {"why": WHY_LEAK[tainted[name]]},
                         f"after {tag}: pyscript.{name} is still registered although no live function of a loaded "
                         f"context declares it; a function that pyscript reported as an error ('{tainted[name]}': "
                         f"{'@state_active without a trigger' if tainted[name] == 'no_trigger' else 'no service description can be built from its doc string'}"
                         f") declared it before and has been redefined / deleted / reloaded away / "
                         f"unloaded since (declared now {dec}, owners {owner})")
                    # pyscript's own bookkeeping of this name (reference count, owner) is unknown from here on
                    state["leaked"] = True
                    continue
                over = any(slots[h].get("over_file_level") for h in dec.get(name, []))
                if should and not has and all(slots[h].get("after_failed_decorator") for h in dec.get(name, [])):
                    nviol(name, "C12.definition_after_failed_decorator_not_registered", {},
                          f"after {tag}: pyscript.{name} is not registered although a live function declares it "
                          f"(declared {dec}); it was defined after the script, in the same call, had caught the "
                          f"exception of a user decorator that refused another function")
                    state["leaked"] = True
                    continue
                if should and not has and over:
                    nviol(name, "C12.file_level_name_redefined_at_run_time", {"what": "missing"},
                         f"after {tag}: pyscript.{name} is not registered; the script file declares it at file level and "
                         f"a function of the same file has just defined the function again with the same service name "
                         f"(declared {dec}, owners {owner})")
                    state["leaked"] = True
                    continue
                if has != should:
                    nviol(name, "C12.registration", {"should_exist": should, "form": _form_of(name)},
                         f"after {tag}: pyscript.{name} exists={has}, reference says {should} (declared {dec}, owners {owner})")
                    continue
                if not has:
                    continue
                # the latest generation of the owning definition must run, with exactly the data
                holders = dec.get(name) or [(c, s) for (c, s), e in slots.items() if name in e["names"]]
                if not holders:
                    continue
                ctx, slot = latest(holders)   # 'calling the service runs the most recent definition'
                ent = slots[(ctx, slot)]
                call_n[0] += 1
                data = {"n": call_n[0], "who": name}
                want_resp = ent["form"] in ("optional", "only")
                pos = len(w.marks)
                try:
                    resp = await w.call_service("pyscript", name, data, blocking=True, return_response=want_resp)
                except ServiceNotFound:
                    nviol(name, "C12.registration", {"should_exist": True, "form": _form_of(name)}, f"after {tag}: pyscript.{name} vanished")
                    continue
                except Exception as exc:  # pylint: disable=broad-except
                    nviol(name, "C12.call_raised", {"form": ent["form"]}, f"after {tag}: calling pyscript.{name} raised {exc!r}")
                    continue
                await w.settle(0.02)
                got = [m for m in w.marks[pos:] if m["args"][0] == "svc"]
                exp_args = ["svc", ctx, slot, ent["gen"], ent["form"]]
                if over and len(got) == 1 and got[0]["args"][:3] == exp_args[:3] and got[0]["args"][3] >= TOP_GEN:
                    nviol(name, "C12.file_level_name_redefined_at_run_time", {"what": "file_level_definition_still_runs"},
                         f"after {tag}: calling pyscript.{name} ran {got[0]['args']}, the file-level definition, although "
                         f"the function has been defined again at run time with the same service name: expected {exp_args}")
                    state["leaked"] = True
                elif (len(got) == 1 and got[0]["args"][:3] == exp_args[:3] and ent.get("raced_with_refused") is not None and
                      got[0]["args"][3] == ent["raced_with_refused"]):
                    nviol(name, "C12.handler_of_refused_definition_kept", {},
                         f"after {tag}: calling pyscript.{name} ran {got[0]['args']}: the definition whose service "
                         f"description Home Assistant refused and which the script has replaced since; it was made while "
                         f"the definition that is current now was still starting up; expected {exp_args}")
                    state["leaked"] = True
                elif len(got) == 1 and name in stale and got[0]["args"][1:4] == stale[name]:
                    nviol(name, "C12.handler_of_removed_declarer_kept", {},
                          f"after {tag}: calling pyscript.{name} ran {got[0]['args']}: a function that has been deleted / "
                          f"redefined without this name / reloaded away; it was the most recent declarer of the name, "
                          f"which another live function still declares: expected {exp_args}")
                    state["leaked"] = True
                elif (len(got) == 1 and got[0]["args"] != exp_args and len(holders) > 1 and
                      any(got[0]["args"][1:4] == [c, sl, slots[(c, sl)]["gen"]] for (c, sl) in holders)):
                    nviol(name, "C12.older_declarer_of_shared_name_ran",
                          {"declared": "file_level" if ent["gen"] >= TOP_GEN else "run_time"},
                          f"after {tag}: calling pyscript.{name} ran {got[0]['args']}, a live function that declares the "
                          f"name too but was defined BEFORE the most recent definition: expected {exp_args} "
                          f"(declarers in model order {holders})")
                    state["leaked"] = True
                elif len(got) != 1 or got[0]["args"] != exp_args:
                    nviol(name, "C12.wrong_definition_ran", {"form": ent["form"]},
                         f"after {tag}: calling pyscript.{name} ran {[m['args'] for m in got]}, expected {exp_args}")
                elif {k: v for k, v in got[0]["kw"].items() if k != "context"} != {"trigger_type": "service", **data}:
                    nviol(name, "C12.call_kwargs", {"form": ent["form"]},
                         f"after {tag}: pyscript.{name} got kwargs {got[0]['kw']}, expected data {data} + trigger_type")
                if want_resp:
                    w.probe("response_returned")
                    if resp != {"ctx": ctx, "slot": slot, "gen": ent["gen"], "n": data["n"]}:
                        nviol(name, "C12.response", {"form": ent["form"]}, f"after {tag}: pyscript.{name} returned {resp!r}")

        def model_file_level(ctx, probe):
            """The file-level declarations of the file version that is on disk were (re)loaded."""
            for decl in cur_top[ctx]:
                w.probe(probe)
                model_define(ctx, decl["slot"], decl["form"], TOP_GEN + version[ctx], _doc_of(decl)[0])

        async def rewrite_and_reload(ctx, top):
            """The script file is edited (or written again after its deletion) and pyscript reloaded."""
            version[ctx] += 1
            if cur_top[ctx] and any(c == ctx for (c, _s) in slots):
                w.probe("file_level_declaration_edited_away")
            if ctx in dropped:
                w.probe("script_file_restored")
            w.write_file(f"pyscript/{ctx}.py", _ctx_src(ctx, version[ctx], docs_used[ctx], top, ctx in mods))
            await w.reload()
            reloaded_model(ctx, top)

        def reloaded_model(ctx, top):
            dropped.discard(ctx)
            cur_top[ctx] = list(top)
            # whatever the old script defined (or was still defining) is not declared by a loaded context any more;
            # what its module holds stays: an unchanged module is not reloaded with the file that imports it
            if any(k[0] == mod_of(ctx) for k in slots):
                w.probe("module_definition_survived_reload_of_importing_file")
            for k in [k for k in slots if k[0] == ctx]:
                model_remove(*k)
            model_file_level(ctx, "file_level_declaration")

        async def rewrite_module_and_reload(mctx):
            """The module is edited: it and (if loaded) the file that imports it are reloaded."""
            version[mctx] += 1
            w.probe("module_reloaded")
            w.write_file(f"pyscript/modules/{mctx}.py", _mod_src(mctx, version[mctx], docs_used[mctx]))
            await w.reload()
            host = host_of(mctx)
            for k in [k for k in slots if k[0] in (mctx, host)]:
                model_remove(*k)
            if host not in dropped:
                model_file_level(host, "file_level_declaration")

        async def reload_of(ctx, top):
            if is_mod(ctx):
                await rewrite_module_and_reload(ctx)
            else:
                await rewrite_and_reload(ctx, top)

        def last_error() -> str:
            """The exception line of the last error pyscript logged (no file paths: they differ between processes)."""
            errs = [r["msg"] for r in w.logs if r["level"] == "ERROR"]
            return repr(errs[-1].strip().splitlines()[-1][:200]) if errs else "nothing"

        async def do_out(op, tag):
            """A script calls the recording service in one of the call forms: exactly the given keywords arrive."""
            pos_r = len(records)
            pos_m = len(w.marks)
            n_ctx = len(made_ctx)
            odd = op.get("odd") or {}
            call_data = {"form": op["form"], "data": op["data"], "flags": op["flags"]}
            if odd:
                call_data["odd"] = odd
                w.probe("outgoing_option_named_data_field")
                if "limit" in odd:
                    w.probe("outgoing_data_field_named_limit")
            t_call = w.loop.vt
            try:
                await w.call_service("pyscript", f"out_{op['ctx']}", call_data)
            except ServiceNotFound:
                # (only a call that closely follows a reload can get here: the reload has returned, the file is
                # loaded, its services are declared)
                viol("C12.registration", {"should_exist": True, "form": "file_level"},
                     f"{tag}: pyscript.out_{op['ctx']} does not exist although the file {op['ctx']}.py is loaded "
                     f"(the reload that loaded it has returned)")
                return
            # was some task of pyscript (start-up of a @service, reload) refreshing the service descriptions meanwhile?
            busy = w.desc_load_between(t_call, w.loop.vt)
            if busy:
                w.probe("outgoing_call_during_description_refresh")
            await w.settle(0.1)
            # exactly the given keyword parameters: a keyword that is not a call option (by name AND type) is data
            exp = {**op["data"], **odd}
            svc = "record"
            if op["form"] == "entity_pos":
                exp = {"a": op["data"]["a"], "entity_id": "test.e1", **odd}
                svc = "record_one"
                w.probe("outgoing_entity_method")
            elif op["form"] == "entity_kw":
                exp["entity_id"] = "test.e1"
                w.probe("outgoing_entity_method")
            new = records[pos_r:]
            sig = {"form": op["form"], "flags": "+".join(sorted(op["flags"])) or "none"}
            if odd:
                sig["option_named_field"] = "+".join(sorted(odd))
            if len(new) != 1 or new[0]["data"] != exp or new[0]["service"] != svc:
                detail = (f"{tag}: script call delivered {[(r['service'], r['data']) for r in new]}, expected "
                          f"one call of test.{svc} with {exp}")
                if busy and not new and op["form"].startswith("entity"):
                    viol("C12.entity_method_call_lost_during_description_refresh", {"form": op["form"]},
                         detail + "; the call was made while another task of pyscript was refreshing the service "
                         f"descriptions; pyscript logged {last_error()}")
                elif "limit" in odd and not new and op["form"].startswith("entity"):
                    viol("C12.outgoing_data_field_named_limit", {"form": op["form"]},
                         detail + f"; pyscript logged {last_error()}")
                else:
                    viol("C12.outgoing_call", sig, detail)
            else:
                if "context" in op["flags"] and len(made_ctx) > n_ctx and new[0]["ctx"].id != made_ctx[-1].id:
                    viol("C12.outgoing_call", {**sig, "what": "context"}, f"{tag}: the given context was not used")
                outs = [m for m in w.marks[pos_m:] if m["args"][0] == "out"]
                if op["flags"].get("return_response"):
                    w.probe("outgoing_return_response")
                    if not outs or outs[0]["raw_kw"].get("ret") != {"echo": exp}:
                        viol("C12.outgoing_call", {**sig, "what": "response"},
                             f"{tag}: return_response=True gave {outs[0]['raw_kw'].get('ret') if outs else None!r}")

        async def drop_file(ctx):
            w.probe("script_file_deleted")
            w.delete_file(f"pyscript/{ctx}.py")
            await w.reload()
            dropped.add(ctx)
            cur_top[ctx] = []
            for key in [k for k in slots if k[0] == ctx]:
                model_remove(*key)

        for ctx in spec["ctxs"]:
            model_file_level(ctx, "file_level_declaration")
        await check_all("start")
        for i, op in enumerate(scn["ops"]):
            kind = op["kind"]
            tag = f"op{i}:{kind}"
            if not entry_loaded and kind != "setup":
                continue
            if host_of(op.get("ctx") or "") in dropped and (kind != "reload_ctx" or is_mod(op["ctx"])):
                continue   # the file of this context is deleted: nothing to talk to
            inflight = None
            if kind in ("define", "delete") and op.get("inflight"):
                ent = slots.get((op["ctx"], op["slot"]))
                if ent and ent["names"]:
                    name = ent["names"][0]
                    call_n[0] += 1
                    inflight = {"name": name, "n": call_n[0], "old_gen": ent["gen"], "pos": len(w.marks)}
                    w.probe("call_in_flight_during_redefinition")
                    try:
                        await w.call_service("pyscript", name, {"n": call_n[0], "who": name}, blocking=False,
                                             return_response=False) if ent["form"] != "only" else None
                    except ServiceNotFound:
                        inflight = None
                    if ent["form"] == "only":
                        inflight = None
            if kind == "define":
                key = (op["ctx"], op["slot"])
                gens[key] = gens.get(key, 0) + 1
                doc, docv = _doc_of(op)
                data = {"cmd": _cmd_of(doc, docv), "slot": op["slot"], "gen": gens[key], "form": op["form"]}
                if op.get("pre"):
                    data["pre"] = op["pre"]
                await life_call(op["ctx"], data)
                model_define(op["ctx"], op["slot"], op["form"], gens[key], doc, op.get("pre"))
            elif kind == "delete":
                if (op["ctx"], op["slot"]) not in slots:
                    continue
                w.probe("deleted_then_called")
                if is_mod(op["ctx"]):
                    w.probe("module_definition_deleted")
                await life_call(op["ctx"], {"cmd": "delete", "slot": op["slot"]})
                model_remove(op["ctx"], op["slot"])
            elif kind == "reload_ctx":
                if any(c == op["ctx"] for (c, _s) in slots):
                    w.probe("reload_dropped_runtime_definitions")
                await reload_of(op["ctx"], op.get("top") or [])
            elif kind == "reload_racing":
                # a reload (waited for: the service call returns once the files are loaded and their start pass is
                # under way) and, a moment later, the next lifecycle op of the same file
                ctx = op["ctx"]
                w.probe("reload_followed_closely")
                await rewrite_and_reload(ctx, op.get("top") or [])
                if op["after_ms"]:
                    await w.sleep(op["after_ms"] / 1000.0)
                if w.desc_busy:
                    w.probe("lifecycle_op_while_start_pass_suspended")
                if op["then"] == "reload_ctx":
                    await rewrite_and_reload(ctx, op.get("top2") or [])
                elif op["then"] == "unload":
                    await w.unload_entry()
                    for k in list(slots):
                        model_remove(*k)
                    entry_loaded = False
                elif op["then"] == "out":
                    if op["out"]["ctx"] not in dropped:
                        await do_out(op["out"], tag)
                else:
                    await drop_file(ctx)
            elif kind == "drop_file":
                await drop_file(op["ctx"])
            elif kind == "unload":
                await w.unload_entry()
                for key in list(slots):
                    model_remove(*key)
                entry_loaded = False
            elif kind == "setup":
                if entry_loaded:
                    continue
                await w.setup_entry()
                entry_loaded = True
                # the files are loaded again as they are on disk: their file-level declarations are back
                for ctx in spec["ctxs"]:
                    if ctx not in dropped:
                        model_file_level(ctx, "file_level_declaration_back_after_setup")
            elif kind == "define_racing":
                ctx, slot = op["ctx"], op["slot"]
                key = (ctx, slot)
                gens[key] = gens.get(key, 0) + 1
                g1 = gens[key]
                pos = len(w.marks)
                had = {n: w.hass.services.has_service("pyscript", n) for n in names_of(ctx, slot, op["form"])}
                doc1, docv1 = _doc_of(op)
                doc2, docv2 = _doc_of(op, True)
                note_spelling(ctx, slot, op["form"])
                if doc1 in BAD_DOCS:
                    # (also when the definition never gets into the reference model because its script is stopped)
                    for name in names_of(ctx, slot, op["form"]):
                        taint(name, doc1)
                await life_call(ctx, {"cmd": _cmd_of(doc1, docv1), "slot": slot, "gen": g1, "form": op["form"]},
                                blocking=False)
                if op["after_ms"]:
                    await w.sleep(op["after_ms"] / 1000.0)

                def life_marks():
                    return [m["args"][1:] for m in w.marks[pos:] if m["args"][0] == "life" and m["args"][2:4] == [ctx, slot]]

                then = op["then"]
                if then == "delete" and key not in slots:
                    then = "nothing"   # nothing to delete: the definition is just not waited for
                if ["defd", ctx, slot, g1] not in life_marks():
                    w.probe("definition_in_progress_when_stopped" if then in ("reload_ctx", "unload") else
                            "definition_in_progress_when_redefined_or_deleted")
                    if any(w.hass.services.has_service("pyscript", n) and not had[n] for n in had):
                        w.probe("name_registered_by_definition_in_progress")
                if then == "reload_ctx":
                    # (the new version declares nothing at file level: what an old definition still in progress does
                    # to a name the new file declares too is left to the plain ops)
                    # (for a definition made in a module: the module is edited, so it and its importer are reloaded)
                    await reload_of(ctx, [])
                elif then == "unload":
                    await w.unload_entry()
                    for k in list(slots):
                        model_remove(*k)
                    entry_loaded = False
                else:
                    g2 = None
                    if then == "delete":
                        await life_call(ctx, {"cmd": "delete", "slot": slot})
                    elif then == "define":
                        gens[key] += 1
                        g2 = gens[key]
                        await life_call(ctx, {"cmd": _cmd_of(doc2, docv2), "slot": slot, "gen": g2, "form": op["form2"]})
                    elif then == "out" and op["out"]["ctx"] not in dropped:
                        await do_out(op["out"], tag)
                    await w.settle(0.1)
                    # the order in which the script finished the statements is the order in which they took effect
                    done = life_marks()
                    want = [["defd", ctx, slot, g1]]
                    if then == "delete":
                        want.append(["del", ctx, slot, None])
                    elif then == "define":
                        want.append(["defd", ctx, slot, g2])
                    if sorted(done, key=repr) != sorted(want, key=repr):
                        # each of the two overlapping calls of the script's own service must have run exactly once,
                        # with its own data; what the script defined is unknown now, so the scenario ends here
                        viol("C12.call_kwargs", {"form": "default", "overlap": True, "at": "life"},
                             f"{tag}: two overlapping calls of pyscript.life_{host_of(ctx)} were issued with (cmd, ctx, slot, gen) = "
                             f"{want}; the script reports having done {done}")
                        return
                    for what, _c, _s, gen_no in done:
                        if what == "del":
                            model_remove(ctx, slot)
                        else:
                            model_define(ctx, slot, op["form"] if gen_no == g1 else op["form2"], gen_no,
                                         doc1 if gen_no == g1 else doc2)
                    if then == "define" and (doc1 in SCHEMA_FAIL) != (doc2 in SCHEMA_FAIL) and key in slots:
                        # one of the two overlapping definitions was refused by Home Assistant after it had registered
                        w.probe("definition_overlapped_by_refused_definition")
                        slots[key]["raced_with_refused"] = g1 if doc1 in SCHEMA_FAIL else g2
            elif kind == "overlap":
                import asyncio

                ent = slots.get((op["ctx"], op["slot"]))
                if not ent or not ent["names"]:
                    continue
                name = ent["names"][-1]
                if len(declared()[name]) > 1:
                    continue   # (which of the declarers answers is judged by check_all)
                want_resp = ent["form"] in ("optional", "only")
                pos = len(w.marks)
                calls = []
                for nap in op["naps"]:
                    call_n[0] += 1
                    data = {"n": call_n[0], "who": name, "nap": nap}
                    fut = asyncio.ensure_future(w.call_service("pyscript", name, data, blocking=True,
                                                               return_response=want_resp))
                    calls.append((data, fut))
                    await w.sleep(op["gap"])
                w.probe("two_calls_of_one_service_overlap")
                for data, fut in calls:
                    try:
                        resp = await fut
                    except Exception as exc:  # pylint: disable=broad-except
                        viol("C12.call_raised", {"form": ent["form"], "overlap": True},
                             f"{tag}: overlapping call {data} of pyscript.{name} raised {exc!r}")
                        continue
                    if want_resp and resp != {"ctx": op["ctx"], "slot": op["slot"], "gen": ent["gen"], "n": data["n"]}:
                        viol("C12.response", {"form": ent["form"], "overlap": True},
                             f"{tag}: overlapping call {data} of pyscript.{name} returned {resp!r}")
                await w.settle(0.05)
                for data, _fut in calls:
                    exp_kw = {"trigger_type": "service", **data}
                    for which in ("svc", "svc_end"):
                        got = [m for m in w.marks[pos:] if m["args"][0] == which and
                               {k: v for k, v in m["kw"].items() if k != "context"} == exp_kw]
                        if len(got) != 1:
                            seen = [{k: v for k, v in m["kw"].items() if k != "context"}
                                    for m in w.marks[pos:] if m["args"][0] == which]
                            viol("C12.call_kwargs", {"form": ent["form"], "overlap": True, "at": which},
                                 f"{tag}: two overlapping calls of pyscript.{name}: the call with data {data} shows "
                                 f"{len(got)} '{which}' marks with its own keyword arguments; all '{which}' marks: {seen}")
                continue
            elif kind == "out":
                await do_out(op, tag)
                continue
            await w.settle(0.2)
            w.gc_now()
            await w.settle(0.2)
            if inflight:
                got = [m for m in w.marks[inflight["pos"]:] if m["args"][0] == "svc" and m["raw_kw"].get("n") == inflight["n"]]
                if len(got) != 1:
                    viol("C12.inflight_call", {"count": len(got)},
                         f"{tag}: the call of pyscript.{inflight['name']} made just before the op ran {len(got)} times")
            await check_all(tag)
            if state.get("leaked"):
                return   # the run diverged: later consequences of the leaked registration are not judged
        if spec.get("final_unload") and entry_loaded:
            # whatever the history was: once the integration is unloaded nothing it registered may remain (a
            # declaration counted once too often shows up here at the latest)
            w.probe("final_unload")
            await w.unload_entry()
            for k in list(slots):
                model_remove(*k)
            entry_loaded = False
            await w.settle(0.2)
            w.gc_now()
            await w.settle(0.2)
            await check_all("end:unload")

    if float(cfg.get("svc_params_delay_ms") or 0.0) > 0 or any(cfg.get("svc_desc_delays_ms") or []):
        w.probe("slow_service_description_load")
    w.run(driver)
    if w.ha_exceptions:
        viol("C12.escaped_to_ha", {}, f"Home Assistant logged/handled: {w.ha_exceptions[:2]}")
    violations.sort(key=lambda v: v.get("t", 0.0))
    return base_result(w, violations, state["changed_hands"], {"ops": len(scn["ops"])})


def _form_of(name: str) -> str:
    if name.startswith("sh_"):
        return "shared"
    for prefix, form in (("s", "default"), ("dup", "dup_names"), ("x", "explicit"), ("al", "two_names"), ("d", "two_decorators"), ("opt", "optional"),
                         ("only", "only")):
        if name.startswith(prefix) and name[len(prefix)].isdigit():
            return form
    return "?"
