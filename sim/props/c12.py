"""C12 - a @service exists exactly while declared and calls the current definition.

Workload: 1-3 script files whose 'life_<ctx>' service defines, redefines and deletes global @service functions at
run time (default name, explicit name, two names in one decorator, two decorators, supports_response
none/optional/only); default names collide between contexts (ownership); ops define / redefine / delete /
edit+reload / unload / setup; calls with generated data after every op and, non-blocking, right before an op;
plus outgoing calls from a script to a recording service through every call form.

Oracle: a reference model of declared names, owners and latest generations.
"""

from __future__ import annotations

import copy
import random

from ..common import base_result, gen_cfg
from ..world import World

PROPERTY = "C12"
LEVEL = "exploration"
RULE = (
    "seeded generation of <=18 lifecycle ops (define/redefine in 6 declaration forms, delete, reload, unload, setup) over "
    "2 slots x 1-3 contexts, service calls with generated data after every op and in flight during ops, and outgoing "
    "calls in 4 call forms; distinct = scenario digest; non-trivial = a service name changed hands between generations"
)
ASSUMPTIONS = [
    "a call that is in flight while its service is redefined may run either generation (exactly once)",
    "when a context fails to take a name owned by another context, what happens to the other names of the same "
    "function is don't-care; the owner's registration must be unaffected",
    "blocking/return_response/context are only generated with their documented types (bool / Context)",
]
TIERS = {
    "quick": {"runs": 450, "chunk": 15},
    "thorough": {"runs": 20000, "chunk": 120},
}
REACH_PROBES = ["name_changed_hands", "foreign_takeover_attempt", "call_in_flight_during_redefinition", "alias_form",
                "two_decorators_form", "response_returned", "deleted_then_called", "reload_dropped_runtime_definitions",
                "outgoing_entity_method", "outgoing_return_response", "two_calls_of_one_service_overlap"]
SHRINK_LISTS = [["ops"]]

CTXS = ["ca", "cb", "cc"]
FORMS = ["default", "explicit", "two_names", "two_decorators", "optional", "only"]


def names_of(ctx: str, slot: int, form: str) -> list[str]:
    if form == "default":
        return [f"s{slot}"]
    if form == "explicit":
        return [f"x{slot}_{ctx}"]
    if form == "two_names":
        return [f"al{slot}_{ctx}", f"al{slot}b_{ctx}"]
    if form == "two_decorators":
        return [f"d{slot}_{ctx}", f"d{slot}b_{ctx}"]
    if form == "optional":
        return [f"opt{slot}_{ctx}"]
    return [f"only{slot}_{ctx}"]


def gen(rng: random.Random, tier: str) -> dict:
    cfg = gen_cfg(rng)
    cfg["drift"] = 0.0
    ctxs = CTXS[: rng.randint(1, 3)]
    ops = []
    for _ in range(rng.randint(4, 18 if tier == "thorough" else 13)):
        roll = rng.random()
        ctx = rng.choice(ctxs)
        if roll < 0.5:
            ops.append({"kind": "define", "ctx": ctx, "slot": rng.randint(0, 1), "form": rng.choice(FORMS + ["default", "default"]),
                        "inflight": rng.random() < 0.3})
        elif roll < 0.65:
            ops.append({"kind": "delete", "ctx": ctx, "slot": rng.randint(0, 1), "inflight": rng.random() < 0.3})
        elif roll < 0.72:
            ops.append({"kind": "reload_ctx", "ctx": ctx})
        elif roll < 0.80:
            # two calls of one service in flight at once, the first resumes while the second is still suspended
            naps = rng.choice([[0.2, 0.3], [0.3, 0.1], [0.2, 0.2], [0.4, 0.5]])
            ops.append({"kind": "overlap", "ctx": ctx, "slot": rng.randint(0, 1), "naps": naps, "gap": 0.1})
        elif roll < 0.85:
            ops.append({"kind": "unload"})
            ops.append({"kind": "setup"})
        else:
            data = {"a": rng.randint(0, 9), "txt": rng.choice(["x", "y"])}
            flags = {}
            if rng.random() < 0.4:
                flags["blocking"] = rng.random() < 0.7
            if rng.random() < 0.3:
                flags["return_response"] = True
            if rng.random() < 0.2:
                flags["context"] = True
            form = rng.choice(["direct", "service_call", "entity_pos", "entity_kw"])
            if flags.get("return_response"):
                # Home Assistant only returns a response to a blocking call; the entity-method form documents
                # no implicit blocking, so it is always given there
                if form.startswith("entity") or "blocking" in flags:
                    flags["blocking"] = True
            ops.append({"kind": "out", "ctx": ctx, "form": form, "data": data, "flags": flags})
    return {"cfg": cfg, "spec": {"ctxs": ctxs}, "ops": ops}


def _def_block(ctx: str, slot: int, form: str, indent: str) -> list[str]:
    names = names_of(ctx, slot, form)
    fname = f"s{slot}"
    lines = []
    if form == "default":
        lines.append(f"{indent}@service")
    elif form == "explicit":
        lines.append(f"{indent}@service('pyscript.{names[0]}')")
    elif form == "two_names":
        lines.append(f"{indent}@service('pyscript.{names[0]}', 'pyscript.{names[1]}')")
    elif form == "two_decorators":
        lines.append(f"{indent}@service('pyscript.{names[0]}')")
        lines.append(f"{indent}@service('pyscript.{names[1]}')")
    elif form == "optional":
        lines.append(f"{indent}@service('pyscript.{names[0]}', supports_response='optional')")
    else:
        lines.append(f"{indent}@service('pyscript.{names[0]}', supports_response='only')")
    lines.append(f"{indent}def {fname}(**kw):")
    lines.append(f"{indent}    sim.mark('svc', {ctx!r}, {slot}, gen, {form!r}, **kw)")
    lines.append(f"{indent}    if kw.get('nap'):")
    lines.append(f"{indent}        task.sleep(kw['nap'])")
    lines.append(f"{indent}        sim.mark('svc_end', {ctx!r}, {slot}, gen, {form!r}, **kw)")
    lines.append(f"{indent}    return {{'ctx': {ctx!r}, 'slot': {slot}, 'gen': gen, 'n': kw.get('n')}}")
    return lines


def _ctx_src(ctx: str, version: int) -> str:
    lines = [f"# version {version}", "", "@service", f"def life_{ctx}(cmd=None, slot=None, gen=None, form=None):",
             "    global s0, s1"]
    for slot in (0, 1):
        for form in FORMS:
            lines.append(f"    if cmd == 'define' and slot == {slot} and form == {form!r}:")
            lines += _def_block(ctx, slot, form, "        ")
        lines.append(f"    if cmd == 'delete' and slot == {slot}:")
        lines.append(f"        del s{slot}")
    lines += ["", "@service", f"def out_{ctx}(form=None, data=None, flags=None):",
              "    kw = dict(data)",
              "    if 'blocking' in flags:",
              "        kw['blocking'] = flags['blocking']",
              "    if 'return_response' in flags:",
              "        kw['return_response'] = True",
              "    if 'context' in flags:",
              "        kw['context'] = sim.get('make_context')()",
              "    if form == 'direct':",
              "        ret = test.record(**kw)",
              "    elif form == 'service_call':",
              "        ret = service.call('test', 'record', **kw)",
              "    elif form == 'entity_pos':",
              "        kw.pop('a')",
              "        kw.pop('txt')",
              "        ret = test.e1.record_one(data['a'], **kw)",
              "    else:",
              "        ret = test.e1.record(**kw)",
              f"    sim.mark('out', {ctx!r}, form, ret=ret)",
              ""]
    return "\n".join(lines) + "\n"


def render(scn: dict) -> dict:
    return {f"pyscript/{ctx}.py": _ctx_src(ctx, 0) for ctx in scn["spec"]["ctxs"]}


def normalize(scn: dict) -> dict | None:
    ctxs = scn["spec"]["ctxs"]
    scn["ops"] = [op for op in scn["ops"] if op.get("ctx", ctxs[0]) in ctxs]
    return scn


def simplify(scn: dict):
    if len(scn["spec"]["ctxs"]) > 1:
        used = {op.get("ctx") for op in scn["ops"]}
        for ctx in scn["spec"]["ctxs"]:
            if ctx not in used:
                cand = copy.deepcopy(scn)
                cand["spec"]["ctxs"].remove(ctx)
                yield cand
    for i, op in enumerate(scn["ops"]):
        if op.get("inflight"):
            cand = copy.deepcopy(scn)
            cand["ops"][i]["inflight"] = False
            yield cand
    for key, val in (("timer_late_ms", 0.0), ("cost_us", 50), ("exec_latency_ms", [0.0, 0.0]), ("set_order_salt", 0)):
        if scn["cfg"].get(key) != val:
            cand = copy.deepcopy(scn)
            cand["cfg"][key] = val
            yield cand


def warmup() -> None:
    scn = gen(random.Random(2), "quick")
    scn["ops"] = scn["ops"][:2]
    run(scn)


def run(scn: dict) -> dict:
    spec = scn["spec"]
    cfg = dict(scn["cfg"])
    cfg["initial_states"] = {"test.e1": ["on", {}]}
    w = World(cfg, render(scn))
    sub = "legacy" if cfg["legacy"] else "new"
    violations: list = []
    state = {"changed_hands": False}
    records: list = []

    def viol(cls, sig, detail):
        violations.append({"class": cls, "sig": {"subsystem": sub, **sig}, "detail": detail, "t": w.vts()})

    def pre_setup(hass):
        from homeassistant.core import SupportsResponse, callback
        from homeassistant.helpers.service import async_set_service_schema

        @callback
        def record(call):
            records.append({"service": call.service, "data": dict(call.data), "ctx": call.context, "vt": w.loop.vt,
                            "return_response": call.return_response})
            if call.return_response:
                return {"echo": dict(call.data)}
            return None

        hass.services.async_register("test", "record", record, supports_response=SupportsResponse.OPTIONAL)
        hass.services.async_register("test", "record_one", record, supports_response=SupportsResponse.OPTIONAL)
        async_set_service_schema(hass, "test", "record", {"description": "record", "fields": {
            "entity_id": {"description": "entity"}, "a": {"description": "a"}, "txt": {"description": "txt"}}})
        async_set_service_schema(hass, "test", "record_one", {"description": "record one", "fields": {
            "entity_id": {"description": "entity"}, "a": {"description": "a"}}})

    w.pre_setup = pre_setup

    async def driver(w: World):
        from homeassistant.core import Context
        from homeassistant.exceptions import ServiceNotFound

        made_ctx: list = []

        def make_context():
            ctx = Context()
            made_ctx.append(ctx)
            return ctx

        w.natives["make_context"] = make_context
        await w.started()
        # ---- reference model
        slots: dict = {}      # (ctx, slot) -> {"gen", "form", "names": registered names}
        owner: dict = {}      # name -> ctx
        gens: dict = {}
        version = {ctx: 0 for ctx in spec["ctxs"]}
        entry_loaded = True
        call_n = [0]
        all_names = sorted({n for ctx in spec["ctxs"] for slot in (0, 1) for form in FORMS for n in names_of(ctx, slot, form)})

        def declared() -> dict:
            """name -> list of (ctx, slot) that currently declare it (and own it)."""
            out: dict = {}
            for (ctx, slot), ent in slots.items():
                for name in ent["names"]:
                    out.setdefault(name, []).append((ctx, slot))
            return out

        def model_remove(ctx, slot):
            ent = slots.pop((ctx, slot), None)
            if ent is None:
                return
            dec = declared()
            for name in ent["names"]:
                if name not in dec:
                    owner.pop(name, None)

        def model_define(ctx, slot, form, gen_no):
            """Register-before-remove: the new definition takes its names, then the old one is dropped."""
            new_names = []
            conflict = False
            for name in names_of(ctx, slot, form):
                if owner.get(name, ctx) != ctx:
                    conflict = True
                    w.probe("foreign_takeover_attempt")
                    continue
                new_names.append(name)
            old = slots.get((ctx, slot))
            if old and set(old["names"]) != set(new_names):
                state["changed_hands"] = True
                w.probe("name_changed_hands")
            slots[(ctx, slot)] = {"gen": gen_no, "form": form, "names": new_names, "conflict": conflict}
            for name in new_names:
                owner[name] = ctx
            if old:
                dec = declared()
                for name in old["names"]:
                    if name not in dec:
                        owner.pop(name, None)
            if form == "two_names":
                w.probe("alias_form")
            if form == "two_decorators":
                w.probe("two_decorators_form")

        async def check_all(tag):
            dec = declared() if entry_loaded else {}
            dontcare = set()
            for (ctx, slot), ent in slots.items():
                if ent.get("conflict"):
                    dontcare.update(names_of(ctx, slot, ent["form"]))
            for name in all_names:
                has = w.hass.services.has_service("pyscript", name)
                should = name in dec
                if name in dontcare and not should:
                    # a name that could not be taken: the owner keeps it (checked through the owner), else open
                    if owner.get(name) is None:
                        continue
                    should = True
                if has != should:
                    viol("C12.registration", {"should_exist": should, "form": _form_of(name)},
                         f"after {tag}: pyscript.{name} exists={has}, reference says {should} (declared {dec}, owners {owner})")
                    continue
                if not has:
                    continue
                # the latest generation of the owning definition must run, with exactly the data
                holders = dec.get(name) or [(c, s) for (c, s), e in slots.items() if name in e["names"]]
                if not holders:
                    continue
                ctx, slot = holders[-1]
                ent = slots[(ctx, slot)]
                call_n[0] += 1
                data = {"n": call_n[0], "who": name}
                want_resp = ent["form"] in ("optional", "only")
                pos = len(w.marks)
                try:
                    resp = await w.call_service("pyscript", name, data, blocking=True, return_response=want_resp)
                except ServiceNotFound:
                    viol("C12.registration", {"should_exist": True, "form": _form_of(name)}, f"after {tag}: pyscript.{name} vanished")
                    continue
                except Exception as exc:  # pylint: disable=broad-except
                    viol("C12.call_raised", {"form": ent["form"]}, f"after {tag}: calling pyscript.{name} raised {exc!r}")
                    continue
                await w.settle(0.02)
                got = [m for m in w.marks[pos:] if m["args"][0] == "svc"]
                exp_args = ["svc", ctx, slot, ent["gen"], ent["form"]]
                if len(got) != 1 or got[0]["args"] != exp_args:
                    viol("C12.wrong_definition_ran", {"form": ent["form"]},
                         f"after {tag}: calling pyscript.{name} ran {[m['args'] for m in got]}, expected {exp_args}")
                elif {k: v for k, v in got[0]["kw"].items() if k != "context"} != {"trigger_type": "service", **data}:
                    viol("C12.call_kwargs", {"form": ent["form"]},
                         f"after {tag}: pyscript.{name} got kwargs {got[0]['kw']}, expected data {data} + trigger_type")
                if want_resp:
                    w.probe("response_returned")
                    if resp != {"ctx": ctx, "slot": slot, "gen": ent["gen"], "n": data["n"]}:
                        viol("C12.response", {"form": ent["form"]}, f"after {tag}: pyscript.{name} returned {resp!r}")

        await check_all("start")
        for i, op in enumerate(scn["ops"]):
            kind = op["kind"]
            tag = f"op{i}:{kind}"
            if not entry_loaded and kind != "setup":
                continue
            inflight = None
            if kind in ("define", "delete") and op.get("inflight"):
                ent = slots.get((op["ctx"], op["slot"]))
                if ent and ent["names"]:
                    name = ent["names"][0]
                    call_n[0] += 1
                    inflight = {"name": name, "n": call_n[0], "old_gen": ent["gen"], "pos": len(w.marks)}
                    w.probe("call_in_flight_during_redefinition")
                    try:
                        await w.call_service("pyscript", name, {"n": call_n[0], "who": name}, blocking=False,
                                             return_response=False) if ent["form"] != "only" else None
                    except ServiceNotFound:
                        inflight = None
                    if ent["form"] == "only":
                        inflight = None
            if kind == "define":
                key = (op["ctx"], op["slot"])
                gens[key] = gens.get(key, 0) + 1
                await w.call_service("pyscript", f"life_{op['ctx']}", {"cmd": "define", "slot": op["slot"], "gen": gens[key],
                                                                       "form": op["form"]})
                model_define(op["ctx"], op["slot"], op["form"], gens[key])
            elif kind == "delete":
                if (op["ctx"], op["slot"]) not in slots:
                    continue
                w.probe("deleted_then_called")
                await w.call_service("pyscript", f"life_{op['ctx']}", {"cmd": "delete", "slot": op["slot"]})
                model_remove(op["ctx"], op["slot"])
            elif kind == "reload_ctx":
                version[op["ctx"]] += 1
                w.write_file(f"pyscript/{op['ctx']}.py", _ctx_src(op["ctx"], version[op["ctx"]]))
                await w.reload()
                if any(c == op["ctx"] for (c, _s) in slots):
                    w.probe("reload_dropped_runtime_definitions")
                for key in [k for k in slots if k[0] == op["ctx"]]:
                    model_remove(*key)
            elif kind == "unload":
                await w.unload_entry()
                for key in list(slots):
                    model_remove(*key)
                entry_loaded = False
            elif kind == "setup":
                if entry_loaded:
                    continue
                await w.setup_entry()
                entry_loaded = True
            elif kind == "overlap":
                import asyncio

                ent = slots.get((op["ctx"], op["slot"]))
                if not ent or not ent["names"]:
                    continue
                name = ent["names"][-1]
                want_resp = ent["form"] in ("optional", "only")
                pos = len(w.marks)
                calls = []
                for nap in op["naps"]:
                    call_n[0] += 1
                    data = {"n": call_n[0], "who": name, "nap": nap}
                    fut = asyncio.ensure_future(w.call_service("pyscript", name, data, blocking=True,
                                                               return_response=want_resp))
                    calls.append((data, fut))
                    await w.sleep(op["gap"])
                w.probe("two_calls_of_one_service_overlap")
                for data, fut in calls:
                    try:
                        resp = await fut
                    except Exception as exc:  # pylint: disable=broad-except
                        viol("C12.call_raised", {"form": ent["form"], "overlap": True},
                             f"{tag}: overlapping call {data} of pyscript.{name} raised {exc!r}")
                        continue
                    if want_resp and resp != {"ctx": op["ctx"], "slot": op["slot"], "gen": ent["gen"], "n": data["n"]}:
                        viol("C12.response", {"form": ent["form"], "overlap": True},
                             f"{tag}: overlapping call {data} of pyscript.{name} returned {resp!r}")
                await w.settle(0.05)
                for data, _fut in calls:
                    exp_kw = {"trigger_type": "service", **data}
                    for which in ("svc", "svc_end"):
                        got = [m for m in w.marks[pos:] if m["args"][0] == which and
                               {k: v for k, v in m["kw"].items() if k != "context"} == exp_kw]
                        if len(got) != 1:
                            seen = [{k: v for k, v in m["kw"].items() if k != "context"}
                                    for m in w.marks[pos:] if m["args"][0] == which]
                            viol("C12.call_kwargs", {"form": ent["form"], "overlap": True, "at": which},
                                 f"{tag}: two overlapping calls of pyscript.{name}: the call with data {data} shows "
                                 f"{len(got)} '{which}' marks with its own keyword arguments; all '{which}' marks: {seen}")
                continue
            elif kind == "out":
                pos_r = len(records)
                pos_m = len(w.marks)
                n_ctx = len(made_ctx)
                await w.call_service("pyscript", f"out_{op['ctx']}", {"form": op["form"], "data": op["data"], "flags": op["flags"]})
                await w.settle(0.1)
                exp = dict(op["data"])
                svc = "record"
                if op["form"] == "entity_pos":
                    exp = {"a": op["data"]["a"], "entity_id": "test.e1"}
                    svc = "record_one"
                    w.probe("outgoing_entity_method")
                elif op["form"] == "entity_kw":
                    exp["entity_id"] = "test.e1"
                    w.probe("outgoing_entity_method")
                new = records[pos_r:]
                sig = {"form": op["form"], "flags": "+".join(sorted(op["flags"])) or "none"}
                if len(new) != 1 or new[0]["data"] != exp or new[0]["service"] != svc:
                    viol("C12.outgoing_call", sig, f"{tag}: script call delivered {[(r['service'], r['data']) for r in new]}, expected "
                                                   f"one call of test.{svc} with {exp}")
                else:
                    if "context" in op["flags"] and len(made_ctx) > n_ctx and new[0]["ctx"].id != made_ctx[-1].id:
                        viol("C12.outgoing_call", {**sig, "what": "context"}, f"{tag}: the given context was not used")
                    outs = [m for m in w.marks[pos_m:] if m["args"][0] == "out"]
                    if op["flags"].get("return_response"):
                        w.probe("outgoing_return_response")
                        if not outs or outs[0]["raw_kw"].get("ret") != {"echo": exp}:
                            viol("C12.outgoing_call", {**sig, "what": "response"},
                                 f"{tag}: return_response=True gave {outs[0]['raw_kw'].get('ret') if outs else None!r}")
                continue
            await w.settle(0.2)
            w.gc_now()
            await w.settle(0.2)
            if inflight:
                got = [m for m in w.marks[inflight["pos"]:] if m["args"][0] == "svc" and m["raw_kw"].get("n") == inflight["n"]]
                if len(got) != 1:
                    viol("C12.inflight_call", {"count": len(got)},
                         f"{tag}: the call of pyscript.{inflight['name']} made just before the op ran {len(got)} times")
            await check_all(tag)

    w.run(driver)
    if w.ha_exceptions:
        viol("C12.escaped_to_ha", {}, f"Home Assistant logged/handled: {w.ha_exceptions[:2]}")
    violations.sort(key=lambda v: v.get("t", 0.0))
    return base_result(w, violations, state["changed_hands"], {"ops": len(scn["ops"])})


def _form_of(name: str) -> str:
    for prefix, form in (("s", "default"), ("x", "explicit"), ("al", "two_names"), ("d", "two_decorators"), ("opt", "optional"),
                         ("only", "only")):
        if name.startswith(prefix) and name[len(prefix)].isdigit():
            return form
    return "?"
