"""C12 - a @service exists exactly while declared and calls the current definition.

Workload: 1-3 script files whose 'life_<ctx>' service defines, redefines and deletes global @service functions at
run time (default name, explicit name, two names in one decorator, two decorators, supports_response
none/optional/only); default names collide between contexts (ownership); ops define / redefine / delete /
edit+reload / unload / setup; calls with generated data after every op and, non-blocking, right before an op;
plus outgoing calls from a script to a recording service through every call form; some of them carry ordinary data
fields that merely share the NAME of a call option (context / blocking / return_response) without having its type.

Definitions in progress: 'define_racing' issues a definition without waiting for it (non-blocking service call) and,
a seeded 0-25 ms later, does something that stops or supersedes it: the script is edited and reloaded, the integration
is unloaded, the slot is deleted, or the slot is defined once more.  cfg["svc_params_delay_ms"] (sim/world.py) makes
the refresh of the service descriptions inside the start-up of a @service a real suspension point (legal: Home
Assistant loads descriptions through the executor), so the stop can land between "name registered" and "start-up
finished".

Oracle: a reference model of declared names, owners and latest generations.  Concurrent definitions/deletions of one
slot are put in the order in which the script reported them done (marks 'life'), a definition whose context was
reloaded/unloaded meanwhile is not declared by a loaded context any more, whenever it finishes.
"""

from __future__ import annotations

import copy
import random

from ..common import base_result, gen_cfg
from ..world import World

PROPERTY = "C12"
LEVEL = "exploration"
RULE = (
    "seeded generation of <=18 lifecycle ops (define/redefine in 6 declaration forms, delete, reload, unload, setup) over "
    "2 slots x 1-3 contexts, service calls with generated data after every op and in flight during ops, definitions "
    "still in progress (0-25 ms old, start-up suspended 0/2/8 ms in the service-description refresh) when their script "
    "is reloaded / the integration unloaded / the slot deleted or defined again, and outgoing calls in 4 call forms, "
    "optionally with data fields named like a call option but of another type; distinct = scenario digest; "
    "non-trivial = a service name changed hands between generations"
)
ASSUMPTIONS = [
    "a call that is in flight while its service is redefined may run either generation (exactly once)",
    "when a context fails to take a name owned by another context, what happens to the other names of the same "
    "function is don't-care; the owner's registration must be unaffected",
    "blocking/return_response/context are call options only with their documented types (bool / Context); a keyword "
    "of that name with a value of any other type (str, int, float, None, list) is an ordinary service data field and "
    "must be delivered like every other given keyword parameter ('exactly the given keyword parameters')",
    "a definition and a deletion/second definition of the same slot that overlap in time take effect in the order in "
    "which the script finished them (the statement following the def/del ran); a definition that is still in "
    "progress when its context is reloaded or unloaded belongs to no loaded context when it finishes",
    "the undocumented 'limit' option of the entity-method call form is not generated",
]
TIERS = {
    "quick": {"runs": 450, "chunk": 15},
    "thorough": {"runs": 20000, "chunk": 120, "chunk_timeout": 1800},
}
REACH_PROBES = ["name_changed_hands", "foreign_takeover_attempt", "call_in_flight_during_redefinition", "alias_form",
                "two_decorators_form", "response_returned", "deleted_then_called", "reload_dropped_runtime_definitions",
                "outgoing_entity_method", "outgoing_return_response", "two_calls_of_one_service_overlap",
                "outgoing_option_named_data_field", "definition_in_progress_when_stopped",
                "name_registered_by_definition_in_progress", "definition_in_progress_when_redefined_or_deleted",
                "slow_service_description_load"]
SHRINK_LISTS = [["ops"]]

CTXS = ["ca", "cb", "cc"]
FORMS = ["default", "explicit", "two_names", "two_decorators", "optional", "only"]
RACE_THEN = ["reload_ctx", "reload_ctx", "unload", "unload", "delete", "define"]
# values for a data field that is merely NAMED like a call option: never of the option's own type
ODD_VALUES = {
    "context": ["kitchen", 7, None, ["hall"]],
    "blocking": ["later", 0, 1, None, 2.5],
    "return_response": ["yes", 0, 1, None],
}


def names_of(ctx: str, slot: int, form: str) -> list[str]:
    if form == "default":
        return [f"s{slot}"]
    if form == "explicit":
        return [f"x{slot}_{ctx}"]
    if form == "two_names":
        return [f"al{slot}_{ctx}", f"al{slot}b_{ctx}"]
    if form == "two_decorators":
        return [f"d{slot}_{ctx}", f"d{slot}b_{ctx}"]
    if form == "optional":
        return [f"opt{slot}_{ctx}"]
    return [f"only{slot}_{ctx}"]


def gen(rng: random.Random, tier: str) -> dict:
    cfg = gen_cfg(rng)
    cfg["drift"] = 0.0
    # injected suspension inside State.get_service_params(), i.e. inside the start-up of a @service (new subsystem)
    cfg["svc_params_delay_ms"] = rng.choice([0, 0, 2.0, 8.0])
    ctxs = CTXS[: rng.randint(1, 3)]
    ops = []
    for _ in range(rng.randint(4, 18 if tier == "thorough" else 13)):
        roll = rng.random()
        ctx = rng.choice(ctxs)
        if roll < 0.45:
            ops.append({"kind": "define", "ctx": ctx, "slot": rng.randint(0, 1), "form": rng.choice(FORMS + ["default", "default"]),
                        "inflight": rng.random() < 0.3})
        elif roll < 0.52:
            # a definition that is still in progress (issued, not awaited) when something stops or supersedes it
            then = rng.choice(RACE_THEN)
            ops.append({"kind": "define_racing", "ctx": ctx, "slot": rng.randint(0, 1),
                        "form": rng.choice(FORMS + ["default", "default"]), "then": then,
                        "form2": rng.choice(FORMS + ["default", "default"]),
                        "after_ms": rng.choice([0, 0.1, 0.4, 1, 3, 10, 25])})
            if then == "unload":
                ops.append({"kind": "setup"})
        elif roll < 0.65:
            ops.append({"kind": "delete", "ctx": ctx, "slot": rng.randint(0, 1), "inflight": rng.random() < 0.3})
        elif roll < 0.72:
            ops.append({"kind": "reload_ctx", "ctx": ctx})
        elif roll < 0.80:
            # two calls of one service in flight at once, the first resumes while the second is still suspended
            naps = rng.choice([[0.2, 0.3], [0.3, 0.1], [0.2, 0.2], [0.4, 0.5]])
            ops.append({"kind": "overlap", "ctx": ctx, "slot": rng.randint(0, 1), "naps": naps, "gap": 0.1})
        elif roll < 0.85:
            ops.append({"kind": "unload"})
            ops.append({"kind": "setup"})
        else:
            data = {"a": rng.randint(0, 9), "txt": rng.choice(["x", "y"])}
            flags = {}
            if rng.random() < 0.4:
                flags["blocking"] = rng.random() < 0.7
            if rng.random() < 0.3:
                flags["return_response"] = True
            if rng.random() < 0.2:
                flags["context"] = True
            form = rng.choice(["direct", "service_call", "entity_pos", "entity_kw"])
            if flags.get("return_response"):
                # Home Assistant only returns a response to a blocking call; the entity-method form documents
                # no implicit blocking, so it is always given there
                if form.startswith("entity") or "blocking" in flags:
                    flags["blocking"] = True
            odd = {}
            if rng.random() < 0.4:
                # ordinary data fields that share the name of a call option (only where the option itself is not given)
                for key in rng.sample(sorted(ODD_VALUES), rng.choice([1, 1, 2, 3])):
                    if key not in flags:
                        odd[key] = rng.choice(ODD_VALUES[key])
            ops.append({"kind": "out", "ctx": ctx, "form": form, "data": data, "flags": flags, "odd": odd})
    return {"cfg": cfg, "spec": {"ctxs": ctxs}, "ops": ops}


def _def_block(ctx: str, slot: int, form: str, indent: str) -> list[str]:
    names = names_of(ctx, slot, form)
    fname = f"s{slot}"
    lines = []
    if form == "default":
        lines.append(f"{indent}@service")
    elif form == "explicit":
        lines.append(f"{indent}@service('pyscript.{names[0]}')")
    elif form == "two_names":
        lines.append(f"{indent}@service('pyscript.{names[0]}', 'pyscript.{names[1]}')")
    elif form == "two_decorators":
        lines.append(f"{indent}@service('pyscript.{names[0]}')")
        lines.append(f"{indent}@service('pyscript.{names[1]}')")
    elif form == "optional":
        lines.append(f"{indent}@service('pyscript.{names[0]}', supports_response='optional')")
    else:
        lines.append(f"{indent}@service('pyscript.{names[0]}', supports_response='only')")
    lines.append(f"{indent}def {fname}(**kw):")
    lines.append(f"{indent}    sim.mark('svc', {ctx!r}, {slot}, gen, {form!r}, **kw)")
    lines.append(f"{indent}    if kw.get('nap'):")
    lines.append(f"{indent}        task.sleep(kw['nap'])")
    lines.append(f"{indent}        sim.mark('svc_end', {ctx!r}, {slot}, gen, {form!r}, **kw)")
    lines.append(f"{indent}    return {{'ctx': {ctx!r}, 'slot': {slot}, 'gen': gen, 'n': kw.get('n')}}")
    return lines


def _ctx_src(ctx: str, version: int) -> str:
    lines = [f"# version {version}", "", "@service", f"def life_{ctx}(cmd=None, slot=None, gen=None, form=None):",
             "    global s0, s1"]
    for slot in (0, 1):
        for form in FORMS:
            lines.append(f"    if cmd == 'define' and slot == {slot} and form == {form!r}:")
            lines += _def_block(ctx, slot, form, "        ")
            lines.append(f"        sim.mark('life', 'defd', {ctx!r}, {slot}, gen)")
        lines.append(f"    if cmd == 'delete' and slot == {slot}:")
        lines.append(f"        del s{slot}")
        lines.append(f"        sim.mark('life', 'del', {ctx!r}, {slot}, None)")
    lines += ["", "@service", f"def out_{ctx}(form=None, data=None, flags=None, odd=None):",
              "    kw = dict(data)",
              "    kw.update(odd or {})",
              "    if 'blocking' in flags:",
              "        kw['blocking'] = flags['blocking']",
              "    if 'return_response' in flags:",
              "        kw['return_response'] = True",
              "    if 'context' in flags:",
              "        kw['context'] = sim.get('make_context')()",
              "    if form == 'direct':",
              "        ret = test.record(**kw)",
              "    elif form == 'service_call':",
              "        ret = service.call('test', 'record', **kw)",
              "    elif form == 'entity_pos':",
              "        kw.pop('a')",
              "        kw.pop('txt')",
              "        ret = test.e1.record_one(data['a'], **kw)",
              "    else:",
              "        ret = test.e1.record(**kw)",
              f"    sim.mark('out', {ctx!r}, form, ret=ret)",
              ""]
    return "\n".join(lines) + "\n"


def render(scn: dict) -> dict:
    return {f"pyscript/{ctx}.py": _ctx_src(ctx, 0) for ctx in scn["spec"]["ctxs"]}


def normalize(scn: dict) -> dict | None:
    ctxs = scn["spec"]["ctxs"]
    scn["ops"] = [op for op in scn["ops"] if op.get("ctx", ctxs[0]) in ctxs]
    return scn


def simplify(scn: dict):
    if len(scn["spec"]["ctxs"]) > 1:
        used = {op.get("ctx") for op in scn["ops"]}
        for ctx in scn["spec"]["ctxs"]:
            if ctx not in used:
                cand = copy.deepcopy(scn)
                cand["spec"]["ctxs"].remove(ctx)
                yield cand
    for i, op in enumerate(scn["ops"]):
        if op.get("inflight"):
            cand = copy.deepcopy(scn)
            cand["ops"][i]["inflight"] = False
            yield cand
        if op["kind"] == "define_racing":
            # an ordinary, awaited definition instead (followed by the plain form of what came after it)
            cand = copy.deepcopy(scn)
            plain = [{"kind": "define", "ctx": op["ctx"], "slot": op["slot"], "form": op["form"], "inflight": False}]
            if op["then"] == "define":
                plain.append({"kind": "define", "ctx": op["ctx"], "slot": op["slot"], "form": op["form2"], "inflight": False})
            elif op["then"] == "unload":
                plain.append({"kind": "unload"})
            else:
                plain.append({"kind": op["then"], "ctx": op["ctx"], "slot": op["slot"], "inflight": False})
            cand["ops"][i:i + 1] = plain
            yield cand
            if op["after_ms"]:
                cand = copy.deepcopy(scn)
                cand["ops"][i]["after_ms"] = 0
                yield cand
            if op["form"] != "default":
                cand = copy.deepcopy(scn)
                cand["ops"][i]["form"] = "default"
                yield cand
        if op["kind"] == "out" and op.get("odd"):
            cand = copy.deepcopy(scn)
            cand["ops"][i]["odd"] = {}
            yield cand
            if len(op["odd"]) > 1:
                for key in sorted(op["odd"]):
                    cand = copy.deepcopy(scn)
                    cand["ops"][i]["odd"] = {key: op["odd"][key]}
                    yield cand
    for key, val in (("timer_late_ms", 0.0), ("cost_us", 50), ("exec_latency_ms", [0.0, 0.0]), ("set_order_salt", 0),
                     ("svc_params_delay_ms", 0)):
        if scn["cfg"].get(key) != val:
            cand = copy.deepcopy(scn)
            cand["cfg"][key] = val
            yield cand


def warmup() -> None:
    scn = gen(random.Random(2), "quick")
    scn["ops"] = scn["ops"][:2]
    run(scn)


def run(scn: dict) -> dict:
    spec = scn["spec"]
    cfg = dict(scn["cfg"])
    cfg["initial_states"] = {"test.e1": ["on", {}]}
    w = World(cfg, render(scn))
    sub = "legacy" if cfg["legacy"] else "new"
    violations: list = []
    state = {"changed_hands": False}
    records: list = []

    def viol(cls, sig, detail):
        violations.append({"class": cls, "sig": {"subsystem": sub, **sig}, "detail": detail, "t": w.vts()})

    def pre_setup(hass):
        from homeassistant.core import SupportsResponse, callback
        from homeassistant.helpers.service import async_set_service_schema

        @callback
        def record(call):
            records.append({"service": call.service, "data": dict(call.data), "ctx": call.context, "vt": w.loop.vt,
                            "return_response": call.return_response})
            if call.return_response:
                return {"echo": dict(call.data)}
            return None

        hass.services.async_register("test", "record", record, supports_response=SupportsResponse.OPTIONAL)
        hass.services.async_register("test", "record_one", record, supports_response=SupportsResponse.OPTIONAL)
        async_set_service_schema(hass, "test", "record", {"description": "record", "fields": {
            "entity_id": {"description": "entity"}, "a": {"description": "a"}, "txt": {"description": "txt"}}})
        async_set_service_schema(hass, "test", "record_one", {"description": "record one", "fields": {
            "entity_id": {"description": "entity"}, "a": {"description": "a"}}})

    w.pre_setup = pre_setup

    async def driver(w: World):
        from homeassistant.core import Context
        from homeassistant.exceptions import ServiceNotFound

        made_ctx: list = []

        def make_context():
            ctx = Context()
            made_ctx.append(ctx)
            return ctx

        w.natives["make_context"] = make_context
        await w.started()
        # ---- reference model
        slots: dict = {}      # (ctx, slot) -> {"gen", "form", "names": registered names}
        owner: dict = {}      # name -> ctx
        gens: dict = {}
        version = {ctx: 0 for ctx in spec["ctxs"]}
        entry_loaded = True
        call_n = [0]
        all_names = sorted({n for ctx in spec["ctxs"] for slot in (0, 1) for form in FORMS for n in names_of(ctx, slot, form)})

        def declared() -> dict:
            """name -> list of (ctx, slot) that currently declare it (and own it)."""
            out: dict = {}
            for (ctx, slot), ent in slots.items():
                for name in ent["names"]:
                    out.setdefault(name, []).append((ctx, slot))
            return out

        def model_remove(ctx, slot):
            ent = slots.pop((ctx, slot), None)
            if ent is None:
                return
            dec = declared()
            for name in ent["names"]:
                if name not in dec:
                    owner.pop(name, None)

        def model_define(ctx, slot, form, gen_no):
            """Register-before-remove: the new definition takes its names, then the old one is dropped."""
            new_names = []
            conflict = False
            for name in names_of(ctx, slot, form):
                if owner.get(name, ctx) != ctx:
                    conflict = True
                    w.probe("foreign_takeover_attempt")
                    continue
                new_names.append(name)
            old = slots.get((ctx, slot))
            if old and set(old["names"]) != set(new_names):
                state["changed_hands"] = True
                w.probe("name_changed_hands")
            slots[(ctx, slot)] = {"gen": gen_no, "form": form, "names": new_names, "conflict": conflict}
            for name in new_names:
                owner[name] = ctx
            if old:
                dec = declared()
                for name in old["names"]:
                    if name not in dec:
                        owner.pop(name, None)
            if form == "two_names":
                w.probe("alias_form")
            if form == "two_decorators":
                w.probe("two_decorators_form")

        async def check_all(tag):
            dec = declared() if entry_loaded else {}
            dontcare = set()
            for (ctx, slot), ent in slots.items():
                if ent.get("conflict"):
                    dontcare.update(names_of(ctx, slot, ent["form"]))
            for name in all_names:
                has = w.hass.services.has_service("pyscript", name)
                should = name in dec
                if name in dontcare and not should:
                    # a name that could not be taken: the owner keeps it (checked through the owner), else open
                    if owner.get(name) is None:
                        continue
                    should = True
                if has != should:
                    viol("C12.registration", {"should_exist": should, "form": _form_of(name)},
                         f"after {tag}: pyscript.{name} exists={has}, reference says {should} (declared {dec}, owners {owner})")
                    continue
                if not has:
                    continue
                # the latest generation of the owning definition must run, with exactly the data
                holders = dec.get(name) or [(c, s) for (c, s), e in slots.items() if name in e["names"]]
                if not holders:
                    continue
                ctx, slot = holders[-1]
                ent = slots[(ctx, slot)]
                call_n[0] += 1
                data = {"n": call_n[0], "who": name}
                want_resp = ent["form"] in ("optional", "only")
                pos = len(w.marks)
                try:
                    resp = await w.call_service("pyscript", name, data, blocking=True, return_response=want_resp)
                except ServiceNotFound:
                    viol("C12.registration", {"should_exist": True, "form": _form_of(name)}, f"after {tag}: pyscript.{name} vanished")
                    continue
                except Exception as exc:  # pylint: disable=broad-except
                    viol("C12.call_raised", {"form": ent["form"]}, f"after {tag}: calling pyscript.{name} raised {exc!r}")
                    continue
                await w.settle(0.02)
                got = [m for m in w.marks[pos:] if m["args"][0] == "svc"]
                exp_args = ["svc", ctx, slot, ent["gen"], ent["form"]]
                if len(got) != 1 or got[0]["args"] != exp_args:
                    viol("C12.wrong_definition_ran", {"form": ent["form"]},
                         f"after {tag}: calling pyscript.{name} ran {[m['args'] for m in got]}, expected {exp_args}")
                elif {k: v for k, v in got[0]["kw"].items() if k != "context"} != {"trigger_type": "service", **data}:
                    viol("C12.call_kwargs", {"form": ent["form"]},
                         f"after {tag}: pyscript.{name} got kwargs {got[0]['kw']}, expected data {data} + trigger_type")
                if want_resp:
                    w.probe("response_returned")
                    if resp != {"ctx": ctx, "slot": slot, "gen": ent["gen"], "n": data["n"]}:
                        viol("C12.response", {"form": ent["form"]}, f"after {tag}: pyscript.{name} returned {resp!r}")

        await check_all("start")
        for i, op in enumerate(scn["ops"]):
            kind = op["kind"]
            tag = f"op{i}:{kind}"
            if not entry_loaded and kind != "setup":
                continue
            inflight = None
            if kind in ("define", "delete") and op.get("inflight"):
                ent = slots.get((op["ctx"], op["slot"]))
                if ent and ent["names"]:
                    name = ent["names"][0]
                    call_n[0] += 1
                    inflight = {"name": name, "n": call_n[0], "old_gen": ent["gen"], "pos": len(w.marks)}
                    w.probe("call_in_flight_during_redefinition")
                    try:
                        await w.call_service("pyscript", name, {"n": call_n[0], "who": name}, blocking=False,
                                             return_response=False) if ent["form"] != "only" else None
                    except ServiceNotFound:
                        inflight = None
                    if ent["form"] == "only":
                        inflight = None
            if kind == "define":
                key = (op["ctx"], op["slot"])
                gens[key] = gens.get(key, 0) + 1
                await w.call_service("pyscript", f"life_{op['ctx']}", {"cmd": "define", "slot": op["slot"], "gen": gens[key],
                                                                       "form": op["form"]})
                model_define(op["ctx"], op["slot"], op["form"], gens[key])
            elif kind == "delete":
                if (op["ctx"], op["slot"]) not in slots:
                    continue
                w.probe("deleted_then_called")
                await w.call_service("pyscript", f"life_{op['ctx']}", {"cmd": "delete", "slot": op["slot"]})
                model_remove(op["ctx"], op["slot"])
            elif kind == "reload_ctx":
                version[op["ctx"]] += 1
                w.write_file(f"pyscript/{op['ctx']}.py", _ctx_src(op["ctx"], version[op["ctx"]]))
                await w.reload()
                if any(c == op["ctx"] for (c, _s) in slots):
                    w.probe("reload_dropped_runtime_definitions")
                for key in [k for k in slots if k[0] == op["ctx"]]:
                    model_remove(*key)
            elif kind == "unload":
                await w.unload_entry()
                for key in list(slots):
                    model_remove(*key)
                entry_loaded = False
            elif kind == "setup":
                if entry_loaded:
                    continue
                await w.setup_entry()
                entry_loaded = True
            elif kind == "define_racing":
                ctx, slot = op["ctx"], op["slot"]
                key = (ctx, slot)
                gens[key] = gens.get(key, 0) + 1
                g1 = gens[key]
                pos = len(w.marks)
                had = {n: w.hass.services.has_service("pyscript", n) for n in names_of(ctx, slot, op["form"])}
                await w.call_service("pyscript", f"life_{ctx}", {"cmd": "define", "slot": slot, "gen": g1, "form": op["form"]},
                                     blocking=False)
                if op["after_ms"]:
                    await w.sleep(op["after_ms"] / 1000.0)

                def life_marks():
                    return [m["args"][1:] for m in w.marks[pos:] if m["args"][0] == "life" and m["args"][2:4] == [ctx, slot]]

                then = op["then"]
                if then == "delete" and key not in slots:
                    then = "nothing"   # nothing to delete: the definition is just not waited for
                if ["defd", ctx, slot, g1] not in life_marks():
                    w.probe("definition_in_progress_when_stopped" if then in ("reload_ctx", "unload") else
                            "definition_in_progress_when_redefined_or_deleted")
                    if any(w.hass.services.has_service("pyscript", n) and not had[n] for n in had):
                        w.probe("name_registered_by_definition_in_progress")
                if then == "reload_ctx":
                    version[ctx] += 1
                    w.write_file(f"pyscript/{ctx}.py", _ctx_src(ctx, version[ctx]))
                    await w.reload()
                    # whatever the old script was still defining is not declared by a loaded context any more
                    for k in [k for k in slots if k[0] == ctx]:
                        model_remove(*k)
                elif then == "unload":
                    await w.unload_entry()
                    for k in list(slots):
                        model_remove(*k)
                    entry_loaded = False
                else:
                    g2 = None
                    if then == "delete":
                        await w.call_service("pyscript", f"life_{ctx}", {"cmd": "delete", "slot": slot})
                    elif then == "define":
                        gens[key] += 1
                        g2 = gens[key]
                        await w.call_service("pyscript", f"life_{ctx}", {"cmd": "define", "slot": slot, "gen": g2,
                                                                         "form": op["form2"]})
                    await w.settle(0.1)
                    # the order in which the script finished the statements is the order in which they took effect
                    done = life_marks()
                    want = [["defd", ctx, slot, g1]]
                    if then == "delete":
                        want.append(["del", ctx, slot, None])
                    elif then == "define":
                        want.append(["defd", ctx, slot, g2])
                    if sorted(done, key=repr) != sorted(want, key=repr):
                        # each of the two overlapping calls of the script's own service must have run exactly once,
                        # with its own data; what the script defined is unknown now, so the scenario ends here
                        viol("C12.call_kwargs", {"form": "default", "overlap": True, "at": "life"},
                             f"{tag}: two overlapping calls of pyscript.life_{ctx} were issued with (cmd, ctx, slot, gen) = "
                             f"{want}; the script reports having done {done}")
                        return
                    for what, _c, _s, gen_no in done:
                        if what == "del":
                            model_remove(ctx, slot)
                        else:
                            model_define(ctx, slot, op["form"] if gen_no == g1 else op["form2"], gen_no)
            elif kind == "overlap":
                import asyncio

                ent = slots.get((op["ctx"], op["slot"]))
                if not ent or not ent["names"]:
                    continue
                name = ent["names"][-1]
                want_resp = ent["form"] in ("optional", "only")
                pos = len(w.marks)
                calls = []
                for nap in op["naps"]:
                    call_n[0] += 1
                    data = {"n": call_n[0], "who": name, "nap": nap}
                    fut = asyncio.ensure_future(w.call_service("pyscript", name, data, blocking=True,
                                                               return_response=want_resp))
                    calls.append((data, fut))
                    await w.sleep(op["gap"])
                w.probe("two_calls_of_one_service_overlap")
                for data, fut in calls:
                    try:
                        resp = await fut
                    except Exception as exc:  # pylint: disable=broad-except
                        viol("C12.call_raised", {"form": ent["form"], "overlap": True},
                             f"{tag}: overlapping call {data} of pyscript.{name} raised {exc!r}")
                        continue
                    if want_resp and resp != {"ctx": op["ctx"], "slot": op["slot"], "gen": ent["gen"], "n": data["n"]}:
                        viol("C12.response", {"form": ent["form"], "overlap": True},
                             f"{tag}: overlapping call {data} of pyscript.{name} returned {resp!r}")
                await w.settle(0.05)
                for data, _fut in calls:
                    exp_kw = {"trigger_type": "service", **data}
                    for which in ("svc", "svc_end"):
                        got = [m for m in w.marks[pos:] if m["args"][0] == which and
                               {k: v for k, v in m["kw"].items() if k != "context"} == exp_kw]
                        if len(got) != 1:
                            seen = [{k: v for k, v in m["kw"].items() if k != "context"}
                                    for m in w.marks[pos:] if m["args"][0] == which]
                            viol("C12.call_kwargs", {"form": ent["form"], "overlap": True, "at": which},
                                 f"{tag}: two overlapping calls of pyscript.{name}: the call with data {data} shows "
                                 f"{len(got)} '{which}' marks with its own keyword arguments; all '{which}' marks: {seen}")
                continue
            elif kind == "out":
                pos_r = len(records)
                pos_m = len(w.marks)
                n_ctx = len(made_ctx)
                odd = op.get("odd") or {}
                call_data = {"form": op["form"], "data": op["data"], "flags": op["flags"]}
                if odd:
                    call_data["odd"] = odd
                    w.probe("outgoing_option_named_data_field")
                await w.call_service("pyscript", f"out_{op['ctx']}", call_data)
                await w.settle(0.1)
                # exactly the given keyword parameters: a keyword that is not a call option (by name AND type) is data
                exp = {**op["data"], **odd}
                svc = "record"
                if op["form"] == "entity_pos":
                    exp = {"a": op["data"]["a"], "entity_id": "test.e1", **odd}
                    svc = "record_one"
                    w.probe("outgoing_entity_method")
                elif op["form"] == "entity_kw":
                    exp["entity_id"] = "test.e1"
                    w.probe("outgoing_entity_method")
                new = records[pos_r:]
                sig = {"form": op["form"], "flags": "+".join(sorted(op["flags"])) or "none"}
                if odd:
                    sig["option_named_field"] = "+".join(sorted(odd))
                if len(new) != 1 or new[0]["data"] != exp or new[0]["service"] != svc:
                    viol("C12.outgoing_call", sig, f"{tag}: script call delivered {[(r['service'], r['data']) for r in new]}, expected "
                                                   f"one call of test.{svc} with {exp}")
                else:
                    if "context" in op["flags"] and len(made_ctx) > n_ctx and new[0]["ctx"].id != made_ctx[-1].id:
                        viol("C12.outgoing_call", {**sig, "what": "context"}, f"{tag}: the given context was not used")
                    outs = [m for m in w.marks[pos_m:] if m["args"][0] == "out"]
                    if op["flags"].get("return_response"):
                        w.probe("outgoing_return_response")
                        if not outs or outs[0]["raw_kw"].get("ret") != {"echo": exp}:
                            viol("C12.outgoing_call", {**sig, "what": "response"},
                                 f"{tag}: return_response=True gave {outs[0]['raw_kw'].get('ret') if outs else None!r}")
                continue
            await w.settle(0.2)
            w.gc_now()
            await w.settle(0.2)
            if inflight:
                got = [m for m in w.marks[inflight["pos"]:] if m["args"][0] == "svc" and m["raw_kw"].get("n") == inflight["n"]]
                if len(got) != 1:
                    viol("C12.inflight_call", {"count": len(got)},
                         f"{tag}: the call of pyscript.{inflight['name']} made just before the op ran {len(got)} times")
            await check_all(tag)

    if float(cfg.get("svc_params_delay_ms") or 0.0) > 0:
        w.probe("slow_service_description_load")
    w.run(driver)
    if w.ha_exceptions:
        viol("C12.escaped_to_ha", {}, f"Home Assistant logged/handled: {w.ha_exceptions[:2]}")
    violations.sort(key=lambda v: v.get("t", 0.0))
    return base_result(w, violations, state["changed_hands"], {"ops": len(scn["ops"])})


def _form_of(name: str) -> str:
    for prefix, form in (("s", "default"), ("x", "explicit"), ("al", "two_names"), ("d", "two_decorators"), ("opt", "optional"),
                         ("only", "only")):
        if name.startswith(prefix) and name[len(prefix)].isdigit():
            return form
    return "?"
