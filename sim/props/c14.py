"""C14 - every run is an independent task whose exit always cleans up (fault enumeration).

Workload: task graphs of <= 4 tasks (trigger runs, service calls, task.create children) using
add/remove_done_callback (plain, sleeping, raising callbacks; and one method of a script-defined class bound
to up to three different instances - an observer list - either bound once and kept, or looked up afresh for
every registration), unique, executor (value / exception), wait_until, sleep (positive, zero and negative
durations), spin loops around task.sleep(0 / <0 / tiny), raise, cancel of itself; optionally a waiter task that
task.wait()s for the victim and reports what it sees.  task.create children with the same start instant may be
created by one spawner run in one go (siblings that are all ready at the same time).  The waiter may be given a SET of
tasks (the victim and other runs), may arrive only after some of them have finished, and may use timeout= or
return_when=FIRST_COMPLETED.  Programs may be @time_trigger("shutdown") functions: they are all started, after the
other runs are over, by ONE unload of the config entry / reload of the script by name / reload after touching or
deleting the file (several shutdown runs, some of which suspend).  A creator run may give its task.create child a done
callback and cancel it right away (before the child's first step) or a few loop passes later, then wait for it.
Callbacks may suspend in task.sleep() or in a blocking call of a pyscript service; 2..4 programs may share one such
callback function (own arguments each) that stays suspended long enough for the callback phases of these tasks to
overlap.  A callback may edit the callback set of its own task while the callbacks run (remove a function that has
run / has not run yet / itself / was never added; add a new one).  A run may give ANOTHER run's task a done callback
(add_cb_to), whatever that task is doing then: not started, running, in its done callbacks, finished.  In the
fresh-lookup mode the method of one instance may be registered again and removed (each time a new lookup).

Fault enumeration: the scenario is run once fault-free; then it is re-run with ONE cancellation of
the victim task placed at every loop pass of the victim's life (capped in the quick tier), through
pyscript's reaper (what task.cancel/task.unique use) or a raw Task.cancel() (what HA does at stop).

Oracle: bystander runs are unchanged by the victim's fate; the victim's markers are a prefix of its
fault-free markers; each registered done callback (one per callback function: the same method bound to two
instances are two functions) runs exactly once with its arguments; the waiter sees the right outcome; at final
quiescence pyscript's registries hold nothing for finished tasks.  A run that sleeps/waits gives way: every
task.sleep(), whatever its duration, suspends the run for at least one loop pass, and a run that had already been
created (and not yet started) when another run went to sleep starts before the sleeper carries on.  Every program run
has a task of its own (no two programs share task.current_task()); the shutdown runs of one unload all start within
50 ms of the first one, whatever the others do, and the unload/reload returns; task.wait() returns every task it was
given in exactly one of done / pending (a task finished before the call is done; without timeout/return_when all are
done) and result()/cancelled() of each done task is that run's outcome; a done callback reads the same arguments
after a suspension of its own; every task.executor call that delivered went through the loop's executor; the
creator's task.cancel(child) does not raise, the child ends cancelled, its callback runs exactly once.  A callback
removed (by the run or by an earlier callback) before it ran does not run; one added while the task is not done yet
(by a callback of the task or by another run) runs exactly once; the task of a function that returned has no
exception; nothing is kept for a task that was given a callback after it had finished.
"""

from __future__ import annotations

import copy
import random

from ..common import base_result, gen_cfg
from ..world import World

PROPERTY = "C14"
LEVEL = "fault_enumeration"
RULE = (
    "seeded generation of task graphs (<=4 programs of <=7 steps; per scenario knobs: share of done callbacks that are "
    "bound methods of a script class on different instances and whether they are bound once or looked up per "
    "registration, share of sleeps with a zero/negative duration, spin loops around task.sleep(<=0), task.create "
    "siblings spawned in one go, task.wait on a set of 1..4 tasks arriving 4 passes / 0.3 / 0.8 / 1.5 s after the "
    "victim started with no / timeout= / return_when= argument, 30 %: 1-3 non-victim programs are "
    "@time_trigger('shutdown') functions started together by unload / reload by name / touch+reload / delete+reload, "
    "16 %: a creator run cancelling its task.create child 0 / 1 / 3 passes after creating it; per scenario share of "
    "sleeping callbacks that suspend in a blocking service call instead (0 / 0.5) and of registrations that are a "
    "callback editing its own task's callback set with 1-2 remove/add operations (0 / 0.15 / 0.35); 25 % of the "
    "scenarios with >= 2 runs: 2..n programs register the same suspending callback first thing and it stays "
    "suspended 0.6-1.5 s (overlapping callback phases), in half of these another run gives one of those tasks a "
    "further callback at its end; 25 %: 1-2 add_done_callback calls on another run's task at a random step; "
    "fresh-lookup scenarios: half of them re-register / remove the method of one instance; steer coins keep, in "
    "half of the scenarios each, done callbacks and task.cancel() out of shutdown runs, sleeping callbacks to one "
    "program, and the creator's cancel after the child's start); per scenario one fault-free run plus one run per "
    "cancellation point = every loop pass between the victim's start and its end (+2), capped at 40 evenly spread "
    "points in the quick tier, complete in the thorough tier; distinct = scenario digest; non-trivial = at least one "
    "cancellation actually landed on a suspended victim"
)
ASSUMPTIONS = [
    "bystander programs share no names/events with the victim, so any change in their markers is interference",
    "a cancellation that lands while the victim is already running its done callbacks: callbacks after the "
    "interrupted one are don't-care, registry clean-up is still required",
    "timing of bystanders may shift by a few loop passes (slack 50 ms)",
    "the method of one instance is ONE callback function however often it is looked up (inst.method == inst.method in "
    "Python, dicts/sets and asyncio's remove_done_callback treat two lookups as the same callable; the documentation "
    "speaks of 'the same func argument'): adding inst.on_done again replaces the arguments, remove_done_callback(t, "
    "inst.on_done) removes it. Violations of this are reported as C14.bound_method_not_one_function (finding on the "
    "unchanged code: pyscript's bound-method wrapper compares by identity); the steer coin spec.fresh_repeat keeps "
    "repeated registration / removal out of half of the fresh-lookup scenarios. The same method on two DIFFERENT "
    "instances are always two callback functions",
    "editing a task's callback set while its callbacks run (the task is not done yet): remove_done_callback of a "
    "function that has not run yet means it 'will no longer occur' (reference); of one that has already run or of "
    "the running callback itself: no effect; add_done_callback of a new function: it 'is called when the task "
    "completes', exactly once; every other callback still runs exactly once and the task keeps its result. Not "
    "generated (open): re-adding a function that has already run in this callback phase; for a callback another run "
    "adds when cb_foreign has already run in the target's phase, 1..2 runs are accepted",
    "task.add_done_callback on a task that has ALREADY finished: whether the callback is called is not documented "
    "(don't-care, never counted); required is only that pyscript's registries keep nothing for the finished task "
    "[C14.callback_kept_for_finished_task]; task.remove_done_callback on a finished task is not generated",
    "a violation that names its construct (C14.callback_set_edited_while_running, C14.callback_kept_for_finished_task, "
    "C14.bound_method_not_one_function) stands for the whole execution: other violations of the same execution may be "
    "consequences (exception reaching HA, what a waiter saw) and are not reported next to it",
    "order in which the callbacks of one task run is not documented: 'has run / has not run yet' is taken from the "
    "observed markers, never from a modelled order",
    "task.sleep(d) with d <= 0 is a suspension point of one loop pass (what asyncio.sleep does), never a no-op: the "
    "markers before and after it must lie in different loop passes",
    "ready-run rule: a run whose task existed but had not started when another run executed the marker in front of "
    "a sleep / wait_until / blocking service call must emit its start marker before the sleeper's next marker "
    "(the event loop serves ready tasks in FIFO order; a run's start marker is reached in its first slice)",
    "task.wait(): asyncio.wait semantics as referred to by the documentation - every given task is returned in done "
    "or pending; with timeout=/return_when= a still-running victim may legitimately be pending (its outcome is then "
    "not judged); result() of a run that raised is not documented (don't-care); result() of trigger/service runs "
    "only has to be 'finished, not cancelled'",
    "shutdown runs: never the victim; they use no blocking call of the script's own services (already removed); "
    "whether a reload waits for the shutdown runs of the old script is not decided by this property (a reload by "
    "name does not), so they get 9 s to end after the unload/reload was requested; 'not delayed' = started within "
    "50 ms of the first shutdown run of the same unload; a reloaded script's shutdown functions run again when the "
    "world is torn down: markers after the driver's end are ignored",
    "findings on the unchanged code kept visible in half of the scenarios that contain the construct (steer coins): "
    "legacy shutdown run + task.add_done_callback(task.current_task()) [C14.done_callback_rejected]; legacy shutdown "
    "run + task.cancel() [C14.shutdown_never_returned]; two tasks whose sleeping done callbacks overlap "
    "[C14.callback_args when=after_its_suspension]; task.cancel(child) before the child's first step "
    "[C14.cancel_rejected]; a method of one instance looked up afresh and registered again / removed "
    "[C14.bound_method_not_one_function]",
]
TIERS = {
    "quick": {"runs": 200, "chunk": 7, "max_points": 40, "chunk_timeout": 900},
    "thorough": {"runs": 5000, "chunk": 40, "max_points": 100000, "chunk_timeout": 3600},
}
REACH_PROBES = ["cancel_landed", "cancel_in_done_callback", "cancel_during_executor", "cancel_in_wait_until", "cancel_in_blocking_service_call",
                "cancel_in_sleep", "cancel_after_end", "raising_callback_then_other",
                "waiter_saw_cancelled", "callback_removed", "cancel_by_unique_takeover", "takeover_before_claim",
                "two_bound_methods_on_one_task", "bound_method_replaced_or_removed", "bound_method_fresh_lookup",
                "sleep_zero_or_negative", "spin_loop", "cancel_in_sleep0", "siblings_spawned_together",
                "ready_run_while_other_sleeps", "ready_run_while_other_sleeps0",
                "wait_on_task_set", "wait_some_already_finished", "wait_all_already_finished", "wait_with_timeout",
                "wait_first_completed", "shutdown_run", "shutdown_runs_together", "executor_call",
                "child_cancelled_before_first_step", "child_cancelled_after_start",
                "shared_sleeping_callback_overlaps", "shared_service_calling_callback_overlaps",
                "callback_edits_own_task", "callback_removes_pending_callback", "callback_removes_finished_callback",
                "callback_removes_itself", "callback_adds_callback",
                "callback_added_by_other_task", "callback_added_by_other_task_during_callbacks",
                "callback_added_to_finished_task", "bound_method_fresh_lookup_repeated"]
# probes that only fire together with the violation they describe (C14-F3, repaired): not "reach"
SYMPTOM_PROBES = ["raising_callback_then_other"]
SHRINK_LISTS = [["spec", "progs"], ["spec", "progs", "*", "steps"]]
GRID = 0.25
CB_KINDS = ["plain", "sleep", "raise"]
METHOD_KINDS = ["m0", "m1", "m2"]  # Watcher.on_done bound to watchers[0..2]
# callbacks that suspend and read their argument afterwards: task.sleep() / a blocking call of a pyscript service
SUSP_CB = ("sleep", "svc")
# "edit": a callback that removes / adds done callbacks of its own task while that task's callbacks are running
# (cb_late is only ever registered that way); cb_foreign is only ever registered by ANOTHER run (add_cb_to steps)
ALL_CB_KINDS = CB_KINDS + ["svc", "edit"] + METHOD_KINDS
CB_DUR = 0.3  # how long cb_sleep / cb_svc stay suspended unless the scenario says otherwise (spec["cb_dur"])
RUN_HORIZON = 8.0  # all runs of the main phase are over by then
ZERO_DURS = [0, 0, -1, -0.25]  # task.sleep() durations that ask for "just let the others run"
SPIN_DURS = [0, 0, -1, 0.001]
SUSPENDING = ("sleep", "spin", "wait_until", "call_svc")
WAIT_AFTER = [None, None, 0.3, 0.8, 1.5]  # None: 4 loop passes after the victim started; else seconds after it
WAIT_KW = [None, None, None, ["timeout", 0.4], ["first"]]  # task.wait(): plain / timeout= / return_when=FIRST_COMPLETED
# unload the config entry / reload the script by name / touch it and reload / delete it and reload
SHUTDOWN_VIA = ["unload", "reload", "touch", "delete"]
SHUTDOWN_HORIZON = 9.0


# ------------------------------------------------------------------ generation
def _gen_steps(rng: random.Random, victim: bool, knobs: dict | None = None) -> list:
    knobs = knobs or {}
    p_method = knobs.get("p_method", 0.0)
    p_zero = knobs.get("p_zero", 0.0)
    fresh = knobs.get("method_lookup") == "fresh"
    once = fresh and not knobs.get("fresh_repeat")  # fresh lookups: at most one registration per instance, no removal
    steps = []
    cb_added = []

    def add_cb(kind):
        if kind == "sleep" and rng.random() < knobs.get("p_svc", 0.0):
            kind = "svc"  # the other way of suspending: a blocking call of a service of the script
        steps.append(["add_cb", kind, rng.randint(1, 99)])
        cb_added.append(kind)

    def add_edit():
        # a callback that edits the callback set of its own task while it runs: removes some function (one that
        # ran before it, one that has not run yet, itself, one that was never added) and/or adds a new one
        ops = []
        for _ in range(rng.choice([1, 1, 2])):
            if rng.random() < 0.65:
                ops.append(["remove", rng.choice([k for k in ALL_CB_KINDS if not (once and k in METHOD_KINDS)])])
            else:
                ops.append(["add", "late", rng.randint(200, 299)])
        steps.append(["add_cb", "edit", rng.randint(1, 99), ops])
        cb_added.append("edit")

    for _ in range(rng.randint(2, 7)):
        roll = rng.random()
        if roll < 0.3:
            dur = rng.choice([0.1, 0.3, 0.6])
            if rng.random() < p_zero:
                dur = rng.choice(ZERO_DURS)
            steps.append(["sleep", dur])
        elif roll < 0.42:
            steps.append(["executor", rng.choice(["ok", "raise"])])
        elif roll < 0.62:
            if rng.random() < knobs.get("p_edit", 0.0):
                add_edit()
                continue
            if rng.random() < p_method:
                # fresh-lookup mode, steered: one registration per instance (see ASSUMPTIONS)
                pool = [k for k in METHOD_KINDS if not (once and k in cb_added)]
                again = [k for k in METHOD_KINDS if k in cb_added and not once]
                if again and rng.random() < 0.4:
                    add_cb(rng.choice(again))  # the same instance's method once more: replaces (new arguments)
                    continue
                if pool:
                    add_cb(rng.choice(pool))
                    pool = [k for k in METHOD_KINDS if k not in cb_added]
                    if pool and rng.random() < 0.5:  # observer fan-out: the next watcher right away
                        add_cb(rng.choice(pool))
                    continue
            add_cb(rng.choice(CB_KINDS))
        elif roll < 0.68 and cb_added:
            pool = [k for k in cb_added if not (once and k in METHOD_KINDS)]
            if pool:
                steps.append(["remove_cb", rng.choice(pool)])
        elif roll < 0.76:
            steps.append(["unique"])
        elif roll < 0.82:
            steps.append(["wait_until", rng.choice([0.4, 1.0])])
        elif roll < 0.86:
            steps.append(["call_svc", rng.choice([0.2, 0.5])])
        elif roll < 0.9 and not victim:
            steps.append(["raise"])
            break
        elif roll < 0.93:
            steps.append(["cancel_self"])
            break
        elif roll < 0.93 + knobs.get("p_spin", 0.0):
            steps.append(["spin", rng.randint(2, 4), rng.choice(SPIN_DURS)])
    if not any(s[0] in ("wait_until", "call_svc") or (s[0] == "sleep" and s[1] > 0) for s in steps):
        steps.insert(rng.randint(0, len(steps)), ["sleep", 0.3])
    # most removals by an editing callback aim at a function this program does register (before or after it)
    registered = sorted({s[1] for s in steps if s[0] == "add_cb" and not (once and s[1] in METHOD_KINDS)})
    for si, step in enumerate(steps):
        if step[0] == "add_cb" and step[1] == "edit":
            early = {s[1] for s in steps[:si] if s[0] == "add_cb"} | {"edit"}
            later = [k for k in registered if k not in early]  # (registered after it: run after it)
            for op in step[3]:
                if op[0] == "remove" and rng.random() < 0.7:
                    op[1] = rng.choice(later if later and rng.random() < 0.6 else registered)
    return steps


def _dur_bound(prog: dict, cb_dur: float) -> float:
    """Upper bound of the virtual time at which a run of the program is over (relative to the scenario's start)."""
    total = 0.5 + prog["k"] * GRID + 0.2
    for step in prog["steps"]:
        if step[0] == "sleep":
            total += max(step[1], 0.0)
        elif step[0] == "spin":
            total += step[1] * max(step[2], 0.0)
        elif step[0] in ("wait_until", "call_svc"):
            total += step[1]
        elif step[0] == "executor":
            total += 0.1
    # its done callbacks run one after the other (an upper bound: every registration counted)
    total += sum(cb_dur + 0.05 for step in prog["steps"] if step[0] == "add_cb" and step[1] in SUSP_CB)
    return total


def gen(rng: random.Random, tier: str) -> dict:
    cfg = gen_cfg(rng)
    cfg["drift"] = 0.0
    n = rng.randint(1, 4)
    victim = rng.randrange(n)
    # swarm knobs: which of the rarer constructs this scenario uses, and how densely
    knobs = {"p_method": rng.choice([0.0, 0.5, 0.7]), "method_lookup": rng.choice(["bound", "fresh"]),
             "p_zero": rng.choice([0.0, 0.3, 0.6]), "p_spin": rng.choice([0.0, 0.04, 0.07]),
             # share of sleeping callbacks that suspend in a blocking service call instead; share of registrations
             # that are a callback editing its own task's callback set while it runs
             "p_svc": rng.choice([0.0, 0.0, 0.5]), "p_edit": rng.choice([0.0, 0.0, 0.15, 0.35]),
             # steer coin (finding on the unchanged code, see ASSUMPTIONS): fresh lookups of one instance's method
             # are registered again / removed only in half of the fresh-lookup scenarios
             "fresh_repeat": rng.random() < 0.5}
    progs = []
    for tid in range(n):
        progs.append({"tid": tid, "entry": rng.choice(["service", "service", "trigger", "create"]),
                      "steps": _gen_steps(rng, tid == victim, knobs), "ret": rng.randint(100, 199),
                      "k": rng.choice([0, 0, 1, 2])})
    spec = {"progs": progs, "victim": victim, "waiter": rng.random() < 0.5,
            "method_lookup": knobs["method_lookup"], "spawn_group": rng.random() < 0.5,
            "fresh_repeat": knobs["fresh_repeat"]}
    if n >= 2 and rng.random() < 0.3:
        # siblings: two task.create children made by one spawner run in one go; the first-created one gives way
        # (sleep / spin with a zero or negative duration) before anything else
        first, second = sorted(rng.sample(range(n), 2))
        progs[second]["entry"] = progs[first]["entry"] = "create"
        progs[second]["k"] = progs[first]["k"]
        spec["spawn_group"] = True
        if rng.random() < 0.7:
            head = ["sleep", rng.choice(ZERO_DURS)] if rng.random() < 0.6 else ["spin", rng.randint(2, 4), rng.choice(SPIN_DURS)]
            progs[first]["steps"].insert(0, head)
    # how the cancellation is delivered: pyscript's reaper, a raw Task.cancel(), or another task taking over one of
    # the two unique names the victim owns (task.unique kills the previous owner)
    fault = {"mode": "enumerate", "via": rng.choice(["reaper", "reaper", "raw", "takeover"]), "iter": None}
    if fault["via"] == "takeover" and not any(s[0] == "unique" for s in progs[victim]["steps"]):
        progs[victim]["steps"].insert(0, ["unique"])
    # the waiter may be given a SET of tasks (the victim plus other runs), may arrive when some of them have already
    # finished, and may use asyncio.wait's timeout= / return_when= arguments
    spec["wait_set"] = []
    spec["wait_after"] = None
    spec["wait_kw"] = None
    if spec["waiter"]:
        others = [t for t in range(n) if t != victim]
        if others and rng.random() < 0.6:
            spec["wait_set"] = sorted(rng.sample(others, rng.randint(1, len(others))))
        spec["wait_after"] = rng.choice(WAIT_AFTER)
        spec["wait_kw"] = rng.choice(WAIT_KW)
    # shutdown runs: @time_trigger("shutdown") functions, all started by ONE unload / reload / removal of the script
    # after the other runs are over (never the victim: the cancellation points stay in the main phase)
    if rng.random() < 0.3:
        want = rng.choice([1, 2, 2, 3])
        while len(progs) < min(4, want + 1):
            progs.append({"tid": len(progs), "entry": rng.choice(["service", "trigger", "create"]),
                          "steps": _gen_steps(rng, False, knobs), "ret": rng.randint(100, 199),
                          "k": rng.choice([0, 0, 1, 2])})
        pool = [p["tid"] for p in progs if p["tid"] != victim]
        # steer coins (findings on the unchanged code, see ASSUMPTIONS): half of the scenarios keep done callbacks /
        # task.cancel() out of the shutdown runs, so that the rest of the shutdown behaviour keeps being judged
        spec["steer_sd_cb"] = rng.random() < 0.5
        spec["steer_sd_cancel"] = rng.random() < 0.5
        for tid in rng.sample(pool, min(want, len(pool))):
            progs[tid]["entry"] = "shutdown"
            # the script's own services are gone by the time a shutdown run executes: no blocking service call
            steps = [["sleep", s[1]] if s[0] == "call_svc" else s for s in progs[tid]["steps"]]
            steps = [[s[0], "sleep"] + s[2:] if s[0] in ("add_cb", "remove_cb") and s[1] == "svc" else s for s in steps]
            if spec["steer_sd_cb"]:
                steps = [s for s in steps if s[0] not in ("add_cb", "remove_cb")]
            if spec["steer_sd_cancel"]:
                steps = [s for s in steps if s[0] != "cancel_self"]
            progs[tid]["steps"] = steps
        spec["shutdown_via"] = rng.choice(SHUTDOWN_VIA)
        spec["wait_set"] = [t for t in spec["wait_set"] if progs[t]["entry"] != "shutdown"]
    # steer coin (finding on the unchanged code: suspended done callbacks of two tasks swap their arguments): in half
    # of the scenarios only one program registers the sleeping callback
    spec["steer_one_sleeping_cb"] = rng.random() < 0.5
    if spec["steer_one_sleeping_cb"]:
        keep = None
        for prog in progs:
            if any(s[0] == "add_cb" and s[1] == "sleep" for s in prog["steps"]):
                if keep is None:
                    keep = prog["tid"]
                    continue
                prog["steps"] = [[s[0], "plain"] + s[2:] if s[0] in ("add_cb", "remove_cb") and s[1] == "sleep" else s
                                 for s in prog["steps"]]
    # one callback function shared by several tasks whose callback phases overlap: 2..n programs register the same
    # suspending callback (own arguments each) first thing, and the callback stays suspended long enough for the
    # other runs to end meanwhile (as long as every run is still over in time)
    main = [p for p in progs if p["entry"] != "shutdown"]
    if len(main) >= 2 and rng.random() < 0.25:
        kind = rng.choice(SUSP_CB)
        for prog in rng.sample(main, rng.randint(2, len(main))):
            prog["steps"].insert(rng.choice([0, 0, 1]), ["add_cb", kind, rng.randint(1, 99)])
        for dur in (rng.choice([0.9, 1.5]), 0.6):
            if all(_dur_bound(p, dur) <= RUN_HORIZON - 0.7 for p in main):
                spec["cb_dur"] = dur
                break
        if rng.random() < 0.5:
            # ... and one of these tasks is given a further callback by another run, late in that run
            adder, target = rng.sample(main, 2)
            if any(s[0] == "add_cb" and s[1] == kind for s in target["steps"]) and not any(
                    s[0] in ("raise", "cancel_self") for s in adder["steps"]):
                adder["steps"].append(["add_cb_to", target["tid"], rng.randint(300, 399)])
    # a run that gives ANOTHER run's task a done callback: whatever that task is doing at that moment (not started,
    # running, in its done callbacks, finished)
    if len(progs) >= 2 and rng.random() < 0.25:
        for _ in range(rng.choice([1, 1, 2])):
            adder, target = rng.sample(progs, 2)
            stop = next((i for i, s in enumerate(adder["steps"]) if s[0] in ("raise", "cancel_self")), len(adder["steps"]))
            adder["steps"].insert(rng.randint(0, stop), ["add_cb_to", target["tid"], rng.randint(300, 399)])
    # a creator run that gives its task.create child a done callback and cancels it: right away (the child has not
    # executed a single step yet) or some loop passes later; then waits for it
    spec["kid"] = None
    if rng.random() < 0.16:
        started = rng.random() < 0.5  # steer coin: half of these scenarios let the child start first
        spec["kid"] = {"after": rng.choice([1, 3]) if started else 0, "k": rng.choice([0, 1, 2, 5]),
                       "tag": rng.randint(1000, 1099), "cb": rng.choice(["plain", "raise"])}
    return {"cfg": cfg, "spec": spec, "fault": fault, "ops": [], "max_points": TIERS[tier]["max_points"]}


# ------------------------------------------------------------------ rendering
def _cb_kinds_used(scn: dict) -> set:
    kinds = set()
    for prog in scn["spec"]["progs"]:
        for step in prog["steps"]:
            if step[0] in ("add_cb", "remove_cb"):
                kinds.add(step[1])
                if step[1] == "edit" and step[0] == "add_cb" and len(step) > 3:
                    kinds.update(op[1] for op in step[3])
    return kinds


def render(scn: dict) -> dict:
    cb_dur = scn["spec"].get("cb_dur") or CB_DUR
    used = _cb_kinds_used(scn)
    lines = [
        "def cb_plain(tag):",
        "    sim.mark('cb', 'plain', tag, 'start')",
        "",
        "def cb_sleep(tag):",
        "    sim.mark('cb', 'sleep', tag, 'start')",
        f"    task.sleep({cb_dur})",
        "    sim.mark('cb', 'sleep', tag, 'end')",
        "",
        "def cb_raise(tag):",
        "    sim.mark('cb', 'raise', tag, 'start')",
        "    raise ValueError('cb boom')",
        "",
    ]
    if "svc" in used:
        lines += [
            "def cb_svc(tag):",
            "    sim.mark('cb', 'svc', tag, 'start')",
            f"    pyscript.helper_svc(blocking=True, d={cb_dur}, who=-1)",
            "    sim.mark('cb', 'svc', tag, 'end')",
            "",
        ]
    if any(s[0] == "add_cb_to" for p in scn["spec"]["progs"] for s in p["steps"]):
        lines += [
            "def cb_foreign(tag):",
            "    sim.mark('cb', 'foreign', tag, 'start')",
            "",
        ]
    fresh = scn["spec"].get("method_lookup") == "fresh"
    if used & set(METHOD_KINDS):
        # an observer list: one method, several instances; every bound method is a callback function of its own
        lines += [
            "class Watcher:",
            "    def __init__(self, name):",
            "        self.name = name",
            "",
            "    def on_done(self, tag):",
            "        sim.mark('cb', self.name, tag, 'start')",
            "",
            f"watchers = [{', '.join(f'Watcher({k!r})' for k in METHOD_KINDS)}]",
        ]
        lines += [f"cb_{k} = watchers[{i}].on_done" for i, k in enumerate(METHOD_KINDS)] + [""]

    def cb_expr(kind):
        if kind in METHOD_KINDS and fresh:
            return f"watchers[{METHOD_KINDS.index(kind)}].on_done"
        return f"cb_{kind}"

    if "edit" in used:
        # a callback that edits the done callbacks of its own (ending) task
        lines += [
            "def cb_late(tag):",
            "    sim.mark('cb', 'late', tag, 'start')",
            "",
            "def cb_fn(kind):",
        ]
        for kind in sorted(used - {"late"}):
            lines += [f"    if kind == {kind!r}:", f"        return {cb_expr(kind)}"]
        lines += [
            "    return cb_late",
            "",
            "def cb_edit(tag, ops):",
            "    sim.mark('cb', 'edit', tag, 'start')",
            "    me = task.current_task()",
            "    for op in ops:",
            "        if op[0] == 'remove':",
            "            task.remove_done_callback(me, cb_fn(op[1]))",
            "        else:",
            "            task.add_done_callback(me, cb_late, op[2])",
            "    sim.mark('cb', 'edit', tag, 'end')",
            "",
        ]

    for prog in scn["spec"]["progs"]:
        tid = prog["tid"]
        if prog["entry"] == "trigger":
            lines.append(f"@event_trigger('go_{tid}')")
            lines.append(f"def p{tid}(**kw):")
        elif prog["entry"] == "shutdown":
            lines.append("@time_trigger('shutdown')")
            lines.append(f"def p{tid}(**kw):")
        elif prog["entry"] == "service":
            lines.append("@service")
            lines.append(f"def p{tid}():")
        else:
            lines.append(f"def p{tid}():")
        lines.append(f"    sim.mark('p', {tid}, 'start', me=task.current_task())")
        for idx, step in enumerate(prog["steps"]):
            lines.append(f"    sim.mark('p', {tid}, 'pre', {idx})")
            if step[0] == "sleep":
                lines.append(f"    task.sleep({step[1]})")
            elif step[0] == "executor":
                if step[1] == "ok":
                    lines.append(f"    xr = task.executor(sim.get('fn_ok'), {tid}, 1000)")
                    lines.append(f"    sim.mark('p', {tid}, 'exec', {idx}, xr=xr)")
                else:
                    lines.append("    try:")
                    lines.append(f"        task.executor(sim.get('fn_raise'), {tid})")
                    lines.append(f"        sim.mark('p', {tid}, 'exec', {idx}, xr='no exception')")
                    lines.append("    except KeyError as exc:")
                    lines.append(f"        sim.mark('p', {tid}, 'exec', {idx}, xr=str(exc))")
            elif step[0] == "add_cb":
                extra = "".join(f", {x!r}" for x in step[3:])
                lines.append(f"    task.add_done_callback(task.current_task(), {cb_expr(step[1])}, {step[2]}{extra})")
            elif step[0] == "add_cb_to":
                # a done callback for the task of another run, whatever state that task is in
                lines.append(f"    ft = sim.get('task_of')({step[1]})")
                lines.append("    if ft is None:")
                lines.append(f"        sim.mark('p', {tid}, 'foreign', {idx}, target={step[1]}, state='notask')")
                lines.append("    else:")
                lines.append("        fstate = 'alive'")
                lines.append("        if ft.done():")
                lines.append("            fstate = 'done'")
                lines.append(f"        sim.mark('p', {tid}, 'foreign', {idx}, target={step[1]}, state=fstate)")
                lines.append(f"        task.add_done_callback(ft, cb_foreign, {step[2]})")
            elif step[0] == "remove_cb":
                lines.append(f"    task.remove_done_callback(task.current_task(), {cb_expr(step[1])})")
            elif step[0] == "spin":
                # a cooperative loop: every round gives the other runs a chance
                lines.append(f"    for rnd in range({step[1]}):")
                lines.append(f"        sim.mark('p', {tid}, 'spin', {idx}, rnd)")
                lines.append(f"        task.sleep({step[2]})")
            elif step[0] == "unique":
                # two names: a task may own several; all of them are released when it ends, however it ends
                lines.append(f"    task.unique('u{tid}')")
                lines.append(f"    task.unique('w{tid}')")
            elif step[0] == "wait_until":
                lines.append(f"    wr = task.wait_until(event_trigger='never_{tid}', timeout={step[1]})")
                lines.append(f"    sim.mark('p', {tid}, 'wu', {idx}, tt=wr['trigger_type'])")
            elif step[0] == "call_svc":
                lines.append(f"    pyscript.helper_svc(blocking=True, d={step[1]}, who={tid})")
            elif step[0] == "raise":
                lines.append("    raise ValueError('boom')")
            elif step[0] == "cancel_self":
                lines.append("    task.cancel()")
            lines.append(f"    sim.mark('p', {tid}, 'post', {idx})")
        lines.append(f"    sim.mark('p', {tid}, 'end')")
        lines.append(f"    return {prog['ret']}")
        lines.append("")
    lines += [
        "@service",
        "def helper_svc(d=None, who=None):",
        "    task.sleep(d)",
        "    sim.mark('helper', who)",
        "",
        "@service",
        "def takeover(name=None):",
        "    task.unique(name)",
        "",
        "@service",
        "def spawn(tids=None):",
    ]
    for prog in scn["spec"]["progs"]:
        if prog["entry"] == "create":
            lines.append(f"    if {prog['tid']} in tids:")
            lines.append(f"        task.create(p{prog['tid']})")
    lines += [
        "    pass",
        "",
        "def outcome(t):",
        "    if t.cancelled():",
        "        return 'cancelled'",
        "    try:",
        "        return ['result', t.result()]",
        "    except Exception as exc:",
        "        return ['exception', type(exc).__name__]",
        "",
        "@service",
        "def waiter(tid=None, tids=None, kw=None):",
        "    t = sim.get('task_of')(tid)",
        "    if t is None:",
        "        sim.mark('waiter', 'notask')",
        "        return",
        "    given = {tid: t}",
        "    for other in tids or []:",
        "        t2 = sim.get('task_of')(other)",
        "        if t2 is not None:",
        "            given[other] = t2",
        "    before = {}",
        "    for x in given:",
        "        before[x] = given[x].done()",
        "    done, pending = task.wait(set(given.values()), **(kw or {}))",
        "    out = 'pending'",
        "    if t in done:",
        "        out = outcome(t)",
        "    where = {}",
        "    outs = {}",
        "    for x in given:",
        "        where[x] = [given[x] in done, given[x] in pending, given[x].done()]",
        "        if given[x] in done:",
        "            outs[x] = outcome(given[x])",
        "    sim.mark('waiter', 'saw', out=out, ndone=len(done), npending=len(pending), before=before, where=where,",
        "             outs=outs)",
        "",
    ]
    kid = scn["spec"].get("kid")
    if kid:
        lines += [
            "def kid():",
            "    sim.mark('kid', 'start')",
            "    task.sleep(0.4)",
            "    sim.mark('kid', 'end')",
            "    return 7",
            "",
            "@service",
            "def kid_spawner(after=None, tag=None):",
            "    t = task.create(kid)",
            f"    task.add_done_callback(t, cb_{kid['cb']}, tag)",
            "    for i in range(after):",
            "        task.sleep(0)",
            "    sim.mark('kidsp', 'cancelling', child=t)",
            "    task.cancel(t)",
            "    sim.mark('kidsp', 'cancelled')",
            "    done, pending = task.wait({t})",
            "    sim.mark('kidsp', 'waited', out=outcome(t), ndone=len(done))",
            "",
        ]
    return {"pyscript/c14.py": "\n".join(lines) + "\n"}


def normalize(scn: dict) -> dict | None:
    progs = scn["spec"]["progs"]
    if not any(p["tid"] == scn["spec"]["victim"] and p["entry"] != "shutdown" for p in progs):
        return None
    if any(p["entry"] == "shutdown" and any(s[0] == "call_svc" for s in p["steps"]) for p in progs):
        return None  # the script's services are gone when a shutdown run executes
    if any(p["entry"] == "shutdown" and any(s[0] in ("add_cb", "remove_cb") and s[1] == "svc" for s in p["steps"])
           for p in progs):
        return None
    if scn["spec"].get("method_lookup") == "fresh" and not scn["spec"].get("fresh_repeat"):
        # steered scenarios (see ASSUMPTIONS): the same instance's method is not registered twice / removed
        for prog in progs:
            adds = [s[1] for s in prog["steps"] if s[0] == "add_cb" and s[1] in METHOD_KINDS]
            if len(adds) != len(set(adds)) or any(s[0] == "remove_cb" and s[1] in METHOD_KINDS for s in prog["steps"]):
                return None
            if any(op[0] == "remove" and op[1] in METHOD_KINDS for s in prog["steps"]
                   if s[0] == "add_cb" and s[1] == "edit" for op in s[3]):
                return None
    return scn


def simplify(scn: dict):
    for pi, prog in enumerate(scn["spec"]["progs"]):
        if prog["entry"] != "service":
            cand = copy.deepcopy(scn)
            cand["spec"]["progs"][pi]["entry"] = "service"
            yield cand
        if prog["k"]:
            cand = copy.deepcopy(scn)
            cand["spec"]["progs"][pi]["k"] = 0
            yield cand
        for si, step in enumerate(prog["steps"]):
            repl = None
            if step[0] in ("add_cb", "remove_cb") and step[1] in METHOD_KINDS:
                repl = [step[0], "plain"] + step[2:]
            elif step[0] in ("add_cb", "remove_cb") and step[1] == "svc":
                repl = [step[0], "sleep"] + step[2:]
            elif step[0] == "add_cb" and step[1] == "edit" and len(step[3]) > 1:
                for oi in range(len(step[3])):
                    cand = copy.deepcopy(scn)
                    del cand["spec"]["progs"][pi]["steps"][si][3][oi]
                    yield cand
            elif step[0] == "sleep" and step[1] <= 0:
                repl = ["sleep", 0.1]
            elif step[0] == "spin":
                repl = ["sleep", step[2]] if step[1] <= 2 else ["spin", step[1] - 1, step[2]]
            if repl is not None:
                cand = copy.deepcopy(scn)
                cand["spec"]["progs"][pi]["steps"][si] = repl
                yield cand
    if scn["spec"]["waiter"]:
        cand = copy.deepcopy(scn)
        cand["spec"]["waiter"] = False
        yield cand
        for key in ("wait_kw", "wait_after"):
            if scn["spec"].get(key):
                cand = copy.deepcopy(scn)
                cand["spec"][key] = None
                yield cand
        for tid in scn["spec"].get("wait_set") or []:
            cand = copy.deepcopy(scn)
            cand["spec"]["wait_set"] = [t for t in scn["spec"]["wait_set"] if t != tid]
            yield cand
    if scn["spec"].get("kid"):
        cand = copy.deepcopy(scn)
        cand["spec"]["kid"] = None
        yield cand
    if scn["spec"].get("cb_dur"):
        cand = copy.deepcopy(scn)
        cand["spec"]["cb_dur"] = None
        yield cand
    if (scn["spec"].get("shutdown_via") or "unload") != "unload":
        cand = copy.deepcopy(scn)
        cand["spec"]["shutdown_via"] = "unload"
        yield cand
    if scn["spec"].get("spawn_group"):
        cand = copy.deepcopy(scn)
        cand["spec"]["spawn_group"] = False
        yield cand
    if scn["spec"].get("method_lookup") == "fresh":
        cand = copy.deepcopy(scn)
        cand["spec"]["method_lookup"] = "bound"
        yield cand
    for key, val in (("timer_late_ms", 0.0), ("cost_us", 50), ("exec_latency_ms", [0.0, 0.0]), ("set_order_salt", 0)):
        if scn["cfg"].get(key) != val:
            cand = copy.deepcopy(scn)
            cand["cfg"][key] = val
            yield cand


def warmup() -> None:
    scn = gen(random.Random(1), "quick")
    scn["fault"] = {"mode": "none", "via": "reaper", "iter": None}
    run(scn)


# ------------------------------------------------------------------ one execution
class C14World(World):
    """Also remembers when each task was created, as a position in the marker sequence (for the ready-run rule)."""

    def __init__(self, cfg, files):
        super().__init__(cfg, files)
        self.task_born: dict[int, int] = {}

    def _task_factory(self, loop, coro, **kwargs):
        task = super()._task_factory(loop, coro, **kwargs)
        self.task_born[self.task_label[id(task)]] = len(self.marks)
        return task


def _wait_kwargs(spec: dict) -> dict:
    kw = spec.get("wait_kw")
    if not kw:
        return {}
    return {"timeout": kw[1]} if kw[0] == "timeout" else {"return_when": "FIRST_COMPLETED"}


def _zeroish(step) -> bool:
    """A sleep / spin step whose duration asks for nothing but 'let the others run'."""
    return (step[0] == "sleep" and step[1] <= 0) or (step[0] == "spin" and step[2] <= 0)


def execute(scn: dict, k_cancel: int | None) -> dict:
    spec = scn["spec"]
    w = C14World(scn["cfg"], render(scn))
    progs = {p["tid"]: p for p in spec["progs"]}
    vic = spec["victim"]
    obs: dict = {"task_of": {}, "victim": {}, "cancel": None}
    via = scn["fault"]["via"]

    def fn_ok(a, b):
        return a + b

    def fn_raise(a):
        raise KeyError(f"native {a}")

    def do_cancel():
        from custom_components.pyscript.function import Function

        task = obs["task_of"].get(vic)
        info = {"iter": w.loop.iterations, "vt": w.loop.vt, "done": task.done() if task else None,
                "in_cb": obs["victim"].get("in_cb", False), "last": obs["victim"].get("last_step")}
        obs["cancel"] = info
        if task is None or task.done():
            w.probe("cancel_after_end")
            return
        w.fault("cancel_at_iter")
        if info["in_cb"]:
            w.probe("cancel_in_done_callback")
        step = info["last"]
        if step is None:
            w.probe("cancel_before_first_step")
        elif step[0] in ("sleep", "spin"):
            w.probe("cancel_in_sleep0" if _zeroish(step) else "cancel_in_sleep")
        elif step[0] == "executor":
            w.probe("cancel_during_executor")
        elif step[0] == "wait_until":
            w.probe("cancel_in_wait_until")
        elif step[0] == "call_svc":
            w.probe("cancel_in_blocking_service_call")
        if via == "reaper":
            Function.reaper_cancel(task)
        elif via == "takeover":
            if not obs["victim"].get("owns"):
                info["done"] = "name_not_owned"  # nothing to take over yet: no cancellation is requested
                w.probe("takeover_before_claim")
                return
            import asyncio

            w.probe("cancel_by_unique_takeover")
            asyncio.ensure_future(w.call_service("pyscript", "takeover", {"name": f"u{vic}"}, blocking=False))
        else:
            task.cancel()

    def hook(rec):
        args = rec["args"]
        if args[0] == "p":
            tid, what = args[1], args[2]
            if what == "start" and tid not in obs["task_of"]:
                obs["task_of"][tid] = rec["task_obj"]
                if tid == vic:
                    obs["victim"]["start_iter"] = w.loop.iterations
                    obs["victim"]["label"] = rec["task"]
                    if k_cancel is not None:
                        w.loop.at_iteration(k_cancel, do_cancel)
            if tid == vic and rec["task"] == obs["victim"].get("label"):
                obs["victim"]["last_iter"] = w.loop.iterations
                if what == "pre":
                    obs["victim"]["last_step"] = progs[vic]["steps"][args[3]]
                elif what in ("post", "end"):
                    obs["victim"]["last_step"] = ["between"]
                    if what == "post" and progs[vic]["steps"][args[3]][0] == "unique":
                        obs["victim"]["owns"] = True
        elif args[0] == "cb" and rec["task"] == obs["victim"].get("label"):
            obs["victim"]["last_iter"] = w.loop.iterations
            obs["victim"]["in_cb"] = True

    w.mark_hook = hook

    async def driver(w: World):
        import asyncio

        from custom_components.pyscript.function import Function

        w.natives["fn_ok"] = fn_ok
        w.natives["fn_raise"] = fn_raise
        w.natives["task_of"] = lambda tid: obs["task_of"].get(tid)
        w.loop.exec_job_log = []
        await w.started()
        base = w.loop.vt
        spawned: set = set()
        wait_data = {"tid": vic, "tids": list(spec.get("wait_set") or []), "kw": _wait_kwargs(spec)}

        async def late_waiter(delay):
            await w.sleep(delay)
            await w.call_service("pyscript", "waiter", wait_data, blocking=False)

        async def kid_call(kid):
            await w.sleep(0.5 + kid["k"] * GRID + 0.1)
            await w.call_service("pyscript", "kid_spawner", {"after": kid["after"], "tag": kid["tag"]}, blocking=False)

        if spec.get("kid"):
            asyncio.ensure_future(kid_call(spec["kid"]))
        for prog in sorted(spec["progs"], key=lambda p: (p["k"], p["tid"])):
            if prog["tid"] in spawned or prog["entry"] == "shutdown":
                continue
            target = base + 0.5 + prog["k"] * GRID
            if target > w.loop.vt:
                await w.sleep(target - w.loop.vt)
            tids = [prog["tid"]]
            if prog["entry"] == "service":
                await w.call_service("pyscript", f"p{prog['tid']}", {}, blocking=False)
            elif prog["entry"] == "create":
                if spec.get("spawn_group"):
                    # all task.create children of this instant are made by ONE spawner run, in one go
                    tids = [p["tid"] for p in spec["progs"] if p["entry"] == "create" and p["k"] == prog["k"]]
                    if len(tids) > 1:
                        w.probe("siblings_spawned_together")
                spawned.update(tids)
                await w.call_service("pyscript", "spawn", {"tids": tids}, blocking=False)
            else:
                w.fire(f"go_{prog['tid']}", {})
            if vic in tids and spec["waiter"]:
                if spec.get("wait_after"):
                    # the waiter arrives later, when some of the tasks it waits for may already be over; the other
                    # programs' start instants are not disturbed
                    asyncio.ensure_future(late_waiter(spec["wait_after"]))
                else:
                    await w.passes(4)
                    await w.call_service("pyscript", "waiter", wait_data, blocking=False)
        await w.sleep(base + 8.0 - w.loop.vt)
        await w.drain()
        # ---- shutdown runs: one unload / reload / removal of the script starts all of them
        if any(p["entry"] == "shutdown" for p in spec["progs"]):
            via_sd = spec.get("shutdown_via") or "unload"
            obs["shutdown_at"] = w.loop.vt
            obs["shutdown_mark0"] = len(w.marks)
            if via_sd == "unload":
                fut = asyncio.ensure_future(w.unload_entry())
            elif via_sd in ("delete", "touch"):
                if via_sd == "delete":
                    w.delete_file("pyscript/c14.py")
                else:
                    w.touch_file("pyscript/c14.py")
                fut = asyncio.ensure_future(w.reload())
            else:
                fut = asyncio.ensure_future(w.reload("file.c14"))
            await asyncio.wait({fut}, timeout=SHUTDOWN_HORIZON)
            obs["shutdown_returned"] = fut.done()
            if not fut.done():
                fut.cancel()
                await asyncio.wait({fut}, timeout=1.0)
            elif fut.exception() is not None:
                raise fut.exception()
            # (a reload by name stops the old script only while it loads the new one and does not wait for the old
            # shutdown runs; whether it should is not this property's business: just give them time to end)
            if w.loop.vt < obs["shutdown_at"] + SHUTDOWN_HORIZON:
                await w.sleep(obs["shutdown_at"] + SHUTDOWN_HORIZON - w.loop.vt)
            await w.drain()
        # ---- registries at final quiescence
        finished = lambda t: t.done()  # noqa: E731
        obs["registries"] = {
            "our_tasks_finished": sorted(w.label_of(t) or -1 for t in Function.our_tasks if finished(t)),
            "task2cb_finished": sorted(w.label_of(t) or -1 for t in Function.task2cb if finished(t)),
            "task2context_finished": sorted(w.label_of(t) or -1 for t in Function.task2context if finished(t)),
            "unique_task2name_finished": sorted(w.label_of(t) or -1 for t in Function.unique_task2name if finished(t)),
            "unique_name2task_finished": sorted(n for n, t in Function.unique_name2task.items() if finished(t)),
        }
        obs["alive_runs"] = sorted(tid for tid, t in obs["task_of"].items() if not t.done())
        obs["exec_jobs"] = list(w.loop.exec_job_log)
        obs["task_born"] = dict(w.task_born)
        obs["n_marks"] = len(w.marks)

    w.run(driver)
    obs["w"] = w
    # (a reloaded script's shutdown functions run once more when the world is torn down: not part of the scenario)
    obs["marks"] = w.marks[: obs["n_marks"]]
    return obs


def _seq(obs: dict, tid: int, label=None) -> list:
    return [(tuple(m["args"][2:]), m["vt"] - obs["w"].clock.vt0, {k: v for k, v in m["kw"].items() if k != "me"})
            for m in obs["marks"] if m["args"][0] == "p" and m["args"][1] == tid]


def _cb_marks(obs: dict, label) -> list:
    return [m for m in obs["marks"] if m["args"][0] == "cb" and m["task"] == label]


def _expected_callbacks(steps: list, upto: int) -> dict:
    """Callbacks registered after executing steps[0:upto]: kind -> tag (latest per function, removed ones gone)."""
    reg: dict = {}
    for step in steps[:upto]:
        if step[0] == "add_cb":
            reg.pop(step[1], None)
            reg[step[1]] = step[2]
        elif step[0] == "remove_cb":
            reg.pop(step[1], None)
    return reg


def _dur_class(step) -> str:
    if step[0] not in ("sleep", "spin"):
        return "n/a"
    dur = step[1] if step[0] == "sleep" else step[2]
    return "zero" if dur == 0 else ("negative" if dur < 0 else "positive")


def _give_way(scn: dict, obs: dict, viol) -> None:
    """A run that sleeps or waits gives way to the others.

    (a) task.sleep() is a suspension point whatever its duration: the marker after it lies in a later loop pass;
    (b) ready-run rule: a run whose task had been created but had not started when another run executed the marker
        in front of a sleep / wait_until / blocking call starts before the sleeper's next marker.
    Only completed suspensions are judged (a cancelled victim has no next marker)."""
    w = obs["w"]
    progs = {p["tid"]: p for p in scn["spec"]["progs"]}
    per: dict = {}
    for gi, m in enumerate(obs["marks"]):
        if m["args"][0] == "p" and m["args"][1] in progs:
            per.setdefault(m["args"][1], []).append((gi, tuple(m["args"][2:]), m["iter"], m["task"]))
    starts = {}
    for tid, lst in per.items():
        if lst[0][1] == ("start",):
            starts[tid] = (lst[0][0], obs["task_born"].get(lst[0][3]))
    for tid, lst in sorted(per.items()):
        steps = progs[tid]["steps"]
        for (gi, name, it, label), (ngi, nname, nit, nlabel) in zip(lst, lst[1:]):
            if label != nlabel or name[0] not in ("pre", "spin") or name[1] >= len(steps):
                continue
            step = steps[name[1]]
            if step[0] not in SUSPENDING or (name[0] == "pre") == (step[0] == "spin"):
                continue  # a spin step suspends after each 'spin' marker, the other steps after their 'pre' marker
            if step[0] in ("sleep", "spin"):
                if _zeroish(step):
                    w.probe("sleep_zero_or_negative")
                if step[0] == "spin":
                    w.probe("spin_loop")
                if nit <= it:
                    viol("C14.sleep_did_not_suspend", {"dur": _dur_class(step), "form": step[0]},
                         f"p{tid} step {name[1]} {step}: markers {name} and {nname} ran in the same loop pass {it}: "
                         f"task.sleep() returned without letting any other run, or the reaper, execute")
            for other, (sgi, born) in sorted(starts.items()):
                if other == tid or born is None or not born <= gi < sgi:
                    continue
                w.probe("ready_run_while_other_sleeps0" if _zeroish(step) else "ready_run_while_other_sleeps")
                if sgi > ngi:
                    viol("C14.ready_run_delayed", {"sleeper_step": step[0], "dur": _dur_class(step),
                                                   "entry": progs[other]["entry"]},
                         f"p{other} ({progs[other]['entry']}) existed and was ready to start when p{tid} went into "
                         f"step {name[1]} {step} (marker #{gi}), but p{tid} carried on (marker #{ngi} {nname}) before "
                         f"p{other} started (marker #{sgi})")


def _judge_wait_set(spec: dict, obs: dict, progs: dict, rep: dict, viol, w) -> bool:
    """task.wait() on a set of tasks: what the waiter run saw. Returns True when the victim was (legitimately) pending.

    From the documentation: every task given is returned, in ``done`` or in ``pending``; without timeout= /
    return_when= all of them are done and ``pending`` is empty; a task that had finished before the call is done;
    task_id.result() of a finished task.create task is the function's return value."""
    where = rep.get("where")
    if where is None:
        return False  # (a replay of an old scenario rendered by an old script)
    before = rep.get("before") or {}
    outs = rep.get("outs") or {}
    kw = spec.get("wait_kw")
    form = kw[0] if kw else "plain"
    given = sorted(where)
    vic = spec["victim"]
    n_before = sum(1 for x in given if before.get(x))
    if len(given) >= 2:
        w.probe("wait_on_task_set")
        if 0 < n_before < len(given):
            w.probe("wait_some_already_finished")
    if n_before == len(given):
        w.probe("wait_all_already_finished")
    if kw:
        w.probe("wait_with_timeout" if kw[0] == "timeout" else "wait_first_completed")
    for x in given:
        in_done, in_pend, is_done = (bool(v) for v in where[x])
        sig = {"form": form, "finished_before_call": bool(before.get(x))}
        if not in_done and not in_pend:
            viol("C14.wait_lost_task", sig,
                 f"task.wait({form}) on the tasks of programs {given}: the task of p{x} is in neither done nor pending "
                 f"(finished before the call: {before}; [in done, in pending, done()] after: {where})")
        elif in_done and in_pend:
            viol("C14.wait_task_in_both", sig, f"task.wait({form}): the task of p{x} is in done AND in pending: {where}")
        elif in_pend and before.get(x):
            viol("C14.wait_outcome", {"want": "done", **sig},
                 f"task.wait({form}): the task of p{x} had finished before the call but is reported pending: {where}")
        elif in_done and not is_done:
            viol("C14.wait_outcome", {"want": "pending", **sig},
                 f"task.wait({form}): the task of p{x} is reported done but task_id.done() is false: {where}")
        elif in_pend and not kw:
            viol("C14.wait_outcome", {"want": "done", **sig},
                 f"task.wait() without timeout/return_when returned with the task of p{x} pending: {where}")
    n_done = sum(1 for x in given if where[x][0])
    n_pend = sum(1 for x in given if where[x][1])
    if kw and kw[0] == "first" and not n_done and n_pend:
        viol("C14.wait_outcome", {"want": "one_done", "form": form},
             f"task.wait(return_when=FIRST_COMPLETED) returned with nothing done: {where}")
    if (rep.get("ndone"), rep.get("npending")) != (n_done, n_pend) and n_done + n_pend == len(given):
        viol("C14.wait_foreign_task", {"form": form},
             f"task.wait({form}) returned {rep.get('ndone')} done / {rep.get('npending')} pending tasks, of which "
             f"only {n_done} / {n_pend} were given to it")
    # the outcome of the other finished tasks (the victim's is judged by the caller)
    for x in given:
        if x == vic or x not in outs or x not in progs:
            continue
        prog = progs[x]
        names = [s[0] for s in _seq(obs, x)]
        reached = [prog["steps"][nm[1]][0] for nm in names if nm[0] == "pre" and nm[1] < len(prog["steps"])]
        got = outs[x]
        if ("end",) in names:
            want = ["result", prog["ret"]] if prog["entry"] == "create" else "anyresult"
        elif reached and reached[-1] == "cancel_self":
            want = "cancelled"
        else:
            continue  # raised: logged by pyscript; what result() gives is not documented
        if want == "anyresult":
            ok = isinstance(got, list) and got[0] == "result"
        else:
            ok = got == want
        if not ok:
            viol("C14.wait_outcome", {"want": want if isinstance(want, str) else "result", "who": "bystander"},
                 f"task.wait/result on the task of p{x} ({prog['entry']}) reported {got!r}, expected {want!r}")
    return bool(kw) and vic in where and bool(where[vic][1]) and not where[vic][0]


PRIMARY_CLASSES = ("C14.callback_set_edited_while_running", "C14.callback_kept_for_finished_task",
                   "C14.bound_method_not_one_function")


def _overlap_probes(obs: dict, w) -> None:
    """Reach: the same suspending callback function is in progress in two different tasks at the same time."""
    open_: dict = {}
    seen = set()
    for m in obs["marks"]:
        if m["args"][0] != "cb" or m["args"][1] not in SUSP_CB:
            continue
        key = (m["args"][1], m["task"])
        if m["args"][3] == "start":
            if any(k[0] == key[0] and k[1] != key[1] for k in open_):
                seen.add(key[0])
            open_[key] = True
        elif m["args"][3] == "end":
            open_.pop(key, None)
    for kind in sorted(seen):
        w.probe("shared_sleeping_callback_overlaps" if kind == "sleep" else "shared_service_calling_callback_overlaps")


def judge(scn: dict, obs: dict, base: dict | None, sub: str) -> list:
    """Violations of one execution (base=None: the fault-free run itself)."""
    spec = scn["spec"]
    w = obs["w"]
    out = []
    progs = {p["tid"]: p for p in spec["progs"]}
    vic = spec["victim"]
    cancel = obs.get("cancel")
    landed = bool(cancel and cancel["done"] is False)
    point = None if not cancel else {"iter_rel": scn["fault"].get("iter"), "via": scn["fault"]["via"],
                                     "where": "callback" if cancel["in_cb"] else (cancel["last"] or ["start"])[0]}

    def viol(cls, sig, detail):
        out.append({"class": cls, "sig": {"subsystem": sub, **sig}, "detail": detail + (f" [cancel {point}]" if point else ""),
                    "t": 0.0})

    # ---- registries
    start_label = {}
    for m in obs["marks"]:
        if m["args"][:1] == ["p"] and m["args"][2:3] == ["start"]:
            start_label.setdefault(m["args"][1], m["task"])
    # tasks that were given a done callback by another run when they had already finished: label -> program
    finished_targets = {start_label[m["kw"]["target"]]: m["kw"]["target"] for m in obs["marks"]
                        if m["args"][0] == "p" and m["args"][2] == "foreign" and m["kw"].get("state") == "done"
                        and m["kw"].get("target") in start_label}
    for key, val in obs["registries"].items():
        late = [x for x in val if key == "task2cb_finished" and x in finished_targets]
        if late:
            viol("C14.callback_kept_for_finished_task", {"registry": "task2cb"},
                 f"task.add_done_callback(task_id, ...) on the already finished tasks of programs "
                 f"{sorted(finished_targets[x] for x in late)}: Function.task2cb still holds these tasks (and the "
                 f"callback with its arguments) at final quiescence: {key} = {val}")
        val = [x for x in val if x not in late]
        if val:
            viol("C14.registry_leak", {"registry": key.replace("_finished", ""),
                                       "cancel_in": point["where"] if landed else "none"},
                 f"{key} = {val} at final quiescence")
    if obs["alive_runs"]:
        viol("C14.run_never_finished", {}, f"runs of programs {obs['alive_runs']} still alive 8 s after start")
    if w.ha_exceptions:
        viol("C14.escaped_to_ha", {}, f"Home Assistant logged/handled: {w.ha_exceptions[:2]}")
    # ---- task.executor runs the function off the event loop: every call that delivered a value / an exception went
    # through the loop's executor
    for fn, kind in (("fn_ok", "ok"), ("fn_raise", "raise")):
        n_marks = sum(1 for m in obs["marks"] if m["args"][0] == "p" and m["args"][2] == "exec" and m["args"][1] in progs
                      and m["args"][3] < len(progs[m["args"][1]]["steps"])
                      and progs[m["args"][1]]["steps"][m["args"][3]][1:2] == [kind])
        n_jobs = sum(1 for j in obs["exec_jobs"] if f".{fn} " in j)
        if n_marks:
            w.probe("executor_call")
        if n_jobs < n_marks:
            viol("C14.executor_on_loop", {"kind": kind},
                 f"{n_marks} task.executor({fn}) calls returned but only {n_jobs} jobs went through the executor")
    # ---- every program: markers, callbacks, executor
    vic_cancel_in_cb = False
    for tid, prog in progs.items():
        seq = _seq(obs, tid)
        names = [s[0] for s in seq]
        if not names:
            viol("C14.run_not_started", {"entry": prog["entry"]}, f"p{tid} never started")
            continue
        is_victim = tid == vic and landed
        # executor results
        for s in seq:
            if s[0][0] == "exec":
                step = prog["steps"][s[0][1]]
                want = tid + 1000 if step[1] == "ok" else f"'native {tid}'"
                if s[2].get("xr") != want:
                    viol("C14.executor_result", {"kind": step[1]}, f"p{tid} task.executor gave {s[2].get('xr')!r}, wanted {want!r}")
        # how far did it get?
        n_done_steps = sum(1 for nm in names if nm[0] == "post")
        ended = ("end",) in names
        steps = prog["steps"]
        natural_stop = None
        for idx, step in enumerate(steps):
            if step[0] in ("raise", "cancel_self"):
                natural_stop = idx
                break
        if not is_victim:
            exp_posts = len(steps) if natural_stop is None else natural_stop
            stuck = next((steps[nm[1]] for nm in names if nm[0] == "pre" and nm[1] < len(steps)
                          and ("post", nm[1]) not in names), None)
            if stuck is not None and stuck[0] in ("add_cb", "remove_cb", "add_cb_to") and not (tid == vic and cancel):
                # these steps do not suspend: the run can only have stopped here because the call itself raised
                viol("C14.done_callback_rejected", {"entry": prog["entry"], "op": stuck[0]},
                     f"p{tid} ({prog['entry']}) stopped in step {stuck}: task.{'remove' if stuck[0] == 'remove_cb' else 'add'}"
                     f"_done_callback({'another task' if stuck[0] == 'add_cb_to' else 'task.current_task()'}, ...) "
                     f"raised, so the done callbacks cannot be registered; completed {n_done_steps}/{exp_posts} steps")
            elif n_done_steps != exp_posts or ended != (natural_stop is None):
                viol("C14.bystander_disturbed" if base is not None else "C14.run_incomplete",
                     {"entry": prog["entry"]},
                     f"p{tid} completed {n_done_steps}/{exp_posts} steps, end={ended}")
            if base is not None:
                bseq = _seq(base, tid)
                if [s[0] for s in bseq] != names:
                    viol("C14.bystander_disturbed", {"entry": prog["entry"]},
                         f"p{tid} markers {names} differ from the fault-free run {[s[0] for s in bseq]}")
                else:
                    for a, b in zip(bseq, seq):
                        if abs(a[1] - b[1]) > 0.05:
                            viol("C14.bystander_delayed", {"entry": prog["entry"]},
                                 f"p{tid} marker {a[0]} at {b[1]:.4f} vs {a[1]:.4f} in the fault-free run")
                            break
        else:
            bnames = [s[0] for s in _seq(base, tid)]
            if names != bnames[: len(names)]:
                viol("C14.victim_not_prefix", {}, f"victim p{tid} markers {names} are not a prefix of {bnames}")
            vtask = obs["task_of"].get(tid)
            if scn["fault"]["via"] == "raw" and not cancel["in_cb"] and vtask is not None and vtask.done() \
                    and not vtask.cancelled():
                # Task.cancel() on a task suspended in its body: it must end cancelled, not carry on
                viol("C14.cancel_swallowed", {"where": (cancel["last"] or ["start"])[0]},
                     f"victim p{tid} was cancelled (Task.cancel) while suspended in {cancel['last']} but finished "
                     f"normally; markers {names}")
        # ---- callbacks: exactly once each, right arguments
        label = next((m["task"] for m in obs["marks"] if m["args"][:3] == ["p", tid, "start"]), None)
        cbs_at = [(gi, m) for gi, m in enumerate(obs["marks"]) if m["args"][0] == "cb" and m["task"] == label]
        cbs = [m for _, m in cbs_at]
        started = [(m["args"][1], m["args"][2]) for m in cbs if m["args"][3] == "start" and m["args"][1] != "foreign"]
        # registrations executed: every add/remove step whose 'post' marker exists
        n_exec = 0
        for idx, step in enumerate(steps):
            if ("post", idx) in names:
                n_exec = idx + 1
            elif ("pre", idx) in names and step[0] in ("add_cb", "remove_cb"):
                n_exec = idx  # pre seen but post missing: cannot happen for these steps (no suspension)
        exp = _expected_callbacks(steps, n_exec)
        # the cancellation may be *delivered* (reaper: one pass later) when the body has already ended and a
        # suspending done callback is running: then it interrupts that callback
        interrupted_cb = any(m["args"][1] in SUSP_CB and m["args"][3] == "start" and not any(
            e["args"][1:4] == [m["args"][1], m["args"][2], "end"] for e in cbs) for m in cbs)
        cancel_in_cb = is_victim and (cancel["in_cb"] or interrupted_cb)
        if tid == vic:
            vic_cancel_in_cb = cancel_in_cb
        if any(s[0] == "remove_cb" for s in steps[:n_exec]):
            w.probe("callback_removed")
        if sum(1 for k in exp if k in METHOD_KINDS) >= 2:
            w.probe("two_bound_methods_on_one_task")
        meth_ops = [s[1] for s in steps[:n_exec] if s[0] in ("add_cb", "remove_cb") and s[1] in METHOD_KINDS]
        if len(meth_ops) != len(set(meth_ops)):
            w.probe("bound_method_replaced_or_removed")
        fresh = spec.get("method_lookup") == "fresh"
        if meth_ops and fresh:
            w.probe("bound_method_fresh_lookup")
        # ---- a callback that edits the callback set of its own task while the callbacks run: a function removed
        # before it ran does not run any more, an added one runs, all the others run exactly once
        edit_at = next((i for i, m in enumerate(cbs) if m["args"][1] == "edit" and m["args"][3] == "start"), None)
        edit_ops = next((s[3] for s in reversed(steps[:n_exec]) if s[0] == "add_cb" and s[1] == "edit"), [])
        edit_ran = "edit" in exp and edit_at is not None
        exp2 = dict(exp)
        removed_pending: set = set()
        edit_changed = False
        ops_sig = set()
        if edit_ran:
            w.probe("callback_edits_own_task")
            ran_before = {m["args"][1] for m in cbs[:edit_at] if m["args"][3] == "start"}
            for op in edit_ops:
                if op[0] == "remove":
                    target = op[1]
                    if target in exp2:
                        edit_changed = True
                        ops_sig.add("remove")
                        if target == "edit":
                            w.probe("callback_removes_itself")
                        elif target in ran_before:
                            w.probe("callback_removes_finished_callback")
                        else:
                            w.probe("callback_removes_pending_callback")
                            removed_pending.add(target)
                            exp2.pop(target)
                else:
                    w.probe("callback_adds_callback")
                    edit_changed = True
                    ops_sig.add("add")
                    exp2["late"] = op[2]
            if not any(m["args"][1] == "edit" and m["args"][3] == "end" for m in cbs):
                viol("C14.callback_set_edited_while_running", {"ops": "+".join(sorted(ops_sig)) or "none", "symptom": "edit_rejected"},
                     f"p{tid}: the done callback cb_edit({edit_ops}) did not get to its end: task.add/remove_done_callback"
                     f"(task.current_task(), ...) raised inside a done callback")
        # ---- done callbacks given to this task by other runs (add_cb_to steps) while it was alive
        f_regs = []
        for gi, m in enumerate(obs["marks"]):
            if m["args"][0] == "p" and m["args"][2] == "foreign" and m["kw"].get("target") == tid and label is not None:
                adder = progs.get(m["args"][1])
                if adder is None or m["args"][3] >= len(adder["steps"]):
                    continue
                done_ok = any(x["args"][:4] == ["p", m["args"][1], "post", m["args"][3]] and x["task"] == m["task"]
                              for x in obs["marks"][gi:])
                if done_ok:
                    in_phase = any(ci < gi for ci, _ in cbs_at)
                    f_regs.append((gi, m["kw"].get("state"), adder["steps"][m["args"][3]][2], in_phase))
        f_runs = [(gi, m["args"][2]) for gi, m in cbs_at if m["args"][1] == "foreign" and m["args"][3] == "start"]
        f_alive = [r for r in f_regs if r[1] == "alive"]
        if f_alive:
            w.probe("callback_added_by_other_task")
        if any(r[3] for r in f_alive):
            w.probe("callback_added_by_other_task_during_callbacks")
            edit_changed = True
            ops_sig.add("add_by_other_task")
        if any(r[1] == "done" for r in f_regs):
            w.probe("callback_added_to_finished_task")
        ops_txt = "+".join(sorted(ops_sig))
        repeated = {k for k in METHOD_KINDS if fresh and (
            sum(1 for x in meth_ops if x == k) >= 2 or (edit_ran and any(op[0] == "remove" and op[1] == k for op in edit_ops)))}
        if repeated:
            w.probe("bound_method_fresh_lookup_repeated")

        def cviol(cls, sig, detail, kind=None):
            """A callback violation, named after the construct of this run that explains it (if there is one)."""
            if kind in repeated:
                viol("C14.bound_method_not_one_function", {"symptom": cls.split(".")[1]},
                     detail + f" [the method of one instance, looked up afresh for every task.add/remove_done_callback: {meth_ops}]")
            elif edit_changed:
                viol("C14.callback_set_edited_while_running", {"ops": ops_txt, "symptom": cls.split(".")[1]},
                     detail + f" [the task's callback set was changed while its callbacks ran: {ops_txt}; cb_edit ops "
                              f"{edit_ops if edit_ran else None}, registrations by other runs {f_regs}]")
            else:
                viol(cls, sig, detail)

        got_kinds = [k for k, _ in started]
        for kind, tag in exp2.items():
            cnt = sum(1 for k, t in started if k == kind)
            if cnt == 1:
                got_tag = next(t for k, t in started if k == kind)
                if got_tag != tag:
                    cviol("C14.callback_args", {"kind": kind}, f"p{tid} callback cb_{kind} ran with {got_tag}, registered {tag}", kind)
            elif cnt == 0:
                if cancel_in_cb:
                    continue  # don't-care: an earlier callback was interrupted by the cancellation
                order = list(exp)
                before = order[: order.index(kind)] if kind in order else order
                pattern = "after_raising_callback" if "raise" in before else "other"
                if pattern == "after_raising_callback":
                    w.probe("raising_callback_then_other")
                cviol("C14.callback_not_run", {"pattern": pattern, "victim": is_victim},
                      f"p{tid} callback cb_{kind}({tag}) never ran; registered {exp2}, ran {started}", kind)
            else:
                cviol("C14.callback_ran_twice", {"kind": kind}, f"p{tid} callback cb_{kind} ran {cnt} times: {started}", kind)
        # a callback keeps its arguments across a suspension of its own (whatever other callbacks run meanwhile)
        for m in cbs:
            if m["args"][1] in SUSP_CB and m["args"][3] == "end":
                began = [t for k, t in started if k == m["args"][1]]
                if began and m["args"][2] not in began:
                    viol("C14.callback_args", {"kind": m["args"][1], "when": "after_its_suspension"},
                         f"p{tid} callback cb_{m['args'][1]} was started with {began} but after its suspension its "
                         f"argument reads {m['args'][2]}")
        for kind in sorted(set(got_kinds) - set(exp2)):
            if kind in removed_pending:
                cviol("C14.callback_unexpected", {"kind": kind, "removed_by": "callback"},
                      f"p{tid} callback cb_{kind} ran although cb_edit had removed it before it ran: ran {started}", kind)
            else:
                cviol("C14.callback_unexpected", {"kind": kind},
                      f"p{tid} callback cb_{kind} ran but was not registered/was removed: {exp2}", kind)
        # given by another run while the task was alive: runs, with the arguments of the latest registration; a
        # registration that comes when cb_foreign has already run (the task is still in its callbacks): open
        if f_runs or f_alive:
            first_run = f_runs[0][0] if f_runs else None
            early = [r for r in f_alive if first_run is None or r[0] < first_run]
            late = [r for r in f_alive if not (first_run is None or r[0] < first_run)]
            if not early and f_runs:
                cviol("C14.callback_unexpected", {"kind": "foreign"},
                      f"cb_foreign ran in the task of p{tid} {f_runs} but no run had given it to that task while it was "
                      f"alive: {f_regs}")
            elif early and not f_runs:
                if not cancel_in_cb:
                    cviol("C14.callback_not_run", {"pattern": "added_by_other_task", "victim": is_victim},
                          f"cb_foreign({early[-1][2]}), given to the live task of p{tid} by another run, never ran "
                          f"(registrations (marker#, state, tag, target in its callbacks): {f_regs})")
            elif early:
                if f_runs[0][1] != early[-1][2]:
                    cviol("C14.callback_args", {"kind": "foreign"},
                          f"cb_foreign ran in the task of p{tid} with {f_runs[0][1]}, latest registration {early[-1][2]}")
                if len(f_runs) > 1 + len(late):
                    cviol("C14.callback_ran_twice", {"kind": "foreign"},
                          f"cb_foreign ran {len(f_runs)} times in the task of p{tid}: {f_runs}, registrations {f_regs}")
        # ---- the function returned: the task's result does not raise
        # (or it cancelled itself: the task ends cancelled, not with an exception)
        rtask = obs["task_of"].get(tid)
        self_cancelled = natural_stop is not None and steps[natural_stop][0] == "cancel_self" and ("pre", natural_stop) in names
        if (ended or self_cancelled) and not is_victim and rtask is not None and rtask.done() and not rtask.cancelled() \
                and rtask.exception() is not None:
            cviol("C14.result_raises", {"entry": prog["entry"], "after": "return" if ended else "cancel_self"},
                  f"p{tid} ({prog['entry']}) {'returned' if ended else 'cancelled itself'}, but its task ended with the "
                  f"exception {rtask.exception()!r}: task_id.result() raises that instead of "
                  f"{'giving the function value' if ended else 'CancelledError'}")
        elif edit_changed and not is_victim and natural_stop is not None and steps[natural_stop][0] == "raise" \
                and rtask is not None and rtask.done() and not rtask.cancelled() and rtask.exception() is not None \
                and not (isinstance(rtask.exception(), ValueError) and str(rtask.exception()) == "boom"):
            # (what result() gives for a function that raised is not documented - but not an exception of another kind)
            cviol("C14.result_raises", {"entry": prog["entry"], "after": "raise"},
                  f"p{tid} ({prog['entry']}) raised ValueError('boom'), but its task ended with the exception "
                  f"{rtask.exception()!r}")
    # ---- a child cancelled by its creator (possibly before its first step)
    kid = spec.get("kid")
    if kid:
        ksp = [m["args"][1] for m in obs["marks"] if m["args"][0] == "kidsp"]
        kmarks = [m["args"][1] for m in obs["marks"] if m["args"][0] == "kid"]
        order = [m["args"][:2] for m in obs["marks"] if m["args"][0] in ("kid", "kidsp")]
        child_started = ["kid", "start"] in order and (
            ["kidsp", "cancelling"] not in order or order.index(["kid", "start"]) < order.index(["kidsp", "cancelling"]))
        w.probe("child_cancelled_after_start" if child_started else "child_cancelled_before_first_step")
        sig = {"child_started": child_started}
        ran = [m for m in obs["marks"] if m["args"][0] == "cb" and m["args"][2] == kid["tag"] and m["args"][3] == "start"]
        waited = next((m for m in obs["marks"] if m["args"][:2] == ["kidsp", "waited"]), None)
        if "cancelling" not in ksp:
            viol("C14.run_incomplete", {"entry": "kid_spawner"}, f"the creator run did not get to its task.cancel: {ksp}")
        elif "cancelled" not in ksp:
            viol("C14.cancel_rejected", sig,
                 f"task.cancel(child) raised in the creator run (child markers {kmarks}): task.cancel cancels the task "
                 f"returned by task.create")
        else:
            if "end" in kmarks:
                viol("C14.cancel_swallowed", {"where": "child", **sig}, f"the cancelled child ran to its end: {kmarks}")
            if waited is None:
                viol("C14.wait_never_returned", {"who": "creator", **sig},
                     f"task.wait on the cancelled child did not return: {ksp}")
            elif waited["raw_kw"].get("out") != "cancelled":
                viol("C14.wait_outcome", {"want": "cancelled", "who": "creator", **sig},
                     f"task.wait/result on the cancelled child reported {waited['raw_kw'].get('out')!r}")
        if len(ran) != 1 and ("cancelled" in ksp or "end" in kmarks):
            viol("C14.callback_not_run" if not ran else "C14.callback_ran_twice",
                 {"pattern": "child_cancelled_by_creator", **sig} if not ran else {"kind": kid["cb"], **sig},
                 f"the done callback cb_{kid['cb']}({kid['tag']}) the creator gave its child ran {len(ran)} times "
                 f"(child markers {kmarks}, creator markers {ksp})")
    # ---- every run is a task of its own
    owner: dict = {}
    for tid in sorted(progs):
        label = next((m["task"] for m in obs["marks"] if m["args"][:3] == ["p", tid, "start"]), None)
        if label is None:
            continue
        if label in owner:
            viol("C14.runs_share_task", {"entries": sorted([progs[owner[label]]["entry"], progs[tid]["entry"]])},
                 f"p{owner[label]} ({progs[owner[label]]['entry']}) and p{tid} ({progs[tid]['entry']}) ran in the same "
                 f"task #{label}: every trigger occurrence / service call / task.create starts its own task")
        else:
            owner[label] = tid
    # ---- shutdown runs: all started by one unload/reload; none waits for another one, the unload returns
    sd = sorted(tid for tid, p in progs.items() if p["entry"] == "shutdown")
    if sd:
        via_sd = spec.get("shutdown_via") or "unload"
        w.probe("shutdown_run")
        if len(sd) >= 2:
            w.probe("shutdown_runs_together")
        if not obs.get("shutdown_returned"):
            selfc = sorted(tid for tid in sd if any(
                m["args"][:3] == ["p", tid, "pre"] and m["args"][3] < len(progs[tid]["steps"])
                and progs[tid]["steps"][m["args"][3]][0] == "cancel_self" for m in obs["marks"]))
            viol("C14.shutdown_never_returned", {"via": via_sd, "a_shutdown_run_cancelled_itself": bool(selfc)},
                 f"{via_sd} of the script did not return within {SHUTDOWN_HORIZON} s; shutdown programs {sd}, of "
                 f"which {selfc} ended with task.cancel(): one run's exit blocks everything that comes after the "
                 f"unload (the next load of the script, all later runs)")
        first = {}
        for tid in sd:
            at = next((m["vt"] for m in obs["marks"] if m["args"][:3] == ["p", tid, "start"]), None)
            if at is not None:
                first[tid] = at
        if first:
            t0 = min(first.values())
            if t0 < obs["shutdown_at"]:
                viol("C14.shutdown_run_early", {"via": via_sd}, f"a shutdown run started before the {via_sd}: {first}")
            for tid, at in sorted(first.items()):
                if at - t0 > 0.05:
                    viol("C14.run_delayed", {"entry": "shutdown", "via": via_sd},
                         f"shutdown run p{tid} started {at - t0:.3f} s after the first shutdown run of the same "
                         f"{via_sd} (starts, relative: { {k: round(v - t0, 4) for k, v in sorted(first.items())} }): "
                         f"it was held up by another run")
    # ---- sleeping / waiting runs give way
    _give_way(scn, obs, viol)
    # ---- waiter
    if spec["waiter"]:
        saw = [m for m in obs["marks"] if m["args"][:2] == ["waiter", "saw"]]
        prog = progs[vic]
        if len(saw) != 1:
            if not any(m["args"][:2] == ["waiter", "notask"] for m in obs["marks"]):
                viol("C14.wait_never_returned", {}, f"task.wait on the victim returned {len(saw)} times")
        else:
            out_val = saw[0]["raw_kw"].get("out")
            vic_pending = _judge_wait_set(spec, obs, progs, saw[0]["raw_kw"], viol, w)
            steps = prog["steps"]
            self_cancel = any(s[0] == "cancel_self" for s in steps)
            vic_ended = ("end",) in [s[0] for s in _seq(obs, vic)]
            if landed and not vic_ended:
                want = "cancelled"
            elif self_cancel and not vic_ended:
                want = "cancelled"
            elif vic_ended and prog["entry"] == "create":
                want = ["result", prog["ret"]]  # documented for task.create: result() is the function's value
            elif vic_ended:
                want = "anyresult"  # trigger/service runs: only 'finished, not cancelled' is required
            else:
                want = ["result", None]  # raised: pyscript logs and the task returns None
            if landed and (cancel["in_cb"] or vic_cancel_in_cb):
                want = None  # body finished, cancelled inside its done callbacks: don't-care
            if vic_pending:
                want = None  # timeout= / return_when=: the victim was legitimately still pending
            if want == "cancelled":
                w.probe("waiter_saw_cancelled")
            if want == "anyresult":
                if not (isinstance(out_val, list) and out_val[0] == "result"):
                    viol("C14.wait_outcome", {"want": "result"},
                         f"task.wait/result on the victim reported {out_val!r}, expected a result")
            elif want is not None and out_val != want and not (vic_ended and landed):
                viol("C14.wait_outcome", {"want": want if isinstance(want, str) else "result"},
                     f"task.wait/result on the victim reported {out_val!r}, expected {want!r}")
    _overlap_probes(obs, w)
    # a violation that names the construct behind it stands for the run: whatever else the run shows (an exception
    # that reached Home Assistant, what a waiter saw) may be a consequence of it and is not reported next to it
    primary = [v for v in out if v["class"] in PRIMARY_CLASSES]
    return primary or out


def run(scn: dict) -> dict:
    tier_points = TIERS["quick"]["max_points"]
    fault = scn["fault"]
    sub = "legacy" if scn["cfg"]["legacy"] else "new"
    base = execute(scn, None)
    w0 = base["w"]
    violations = judge(scn, base, None, sub)
    n_points = 0
    landed = 0
    patch = None
    agg_faults: dict = {}
    agg_reach: dict = {}
    iters = w0.loop.iterations
    sim_s = w0.loop.vt - w0.clock.vt0

    def merge(obs):
        nonlocal iters, sim_s
        ww = obs["w"]
        for k, v in ww.faults.items():
            agg_faults[k] = agg_faults.get(k, 0) + v
        for k, v in ww.reach.items():
            agg_reach[k] = agg_reach.get(k, 0) + v
        iters += ww.loop.iterations
        sim_s += ww.loop.vt - ww.clock.vt0

    if not violations and fault["mode"] != "none" and "start_iter" in base["victim"]:
        span = base["victim"]["last_iter"] - base["victim"]["start_iter"] + 3
        if fault["mode"] == "single":
            points = [fault["iter"]]
        else:
            points = list(range(1, span + 1))
            cap = scn.get("max_points") or tier_points
            if len(points) > cap:
                stride = len(points) / cap
                points = sorted({points[int(i * stride)] for i in range(cap)})
        for k in points:
            scn_k = dict(scn, fault=dict(fault, iter=k))
            obs = execute(scn_k, k)
            n_points += 1
            if obs["cancel"] and obs["cancel"]["done"] is False:
                landed += 1
            vs = judge(scn_k, obs, base, sub)
            merge(obs)  # (after the verdict: the reach probes counted while judging belong to this execution)
            if vs:
                violations = vs
                patch = {"fault": {"mode": "single", "via": fault["via"], "iter": k}}
                break
    res = base_result(w0, violations, landed >= 1, {"cancel_points": n_points, "cancel_landed": landed})
    for k, v in agg_faults.items():
        res["faults"][k] = res["faults"].get(k, 0) + v
    for k, v in agg_reach.items():
        res["reach"][k] = res["reach"].get(k, 0) + v
    if landed:
        res["reach"]["cancel_landed"] = res["reach"].get("cancel_landed", 0) + landed
    res["iterations"] = iters
    res["sim_seconds"] = round(sim_s, 3)
    if patch:
        res["scn_patch"] = patch
    return res


def evidence_extra(lines: list) -> dict:
    pts = sum((ln.get("extra") or {}).get("cancel_points", 0) for ln in lines)
    landed = sum((ln.get("extra") or {}).get("cancel_landed", 0) for ln in lines)
    return {"cancel_points_enumerated": pts, "cancellations_landed_on_live_victim": landed,
            "executions": pts + len(lines)}
