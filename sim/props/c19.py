"""C19 - Jupyter kernel: lossless ZMTP framing, authenticated requests, correlated replies.

Two sub-workloads, one per run (``scn["spec"]["mode"]``):

``frame``  No Home Assistant.  Frame lists with lengths around 0/1/255/256/65535/65536 are written by the
           REAL ``ZmqSocket.send`` / ``send_multipart`` / ``send_cmd`` into a capturing writer; the captured
           byte stream is fed to a REAL ``asyncio.StreamReader`` in fragments (cut positions and virtual-time
           delays from the scenario; every single cut - and in the thorough tier every pair of cuts - for
           streams of <= 24 bytes) and read back with the REAL ``recv`` / ``recv_multipart``.  The stream is
           closed (EOF) after the last byte or at a generated prefix (every prefix for small streams).
           Oracle: exactly the messages that are completely inside the delivered prefix are returned,
           identical to what was written, then ``EOFError``; never a truncated or garbled frame list, never a
           hang.  The captured stream must also decode to the same frames with the harness' own ZMTP decoder.

``proto``  Real HA + real pyscript (``sim.world.World``).  A session is started through the real
           ``pyscript.jupyter_kernel_start`` service; ``asyncio.start_server`` is the seam.  An independent
           client (``sim.jupyter_net``: own ZMTP codec and HMAC) connects to the five ports with a
           fragmented greeting and sends <= 12 execute/complete/is_complete/kernel_info/comm_info/history
           requests on shell (a few on control), heartbeat pings, with faults: fragmentation with delays,
           single-bit corruption, frame replacement, wrong key, truncated connection (EOF mid-message).
           In a share of the runs a second front end is attached to the same session (its own shell
           connection, session id and identities; from the start or only when it sends its first request):
           shell requests are spread over the two front ends, so that a request of one is delivered while
           a request of the other is being handled (e.g. while its cell sleeps); in a share of those the two
           front ends do not wait for each other either before they send a cell.
           Cells: assignments / prints / log calls / expressions / raise (Exception subclasses and
           GeneratorExit) / sleeps / witness writes / a syntax error / an object with its own ``__repr__`` as the
           value of the cell.  In a share of the runs an unchanged cell is executed again, with the non-execute
           requests of a console (is_complete / complete about a different, generated text) in between.
           Oracle (from the property text): see ``_oracle_proto``.
"""

from __future__ import annotations

import asyncio
import copy
import hashlib
import json
import logging
import random
import types
import uuid as _uuid
from unittest.mock import patch

from .. import jupyter_net as N
from ..common import base_result, gen_cfg, gen_delay, wait_op
from ..loop import SimCapExceeded, new_loop
from ..world import HarnessError, World

PROPERTY = "C19"
LEVEL = "fault_enumeration"
RULE = (
    "per run one of two modes (50/50). frame: 1-4 messages (send / send_multipart / send_cmd) of <= 6 frames "
    "with lengths drawn around 0/1/255/256/65535/65536 and seeded contents; fragmentations = every single cut "
    "(thorough: also every pair) for streams <= 24 bytes, else <= 8 seeded cuts biased into length prefixes or "
    "byte-by-byte; EOF at every prefix (small) or at seeded prefixes; each (stream, cuts, eof) is one case "
    "(counted in sums.cases). proto: one kernel session, <= 12 requests with generated cells, fragmented, "
    "with <= 3 faults (bit flip / frame replacement / wrong key / truncated connection); in 30% of the proto runs "
    "the shell requests are spread over two front ends (two shell connections to the one session, the second "
    "attached at the start or at its first request), often with a slow cell on one and a non-execute request "
    "on the other before the cell has finished, and in 40% of those runs cells of the two front ends are sent "
    "without waiting for each other; ~5% of the cells end with an object whose __repr__ is native / native and "
    "raising / a pyscript method, ~3% end by raising GeneratorExit; in 22% of the proto runs an earlier cell is "
    "executed again unchanged (usually directly after its original) with 0-2 is_complete/complete/kernel_info "
    "requests in between whose text is a generated cell, a prefix of one, or from a fixed pool; distinct = scenario "
    "digest; non-trivial = frame: a cut strictly inside a frame and >= 1 delivery; proto: >= 1 valid request "
    "answered and >= 1 fault or fragmented request"
)
ASSUMPTIONS = [
    "TCP is modelled as a reliable ordered byte stream: fragmentation, delays and EOF only (no corruption below "
    "the kernel, no reordering); corruption faults are applied by the client before sending",
    "StreamWriter.drain() of the kernel's writers returns immediately, after one loop pass, or after 1 ms "
    "(per run); kernel writes are never fragmented towards the client (the client decoder is the harness' own)",
    "one shell connection at a time per front end; a front end reconnects only after the kernel closed the "
    "truncated one; at most two front ends, and the second has a shell connection only (iopub/hb/control/stdin "
    "are the first one's: a second iopub subscriber is not generated)",
    "two front ends: unless spec.fe2.overlap is set the driver sends an execute_request of the other front end "
    "only after everything sent before has had time to finish (1 s + the sleeps sent so far); all other request "
    "types overlap freely with a running cell of the other front end. With fe2.overlap cells of the two front "
    "ends are in flight together; the property does not say in which order a kernel executes them, so every "
    "order is accepted that keeps the order of each connection and the order of cells whose handling did not "
    "overlap (idle broadcast of one before the busy broadcast of the other): reply status, execution counter "
    "(execute_input, execute_result, execute_reply), results, errors, stdout and side effects must be those of "
    "the cells executed one after the other in ONE of these orders (violations of the closest order are "
    "reported with sig.concurrent = true). The requester of a request is the peer of "
    "the connection it arrived on: a message on another shell connection is not its reply. For a request "
    "handled while one of the other front end was in progress the busy/idle bracket is judged on the status "
    "broadcasts that carry this request's header as parent (positions alone cannot tell whose they are); the "
    "reply bound is extended by the sleeps of the other front end's earlier cells (serving front ends one "
    "after the other is allowed)",
    "a request is 'valid' when it was signed with the session key and delivered completely on a connection the "
    "kernel had not closed; identities are outside the signature (Jupyter protocol), so they are never corrupted",
    "status broadcasts are judged by position relative to the reply (last status before = busy, first after = "
    "idle) on an iopub subscriber connected before the first request; iopub messages failing HMAC verification "
    "are dropped like a real client does",
    "cross-cell order of iopub outputs is judged; the order of stdout relative to the error/result of the same "
    "cell and the parent_header of stream messages are not stated by the property (reported as reach counters "
    "stdout_after_idle / stdout_misparented only)",
    "print()/log.debug need the session logger at DEBUG: the driver sets custom_components.pyscript.jupyter_N "
    "to DEBUG (HA logger configuration)",
    "the value of a cell whose repr() raises, or whose __repr__ is a pyscript (async) method ('special methods in "
    "a class created in pyscript will not work', reference.rst), has no defined text: the request must be "
    "answered exactly once with the busy/idle bracket and counts as an executed cell, but ok (+ any or no "
    "execute_result) and error (+ one error broadcast, any name) are both accepted",
    "BaseExceptions raised by cells: GeneratorExit only. KeyboardInterrupt and SystemExit are re-raised by "
    "asyncio out of the running event loop (they would end the simulation, as they would end Home Assistant) and "
    "asyncio.CancelledError is the kernel's own shutdown signal: not generated",
    "execute_input: only its execution_count is judged (the counter announced for a cell is the counter of its "
    "reply); the echoed code and the presence of the broadcast are not stated by the property",
    "uuid.uuid4 and datetime inside jupyter_kernel are replaced by deterministic shims; msg ids/dates never judged",
    "messages with extra buffer frames, replayed messages, upper-case signatures, unknown msg_types, "
    "store_history/silent and valid execute requests on control are not generated (not covered by the text)",
]
TIERS = {
    "quick": {"runs": 3000, "chunk": 100, "max_reqs": 10, "shrink_budget": 30, "max_shrink": 4},
    "thorough": {"runs": 120000, "chunk": 500, "max_reqs": 12, "chunk_timeout": 2400, "shrink_budget": 60,
                 "max_shrink": 6},
}
REACH_PROBES = [
    "cut_inside_length_prefix", "cut_inside_long_length", "cut_between_header_and_body", "boundary_255_256",
    "long_frame_65536", "empty_frame", "byte_by_byte", "eof_mid_frame", "eof_mid_multipart", "eof_at_boundary",
    "exhaustive_cuts", "command_between_messages", "long_command",
    "corrupt_signature", "corrupt_signed_frame", "corrupt_delimiter", "frame_replaced", "wrong_key",
    "truncated_connection", "reconnect_after_eof", "pipelined_requests", "request_over_255", "long_identity",
    "error_cell", "stdout_cell", "result_cell", "witness_cell", "session_killed_by_tamper", "port_busy",
    "request_cut_inside_length_prefix", "heartbeat_long", "stdout_after_idle", "stdout_misparented",
    "control_request", "name_error_cell", "print_then_fail_pipelined",
    "second_front_end", "front_end_attached_late", "concurrent_front_ends", "reply_while_other_cell_runs",
    "cell_from_other_front_end",
    "cell_rerun", "rerun_after_is_complete_of_other_text", "is_complete_of_typed_cell",
    "result_repr_native", "result_repr_native_raises", "result_repr_pyscript", "base_exception_cell",
    "front_ends_not_waiting", "cell_delivered_during_cell_of_other_front_end", "overlapping_cells",
]
# probes that only fire together with the defect they observe (C19-K2, repaired): not "reach"
# overlapping_cells: a kernel that serves its front ends one after the other never shows it
SYMPTOM_PROBES = ["stdout_after_idle", "stdout_misparented", "overlapping_cells"]
SHRINK_LISTS = [["ops"], ["spec", "msgs"], ["spec", "msgs", "*", "frames"], ["spec", "cuts", "pos"],
                ["spec", "eof", "pos"], ["ops", "*", "cell"], ["ops", "*", "cuts"], ["ops", "*", "ids"]]

WITNESS = "pyscript.c19_w"
STATE_VAR = "pyscript.c19_ports"
ORDER_CAP = 1000  # candidate orders of overlapping cells (two chains of <= 12 cells: <= 924)
REPLY_BOUND = 2.0  # virtual seconds from "request completely delivered and kernel free" to the reply

LEN_POOL = [0, 0, 1, 1, 2, 5, 17, 127, 128, 254, 255, 255, 256, 256, 257, 300, 1000, 4096]
LEN_BIG = [65535, 65535, 65536, 65536, 65537, 70000]
DELAY_POOL = [0, 0, -1, -1, -1, 0.001, 0.05, 0.25, 1.0]


# =============================================================================== generation
def _wire_len(msg: dict) -> bytes:
    """Expected wire image of one written message (harness encoder); used by gen to place cuts."""
    if msg["k"] == "mp":
        return N.enc_message([N.payload(ln, sd) for ln, sd in msg["frames"]])
    if msg["k"] == "send":
        return N.enc_message([b"", N.payload(*msg["frame"])])
    return N.enc_command(msg["name"].encode(), [(k.encode(), v.encode()) for k, v in msg["params"]])


def _interesting_offsets(wire: bytes) -> list[int]:
    lay = N.frame_layout(wire) or []
    out = []
    for fr in lay:
        off, hdr, size = fr["off"], fr["hdr"], fr["size"]
        out.extend(range(off + 1, off + hdr + 1))  # inside the header and right after it
        if size:
            out.extend([off + hdr + 1, off + hdr + size - 1])
        out.append(off + hdr + size)
    return [o for o in out if 0 < o < len(wire)]


def _gen_cuts(rng: random.Random, wire: bytes, kmax: int = 8) -> list[int]:
    n = len(wire)
    if n < 2:
        return []
    hot = _interesting_offsets(wire)
    cuts = set()
    for _ in range(rng.choice([0, 1, 1, 2, 3, 5, kmax])):
        if hot and rng.random() < 0.65:
            cuts.add(rng.choice(hot))
        else:
            cuts.add(rng.randint(1, n - 1))
    return sorted(cuts)


def _gen_delays(rng: random.Random) -> list:
    return [rng.choice(DELAY_POOL) for _ in range(rng.randint(1, 4))]


def _gen_frame_mode(rng: random.Random, tier: str) -> dict:
    small = rng.random() < 0.35
    msgs = []
    if small:
        budget = 24
        for _ in range(rng.choice([1, 1, 2, 3])):
            kind = rng.choice(["mp", "mp", "mp", "send"])
            if kind == "send":
                ln = rng.randint(0, 4)
                if budget - (4 + ln) < 0:
                    break
                msgs.append({"k": "send", "frame": [ln, rng.randint(0, 9)], "rd": rng.choice(["mp", "join"])})
                budget -= 4 + ln
            else:
                frames = []
                for _ in range(rng.randint(1, 5)):
                    ln = rng.choice([0, 0, 1, 1, 2, 3, 5])
                    if budget - (2 + ln) < 0:
                        break
                    frames.append([ln, rng.randint(0, 9)])
                    budget -= 2 + ln
                if frames:
                    msgs.append({"k": "mp", "frames": frames, "rd": rng.choice(["mp", "mp", "join"])})
        if not msgs:
            msgs.append({"k": "mp", "frames": [[1, 2]], "rd": "mp"})
    else:
        big_left = 1 if rng.random() < (0.5 if tier == "thorough" else 0.3) else 0
        for _ in range(rng.choice([1, 1, 2, 3, 4])):
            roll = rng.random()
            if roll < 0.12:
                params = [["Socket-Type", rng.choice(["ROUTER", "PUB", "REP"])]]
                if rng.random() < 0.5:
                    params.append(["Identity", ""])
                if rng.random() < 0.3:
                    params.append(["X-Pad", "x" * rng.choice([200, 250, 300])])
                msgs.append({"k": "cmd", "name": rng.choice(["READY", "PING", "ERROR"]), "params": params})
            elif roll < 0.3:
                ln = rng.choice(LEN_POOL)
                if big_left and rng.random() < 0.3:
                    ln, big_left = rng.choice(LEN_BIG), 0
                msgs.append({"k": "send", "frame": [ln, rng.randint(0, 1 << 20)], "rd": rng.choice(["mp", "join"])})
            else:
                frames = []
                for _ in range(rng.choice([1, 2, 3, 4, 6])):
                    ln = rng.choice(LEN_POOL)
                    if big_left and rng.random() < 0.25:
                        ln, big_left = rng.choice(LEN_BIG), 0
                    frames.append([ln, rng.randint(0, 1 << 20)])
                msgs.append({"k": "mp", "frames": frames, "rd": rng.choice(["mp", "mp", "mp", "join"])})
        if all(m["k"] == "cmd" for m in msgs):
            msgs.append({"k": "mp", "frames": [[255, 7], [256, 8]], "rd": "mp"})
    wire = b"".join(_wire_len(m) for m in msgs)
    n = len(wire)
    if n <= 24:
        cuts = {"mode": "all2" if (tier == "thorough" and rng.random() < 0.5) else "all1", "pos": []}
        eof = {"mode": "all", "pos": []}
    else:
        if n <= 700 and rng.random() < 0.15:
            cuts = {"mode": "bytes", "pos": []}
        else:
            cuts = {"mode": "list", "pos": _gen_cuts(rng, wire),
                    "more": [rng.randrange(1 << 30) for _ in range(rng.choice([0, 2, 4, 6]))]}
        hot = _interesting_offsets(wire)
        pos = set()
        for _ in range(rng.choice([0, 1, 2, 3])):
            pos.add(rng.choice(hot) if hot and rng.random() < 0.6 else rng.randint(0, n - 1))
        eof = {"mode": "list", "pos": sorted(pos)}
    cfg = {"cost_us": rng.choice([10, 50, 200, 1000]), "env_seed": rng.randrange(1 << 30), "legacy": False}
    return {"cfg": cfg, "spec": {"mode": "frame", "msgs": msgs, "cuts": cuts, "eof": eof,
                                  "delays": _gen_delays(rng)}, "ops": []}


# ---- cells -----------------------------------------------------------------------------------
VARS = ["v0", "v1", "v2"]
WORDS = ["alpha", "beta", "gamma", "delta", "x y", "100%", "a'b", "tab\\t"]
ERRS = ["ValueError", "KeyError", "RuntimeError", "TypeError"]
# exceptions a cell can raise that are not subclasses of Exception.  KeyboardInterrupt / SystemExit are re-raised
# by asyncio out of the event loop (they would end the simulation itself) and CancelledError is the kernel's own
# shutdown signal: not generated (see ASSUMPTIONS)
BASE_ERRS = ["GeneratorExit"]
# an object as the value of a cell; what repr() of it does:
#   native         __repr__ compiled with @pyscript_compile, returns a text         -> defined: that text
#   native_raises  __repr__ compiled with @pyscript_compile, raises                 -> open (but must be answered)
#   pyscript       __repr__ is a pyscript (async) method: "will not work" (docs)    -> open (but must be answered)
ROBJ_KINDS = ["native", "native_raises", "pyscript", "pyscript"]
ROBJ_RATE = 0.05  # share of the generated cells whose value is such an object
BASE_ERR_RATE = 0.03  # share of the generated cells that end by raising a BaseException


def _gen_int_expr(rng: random.Random, depth: int = 2) -> list:
    roll = rng.random()
    if depth <= 0 or roll < 0.35:
        return ["i", rng.randint(-9, 99)]
    if roll < 0.6:
        return ["v", rng.choice(VARS)]
    return [rng.choice(["+", "-", "*"]), _gen_int_expr(rng, depth - 1), _gen_int_expr(rng, depth - 1)]


def _gen_val_expr(rng: random.Random) -> list:
    if rng.random() < 0.25:
        if rng.random() < 0.5:
            return ["s", rng.choice(WORDS[:5])]
        return ["+", ["s", rng.choice(WORDS[:4])], ["s", rng.choice(WORDS[:4])]]
    return _gen_int_expr(rng)


def _gen_cell(rng: random.Random, idx: int, force_witness: bool = False) -> list:
    """A cell is a list of statements (see ``_stmt_src`` / ``_model_cell``)."""
    if force_witness:
        cell = [["wit", f"w{idx}"]]
        if rng.random() < 0.3:
            cell.insert(0, ["print", ["s", f"t{idx}"]])
        return cell
    roll = rng.random()
    if roll < 0.04:
        return [["syntax"]]
    cell = []
    for _ in range(rng.choice([1, 1, 1, 2, 2, 3, 4])):
        kind = rng.choice(["set", "set", "print", "print", "loginfo", "expr", "expr", "raise", "wit", "sleep", "none"])
        if kind == "set":
            cell.append(["set", rng.choice(VARS), _gen_int_expr(rng)])
        elif kind == "print":
            cell.append(["print", ["s", rng.choice(WORDS)] if rng.random() < 0.6 else _gen_int_expr(rng, 1)])
        elif kind == "loginfo":
            cell.append(["loginfo", rng.choice(WORDS[:5]) + str(idx)])
        elif kind == "expr":
            cell.append(["expr", _gen_val_expr(rng)])
        elif kind == "raise":
            if rng.random() < 0.5:
                cell.append(["raise", rng.choice(ERRS), f"boom {idx}"])
        elif kind == "wit":
            cell.append(["wit", f"w{idx}"])
        elif kind == "sleep":
            if rng.random() < 0.4:
                cell.append(["sleep", rng.choice([0.05, 0.3, 1.0])])
        else:
            cell.append(["expr", ["none"]])
    if not cell:
        cell.append(["expr", _gen_val_expr(rng)])
    roll = rng.random()
    if roll < ROBJ_RATE:
        # the value of the cell is an instance of a class defined in the cell
        cell.append(["robj", rng.choice(ROBJ_KINDS), idx])
    elif roll < ROBJ_RATE + BASE_ERR_RATE:
        cell.append(["raise", rng.choice(BASE_ERRS), f"stop {idx}"])
    if rng.random() < 0.08:
        # a long literal makes the content frame a long (8-byte length) frame
        cell.insert(0, ["set", "v2", ["len", "q" * rng.choice([200, 300, 700])]])
    return cell


def _expr_src(e: list) -> str:
    t = e[0]
    if t == "i":
        return repr(e[1])
    if t == "s":
        return repr(e[1])
    if t == "v":
        return e[1]
    if t == "none":
        return "None"
    if t == "len":
        return f"len({e[1]!r})"
    return f"({_expr_src(e[1])} {t} {_expr_src(e[2])})"


def _stmt_src(st: list) -> str:
    t = st[0]
    if t == "set":
        return f"{st[1]} = {_expr_src(st[2])}"
    if t == "print":
        return f"print({_expr_src(st[1])})"
    if t == "loginfo":
        return f"log.info({st[1]!r})"
    if t == "expr":
        return _expr_src(st[1])
    if t == "raise":
        return f"raise {st[1]}({st[2]!r})"
    if t == "wit":
        return f"{WITNESS} = {st[1]!r}"
    if t == "sleep":
        return f"task.sleep({st[1]!r})"
    if t == "syntax":
        return "1 +"
    if t == "robj":
        kind, n = st[1], st[2]
        body = f"raise ValueError('repr {n}')" if kind == "native_raises" else f"return {_robj_text(n)!r}"
        deco = "" if kind == "pyscript" else "    @pyscript_compile\n"
        return f"class R{n}:\n{deco}    def __repr__(self):\n        {body}\nR{n}()"
    raise HarnessError(f"unknown statement {st!r}")


def _robj_text(n) -> str:
    return f"R<{n}>"


def cell_src(cell: list, sep: str = "\n") -> str:
    if any(st[0] == "robj" for st in cell):
        sep = "\n"  # a compound statement cannot follow a ";"
    return sep.join(_stmt_src(st) for st in cell)


class _ModelError(Exception):
    def __init__(self, ename, evalue):
        super().__init__(ename)
        self.ename, self.evalue = ename, evalue


def _model_eval(e: list, env: dict):
    t = e[0]
    if t in ("i", "s"):
        return e[1]
    if t == "none":
        return None
    if t == "len":
        return len(e[1])
    if t == "v":
        if e[1] not in env:
            raise _ModelError("NameError", f"name '{e[1]}' is not defined")
        return env[e[1]]
    a = _model_eval(e[1], env)
    b = _model_eval(e[2], env)
    return a + b if t == "+" else a - b if t == "-" else a * b


class _Shown:
    """Model value of an object whose repr() is a given text."""

    def __init__(self, text: str) -> None:
        self.text = text

    def __repr__(self) -> str:
        return self.text


def model_cell(cell: list, env: dict) -> dict:
    """Reference semantics of a cell by construction: outputs, result, error, witness writes, sleep.

    ``open`` is set when the value of the cell is an object whose repr() is not defined by the documentation
    (raises, or is a pyscript method): the cell ran (outputs, side effects, counter), the request is answered,
    but whether the answer is ok (+ some result text) or an error is left open.
    """
    out = {"streams": [], "result": None, "error": None, "wit": [], "sleep": 0.0, "open": None}
    if any(st[0] == "syntax" for st in cell):
        out["error"] = ["SyntaxError", None]
        return out
    last = None
    try:
        for st in cell:
            t = st[0]
            last = None
            if t == "set":
                env[st[1]] = _model_eval(st[2], env)
            elif t == "print":
                out["streams"].append(str(_model_eval(st[1], env)) + "\n")
            elif t == "loginfo":
                out["streams"].append(st[1] + "\n")
            elif t == "expr":
                last = _model_eval(st[1], env)
            elif t == "raise":
                raise _ModelError(st[1], st[2] if st[1] != "KeyError" else repr(st[2]))
            elif t == "wit":
                out["wit"].append(st[1])
            elif t == "sleep":
                out["sleep"] += st[1]
            elif t == "robj":
                last = _Shown(_robj_text(st[2])) if st[1] == "native" else _Shown("?" + st[1])
    except _ModelError as err:
        out["error"] = [err.ename, err.evalue]
        return out
    if isinstance(last, _Shown) and last.text.startswith("?"):
        out["open"] = last.text[1:]
    elif last is not None:
        out["result"] = repr(last)
    return out


# ---- protocol scenario -------------------------------------------------------------------------
REQ_TYPES = ["execute_request"] * 8 + ["complete_request", "is_complete_request", "kernel_info_request",
                                        "comm_info_request", "history_request"]
SIGNED = ["header", "parent", "metadata", "content"]
KEYS = ["0123456789abcdef", "a", "c19-secret-key-with-some-length-0000000000000000", "kéy-ü"]
FE2_SHARE = 0.3  # share of the protocol runs with a second front end
FE2_OVERLAP_SHARE = 0.4  # share of those in which cells of the two front ends are sent without waiting
RERUN_SHARE = 0.22  # share of the protocol runs in which an unchanged cell is executed again
FE_SESSIONS = ["c19-client", "c19-fe-two"]  # same length: the wire layout does not depend on the front end


def _gen_ids(rng: random.Random) -> list[str]:
    roll = rng.random()
    if roll < 0.1:
        return []
    ids = []
    for _ in range(rng.choice([1, 1, 1, 2, 3])):
        ln = rng.choice([1, 4, 5, 8, 16, 32]) if rng.random() < 0.93 else rng.choice([255, 256, 300])
        ids.append(N.payload(ln, rng.randint(4, 1 << 20)).hex())
    return ids


IS_COMPLETE_POOL = ["x = 1", "def f():\n    pass", "def f():\n    pass\n", "x = ", "if 1:\n", "for i in range(3):",
                    "(1 +", "", "'abc"]


def _gen_typed_text(rng: random.Random, idx: int) -> str:
    """What a console front end asks about while the user types the next input: a generated cell, or a
    prefix of one."""
    src = cell_src(_gen_cell(rng, idx), rng.choice(["\n", "\n", "; "]))
    if rng.random() < 0.4:
        src = src[: rng.randint(0, len(src))]
    return src


def _gen_content(rng: random.Random, mtype: str, idx: int = 0, typed_p: float = 0.3) -> dict:
    if mtype == "complete_request":
        if rng.random() < typed_p / 2:
            code = _gen_typed_text(rng, 4000 + idx)
            return {"code": code, "cursor_pos": len(code)}
        code = rng.choice(["pys", "pyscript.c", "whi", "v", "task.", "x = 1\nlo", "", "state.g"])
        return {"code": code, "cursor_pos": rng.randint(0, len(code))}
    if mtype == "is_complete_request":
        if rng.random() < typed_p:
            return {"code": _gen_typed_text(rng, 4000 + idx)}
        return {"code": rng.choice(IS_COMPLETE_POOL)}
    if mtype == "history_request":
        return {"output": False, "raw": True, "hist_access_type": "tail", "n": 10}
    if mtype == "comm_info_request":
        return {"target_name": "t"} if rng.random() < 0.5 else {}
    return {}


def _gen_fault(rng: random.Random, key: str) -> dict:
    roll = rng.random()
    if roll < 0.45:
        frame = rng.choice(["sig", "sig", "header", "parent", "metadata", "content", "content", "delim"])
        return {"t": "flip", "frame": frame, "bit": rng.randint(0, 4095)}
    if roll < 0.7:
        frame = rng.choice(["sig", "header", "content", "content", "metadata", "parent"])
        return {"t": "replace", "frame": frame, "with": rng.choice(["random", "empty", "other", "zeros"]),
                "seed": rng.randint(4, 1 << 20)}
    alts = [key[:-1], key + "0", key.upper() if key.upper() != key else key.lower(), "", "wrong", key[::-1] + "x"]
    return {"t": "key", "key": rng.choice([a for a in alts if a != key])}


def _gen_req(rng: random.Random, idx: int, key: str, tampered: bool, channel: str = "shell") -> dict:
    op = gen_delay(rng, burst_p=0.45, grid=0.25, max_steps=4)
    if channel == "control":
        mtype = "execute_request" if tampered else "kernel_info_request"
    elif tampered:
        mtype = "execute_request" if rng.random() < 0.8 else rng.choice(REQ_TYPES[8:])
    else:
        mtype = rng.choice(REQ_TYPES)
    op.update({"kind": "req", "ch": channel, "mt": mtype, "ids": _gen_ids(rng), "fault": None})
    if mtype == "execute_request":
        op["cell"] = _gen_cell(rng, idx, force_witness=tampered)
        op["sep"] = rng.choice(["\n", "\n", "; "])
    else:
        op["content"] = _gen_content(rng, mtype, idx)
    if tampered:
        op["fault"] = _gen_fault(rng, key)
    return op


def _place_cuts(rng: random.Random, op: dict, key: str, idx: int) -> None:
    wire, _ = build_request(op, key, idx)
    if rng.random() < 0.08 and len(wire) <= 900:
        op["cuts"] = "bytes"
    else:
        op["cuts"] = _gen_cuts(rng, wire)
    op["delays"] = _gen_delays(rng)


def _gen_proto_mode(rng: random.Random, tier: str) -> dict:
    cfg = gen_cfg(rng, legacy=False)
    cfg["fire_started"] = True
    key = rng.choice(KEYS) if rng.random() < 0.5 else KEYS[0]
    steer = rng.random() < 0.5
    max_reqs = TIERS[tier]["max_reqs"]
    n_req = rng.randint(2, max_reqs)
    n_faults = rng.choice([0, 1, 1, 2, 3])
    ops: list[dict] = []
    fault_slots = set()
    if n_faults and not steer:
        fault_slots = set(rng.sample(range(n_req), min(n_faults, n_req)))
    for i in range(n_req):
        roll = rng.random()
        if i in fault_slots:
            kind = rng.choice(["tamper", "tamper", "trunc", "tamper_control"])
        elif roll < 0.08:
            kind = "hb"
        elif roll < 0.12:
            kind = "control"
        elif roll < 0.15:
            kind = "stall"
        elif roll < 0.2:
            kind = "trunc"
        else:
            kind = "req"
        idx = len(ops)
        if kind == "req":
            ops.append(_gen_req(rng, idx, key, False))
        elif kind == "tamper":
            ops.append(_gen_req(rng, idx, key, True))
        elif kind == "tamper_control":
            ops.append(_gen_req(rng, idx, key, True, "control"))
        elif kind == "control":
            ops.append(_gen_req(rng, idx, key, False, "control"))
        elif kind == "hb":
            op = gen_delay(rng)
            ln = rng.choice(LEN_POOL) if rng.random() < 0.9 or tier != "thorough" else rng.choice(LEN_BIG)
            op.update({"kind": "hb", "len": ln, "seed": rng.randint(0, 1 << 20)})
            ops.append(op)
        elif kind == "stall":
            op = gen_delay(rng)
            op.update({"kind": "stall", "s": rng.choice([0.01, 0.2, 1.5])})
            ops.append(op)
        else:  # truncated connection: a prefix of a valid witness request, then EOF
            op = _gen_req(rng, idx, key, False)
            op["mt"] = "execute_request"
            op.pop("content", None)
            op["cell"] = _gen_cell(rng, idx, force_witness=True)
            op["sep"] = "\n"
            op["kind"] = "trunc"
            op["at"] = rng.random()
            ops.append(op)
    motif = rng.random() < 0.12
    if motif:
        # a cell that prints and then fails, with the next request already queued behind it (front ends
        # queue cells on "run all"): exercises the ordering of stdout against the outputs of the next cell
        pos = rng.randint(0, len(ops))
        first = _gen_req(rng, 1000 + pos, key, False)
        first.update({"mt": "execute_request", "sep": "\n",
                      "cell": [["print", ["s", f"m{pos}"]], ["raise", rng.choice(ERRS), f"motif {pos}"]]})
        if rng.random() < 0.35:
            first["cell"] = [["print", ["s", f"m{pos}"]]]  # same, but the printing cell succeeds
        first.pop("content", None)
        second = _gen_req(rng, 1001 + pos, key, False)
        second.pop("passes", None)
        second["dt"] = 0.0
        second["motif_tail"] = True
        if rng.random() < 0.6:
            second.update({"mt": "execute_request", "sep": "\n",
                           "cell": rng.choice([[["expr", ["v", "nodef"]]], [["raise", "KeyError", "k"]],
                                               [["print", ["s", "tail"]]], [["expr", ["i", 7]]]])})
            second.pop("content", None)
        ops[pos:pos] = [first, second]
    if steer and n_faults:
        # tampered requests only at the tail: the session-ending reaction of the kernel cannot mask the rest
        for _ in range(min(n_faults, 2)):
            idx = len(ops)
            ch = "control" if rng.random() < 0.25 else "shell"
            op = _gen_req(rng, idx, key, True, ch)
            op.pop("passes", None)
            op["dt"] = 0.25 * rng.randint(1, 4)
            ops.append(op)
    for idx, op in enumerate(ops):
        if op["kind"] in ("req", "trunc"):
            _place_cuts(rng, op, key, idx)
            if op.get("motif_tail"):
                op["cuts"] = []
        elif op["kind"] == "hb":
            wire = N.enc_message([b"", N.payload(op["len"], op["seed"])])
            op["cuts"] = _gen_cuts(rng, wire, 4)
            op["delays"] = _gen_delays(rng)
    hello = {}
    for chan in CHANNELS:
        wire = N.client_hello(b"DEALER", b"")
        hello[chan] = {"cuts": _gen_cuts(rng, wire) if rng.random() < 0.7 else [],
                       "delays": _gen_delays(rng)}
        if rng.random() < 0.1:
            hello[chan]["cuts"] = "bytes"
    busy = sorted(rng.sample(range(50321, 50330), rng.choice([0, 0, 1, 2, 3]))) if rng.random() < 0.4 else []
    spec = {"mode": "proto", "key": key, "steer": steer, "busy_ports": busy,
            "drain": rng.choice(["none", "none", "none", "yield", "slow"]), "hello": hello,
            "subscribe": rng.random() < 0.7}
    # overlays, drawn last (each new one after the older ones): the scenario a seed had before stays what it was
    if rng.random() < FE2_SHARE:
        spec["fe2"] = _add_second_front_end(rng, ops, key)
    if rng.random() < RERUN_SHARE:
        _add_rerun(rng, ops, key, bool(spec.get("fe2")))
    return {"cfg": cfg, "spec": spec, "ops": ops}


def _is_plain_cell_req(op: dict) -> bool:
    return (op["kind"] == "req" and op.get("ch") == "shell" and op.get("mt") == "execute_request"
            and not op.get("fault"))


def _add_rerun(rng: random.Random, ops: list, key: str, two_fe: bool) -> None:
    """An unchanged cell is executed again ("run again" in a notebook, arrow-up + enter in a console).

    The second execute_request carries exactly the source of an earlier one; between the two the front end
    sends what front ends send between two inputs: nothing, or a few non-execute requests
    (is_complete_request / complete_request about the text being typed - any text, usually not the one that
    is executed next - or kernel_info_request).  Usually the re-run follows its original directly (no other
    cell in between), otherwise it is placed anywhere later.
    """
    cands = [i for i, op in enumerate(ops) if _is_plain_cell_req(op)]
    if not cands:
        op = _gen_req(rng, 3000, key, False)
        op.pop("content", None)
        op.update({"mt": "execute_request", "cell": _gen_cell(rng, 3000), "sep": rng.choice(["\n", "\n", "; "])})
        if two_fe:
            op["fe"] = rng.randint(0, 1)
        _place_cuts(rng, op, key, 0)
        ops.insert(0, op)  # at the front: tampered requests stay at the tail
        cands = [0]
    src = rng.choice(cands)
    again = copy.deepcopy(ops[src])
    for k in ("dt", "passes", "motif_tail"):
        again.pop(k, None)
    again.update(gen_delay(rng, burst_p=0.3, grid=0.25, max_steps=4))
    again["rerun"] = True
    mids = []
    for _ in range(rng.choice([0, 1, 1, 1, 2])):
        mid = _gen_req(rng, 3001 + src, key, False)
        mid.pop("cell", None)
        mid.pop("sep", None)
        mid["mt"] = rng.choice(["is_complete_request"] * 3 + ["complete_request", "kernel_info_request"])
        mid["content"] = _gen_content(rng, mid["mt"], 3001 + src, typed_p=0.6)
        mid["ids"] = list(again["ids"])
        if two_fe:
            mid["fe"] = again.get("fe", 0)
        mids.append(mid)
    pos = src + 1
    if rng.random() < 0.25:
        pos = rng.randint(pos, len(ops))
    while pos < len(ops) and ops[pos].get("motif_tail"):
        pos += 1  # do not separate the print-then-fail pair
    new = mids + [again]
    ops[pos:pos] = new
    for k, op in enumerate(new):
        _place_cuts(rng, op, key, pos + k)


def _add_second_front_end(rng: random.Random, ops: list, key: str) -> dict:
    """A second front end attached to the same kernel session (notebook + ``jupyter console --existing``).

    It has its own shell connection (which the kernel serves in its own task), its own session id and
    identities.  Every shell request / truncated connection is attributed to one of the two front ends
    (``op["fe"]``); requests of the two front ends interleave with the generated timing, so a request of one
    front end is delivered while a request of the other is being handled (same pass, a few passes later, or
    while its cell sleeps).  A motif makes the last case frequent: a cell that takes a while on one front end
    and any non-execute request on the other front end before the cell has finished.
    """
    prev = 0
    slow = None
    for op in ops:
        if op["kind"] not in ("req", "trunc") or op.get("ch") != "shell":
            continue
        if op.get("motif_tail"):
            op["fe"] = prev  # queued behind the printing cell on the same connection
        else:
            op["fe"] = 1 if rng.random() < 0.45 else 0
        prev = op["fe"]
    if rng.random() < 0.6:
        pos = rng.randint(0, len(ops))
        if pos < len(ops) and ops[pos].get("motif_tail"):
            pos += 1  # do not separate the print-then-fail pair
        a = rng.randint(0, 1)
        dur = rng.choice([0.3, 1.0, 1.0])
        tag = 2000 + pos
        tail = rng.choice([["expr", _gen_int_expr(rng, 1)], ["expr", ["i", 42]], ["print", ["s", f"f{pos}"]],
                           ["wit", f"w{tag}"], ["raise", rng.choice(ERRS), f"slow {pos}"]])
        first = _gen_req(rng, tag, key, False)
        first.pop("content", None)
        first.update({"mt": "execute_request", "sep": "\n", "fe": a, "cell": [["sleep", dur], tail]})
        second = _gen_req(rng, tag + 1, key, False)
        if second["mt"] == "execute_request":
            second["mt"] = rng.choice(REQ_TYPES[8:])
            second.pop("cell", None)
            second.pop("sep", None)
            second["content"] = _gen_content(rng, second["mt"])
        second.pop("passes", None)
        second["dt"] = 0.25 * rng.randint(0, 1 if dur < 1.0 else 3)
        second["fe"] = 1 - a
        ops[pos:pos] = [first, second]
        _place_cuts(rng, first, key, pos)
        _place_cuts(rng, second, key, pos + 1)
        slow = (first, second)
    wire = N.client_hello(b"DEALER", b"")
    fe2 = {"cuts": _gen_cuts(rng, wire) if rng.random() < 0.5 else [], "delays": _gen_delays(rng),
           "lazy": rng.random() < 0.4}
    if rng.random() < FE2_OVERLAP_SHARE:
        # the two front ends do not wait for each other: a cell of one is sent while a cell of the other is
        # still being handled (two users; a notebook "run all" next to a console)
        fe2["overlap"] = True
        if slow is not None and rng.random() < 0.7:
            first, second = slow
            second.pop("content", None)
            second.update({"mt": "execute_request", "cell": _gen_cell(rng, 2500), "sep": rng.choice(["\n", "; "])})
            if rng.random() < 0.5:
                # it touches what the slow cell uses after its sleep
                second["cell"].insert(0, ["set", rng.choice(VARS), _gen_int_expr(rng, 1)])
                first["cell"].append(["expr", ["v", second["cell"][0][1]]])
            _place_cuts(rng, second, key, 2500)
    return fe2


def gen(rng: random.Random, tier: str) -> dict:
    if rng.random() < 0.5:
        return _gen_frame_mode(rng, tier)
    return _gen_proto_mode(rng, tier)


def render(scn: dict) -> dict:
    """No script files; for humans the replay file shows the source of every cell."""
    out = {}
    for i, op in enumerate(scn.get("ops") or []):
        if op.get("cell"):
            out[f"cell-{i}"] = cell_src(op["cell"], op.get("sep", "\n"))
    return out


# ---- building requests ---------------------------------------------------------------------------
CHANNELS = ["iopub", "hb", "control", "stdin", "shell"]
PORT_OF = {"iopub": "iopub_port", "hb": "hb_port", "control": "control_port", "stdin": "stdin_port",
           "shell": "shell_port"}
SOCK_TYPE = {"iopub": b"SUB", "hb": b"REQ", "control": b"DEALER", "stdin": b"DEALER", "shell": b"DEALER"}


def request_header(op: dict, idx: int) -> dict:
    return {"msg_id": f"c19-{idx}", "session": FE_SESSIONS[1 if op.get("fe") else 0], "username": "sim",
            "date": "2024-05-14T17:00:00Z",
            "msg_type": op["mt"], "version": "5.3"}


def request_content(op: dict) -> dict:
    if op["mt"] == "execute_request":
        return {"code": cell_src(op["cell"], op.get("sep", "\n")), "silent": False, "store_history": True,
                "user_expressions": {}, "allow_stdin": False}
    return dict(op.get("content") or {})


def _flip(data: bytes, bit: int) -> bytes:
    if not data:
        return b"\x01"
    bit %= len(data) * 8
    out = bytearray(data)
    out[bit // 8] ^= 1 << (bit % 8)
    return bytes(out)


def build_request(op: dict, key: str, idx: int) -> tuple[bytes, dict]:
    """-> (wire bytes, info) with the fault of the op applied (client side, harness codec)."""
    header = request_header(op, idx)
    ids = [bytes.fromhex(h) for h in op.get("ids") or []]
    fault = op.get("fault")
    use_key = key
    if fault and fault["t"] == "key":
        use_key = fault["key"]
    frames = N.build_wire(use_key.encode("utf-8"), ids, header, {}, {}, request_content(op))
    base = len(ids)  # index of the delimiter
    pos = {"delim": base, "sig": base + 1, "header": base + 2, "parent": base + 3, "metadata": base + 4,
           "content": base + 5}
    if fault and fault["t"] == "flip":
        k = pos[fault["frame"]]
        frames[k] = _flip(frames[k], fault["bit"])
    elif fault and fault["t"] == "replace":
        k = pos[fault["frame"]]
        old = frames[k]
        how = fault["with"]
        if how == "empty":
            new = b""
        elif how == "zeros":
            new = b"0" * len(old)
        elif how == "other":
            # splice: a well-formed frame of the same kind from a different message
            if fault["frame"] == "content":
                new = N.jdump({"code": f"{WITNESS} = 'spliced{idx}'", "silent": False, "store_history": True,
                               "user_expressions": {}, "allow_stdin": False})
            elif fault["frame"] == "header":
                new = N.jdump(dict(header, msg_id=f"c19-{idx}-other"))
            elif fault["frame"] == "sig":
                new = N.sign(key.encode("utf-8"), [b"{}", b"{}", b"{}", b"{}"])
            else:
                new = N.jdump({"spliced": idx})
        else:
            new = N.payload(max(1, len(old)), fault["seed"])
        if new == old:
            new = old + b" "
        frames[k] = new
    wire = N.enc_message(frames)
    return wire, {"header": header, "ids": ids, "frames": frames}


# =============================================================================== mode "frame"
class _CaptureWriter:
    def __init__(self) -> None:
        self.buf = bytearray()
        self.closed = False

    def write(self, data) -> None:
        self.buf += bytes(data)

    async def drain(self) -> None:
        return None

    def close(self) -> None:
        self.closed = True


def _viol(cls: str, sig: dict, detail: str, t: float = 0.0) -> dict:
    return {"class": cls, "sig": sig, "detail": detail[:900], "t": round(t, 6)}


def _frame_cases(spec: dict, n: int, hot: list[int]) -> list[tuple[list[int], int]]:
    """(cuts, eof_at) cases; eof_at == n is the clean close after the whole stream."""
    cm = spec["cuts"]["mode"]
    more = []
    for seed in spec["cuts"].get("more") or []:
        # additional seeded fragmentations of the same stream (cheap: ~0.2 ms each)
        rnd = random.Random(seed)
        cuts = set()
        for _ in range(rnd.choice([1, 2, 3, 5, 8, 13])):
            if n >= 2:
                cuts.add(rnd.choice(hot) if hot and rnd.random() < 0.6 else rnd.randint(1, n - 1))
        more.append(sorted(cuts))
    if cm == "all1":
        cut_sets = [[]] + [[c] for c in range(1, n)]
    elif cm == "all2":
        cut_sets = [[]] + [[c] for c in range(1, n)] + [[a, b] for a in range(1, n) for b in range(a + 1, n)]
    elif cm == "bytes":
        cut_sets = [list(range(1, n))]
    else:
        cut_sets = [sorted({c for c in spec["cuts"]["pos"] if 0 < c < n})]
    cases = [(cuts, n) for cuts in cut_sets + more]
    em = spec["eof"]["mode"]
    eofs = list(range(0, n)) if em == "all" else sorted({p for p in spec["eof"]["pos"] if 0 <= p < n})
    base = cut_sets[-1] if cm in ("bytes", "list") else []
    for p in eofs:
        cases.append(([c for c in base if c < p], p))
        if cm in ("all1", "all2") and p > 1:
            cases.append(([p // 2], p))
    return cases


def _run_frame(scn: dict) -> dict:
    from custom_components.pyscript.jupyter_kernel import ZmqSocket

    spec = scn["spec"]
    cfg = scn["cfg"]
    loop = new_loop()
    loop.cost = cfg.get("cost_us", 50) * 1e-6
    vt0 = loop.vt
    violations: list[dict] = []
    events: list = []
    reach: dict[str, int] = {}
    faults: dict[str, int] = {}
    stats = {"cases": 0, "deliveries": 0, "stream_bytes": 0, "fragments": 0}

    def probe(name, k=1):
        reach[name] = reach.get(name, 0) + k

    def fault(name, k=1):
        faults[name] = faults.get(name, 0) + k

    # what is written: per message the frame list the receiver has to return (None for commands)
    written: list[dict] = []
    for msg in spec["msgs"]:
        if msg["k"] == "mp":
            frames = [N.payload(ln, sd) for ln, sd in msg["frames"]]
            written.append({"k": "mp", "frames": frames, "rd": msg.get("rd", "mp")})
        elif msg["k"] == "send":
            body = N.payload(*msg["frame"])
            written.append({"k": "send", "frames": [b"", body], "rd": msg.get("rd", "mp")})
        else:
            written.append({"k": "cmd", "name": msg["name"], "params": msg["params"], "frames": None})
    expect_msgs = [m for m in written if m["frames"] is not None]

    async def write_all():
        cap = _CaptureWriter()
        sock = ZmqSocket(None, cap, "ROUTER")
        ends = []
        for m in written:
            try:
                if m["k"] == "mp":
                    await sock.send_multipart(list(m["frames"]))
                elif m["k"] == "send":
                    await sock.send(m["frames"][1])
                else:
                    await sock.send_cmd(m["name"], [list(p) for p in m["params"]])
            except Exception as exc:  # pylint: disable=broad-except
                lens = [len(f) for f in m["frames"]] if m["frames"] is not None else m["params"]
                violations.append(_viol("C19.send_raised", {"routine": m["k"], "exc": type(exc).__name__},
                                        f"{m['k']} of frames with lengths {lens} raised {exc!r}"))
                return None, None
            ends.append(len(cap.buf))
        return bytes(cap.buf), ends

    async def one_case(stream: bytes, cuts: list[int], eof_at: int, delays: list, case_no: int):
        reader = asyncio.StreamReader()
        sock = ZmqSocket(reader, _CaptureWriter(), "ROUTER")
        got: list = []
        outcome = {}

        async def consume():
            i = 0
            try:
                while True:
                    rd = expect_msgs[i]["rd"] if i < len(expect_msgs) else "mp"
                    if rd == "join":
                        got.append(("join", await sock.recv()))
                    else:
                        got.append(("mp", await sock.recv_multipart()))
                    i += 1
            except BaseException as exc:  # pylint: disable=broad-except
                if isinstance(exc, asyncio.CancelledError):
                    outcome["exc"] = "cancelled"
                    raise
                outcome["exc"] = exc

        task = loop.create_task(consume())
        data = stream[:eof_at]
        edges = [0] + [c for c in cuts if 0 < c < len(data)] + [len(data)]
        for j in range(len(edges) - 1):
            if j > 0:
                dly = delays[(j - 1) % len(delays)] if delays else -1
                if dly > 0:
                    await asyncio.sleep(dly)
                elif dly < 0:
                    await asyncio.sleep(0)
            if edges[j + 1] > edges[j]:
                reader.feed_data(data[edges[j] : edges[j + 1]])
                stats["fragments"] += 1
        dly = delays[case_no % len(delays)] if delays else -1
        if dly > 0:
            await asyncio.sleep(dly)
        elif dly < 0:
            await asyncio.sleep(0)
        reader.feed_eof()
        done, _pending = await asyncio.wait([task], timeout=5.0)
        if not done:
            task.cancel()
            await asyncio.wait([task], timeout=1.0)
            outcome["exc"] = "hung"
        return got, outcome.get("exc")

    async def main():
        stream, ends = await write_all()
        if stream is None:
            return
        n = len(stream)
        stats["stream_bytes"] = n
        # ---- the captured stream, read by the harness' own ZMTP decoder
        dec = N.Decoder(expect_greeting=False)
        dec.feed(stream)
        ind = []
        for ev in dec.events:
            if ev["k"] == "msg":
                ind.append(["msg", ev["frames"]])
            else:
                ind.append(["cmd", ev["name"], ev["props"]])
        want = []
        for m in written:
            if m["frames"] is not None:
                want.append(["msg", m["frames"]])
            else:
                want.append(["cmd", m["name"].encode(), [(k.encode(), v.encode()) for k, v in m["params"]]])
        if dec.error or dec.buf or dec.frames or ind != want:
            lens = [[len(f) for f in m["frames"]] if m["frames"] is not None else "cmd" for m in written]
            violations.append(_viol("C19.wire_format", {"routine": "send"},
                                    f"stream written for {lens} is not the ZMTP encoding of these frames: "
                                    f"decoder error={dec.error}, left over {len(dec.buf)} bytes, "
                                    f"decoded {len(ind)} of {len(want)} items"))
            layout = []
        else:
            layout = dec.layout
        # message i is complete at offset msg_end[i]
        msg_end = [ends[i] for i, m in enumerate(written) if m["frames"] is not None]
        all_len = [ln for m in written if m["frames"] is not None for ln in map(len, m["frames"])]
        if 255 in all_len or 256 in all_len:
            probe("boundary_255_256")
        if any(ln >= 65536 for ln in all_len):
            probe("long_frame_65536")
        if 0 in [len(f) for m in written if m["k"] == "mp" for f in m["frames"]]:
            probe("empty_frame")
        kinds = [m["k"] for m in written]
        if "cmd" in kinds and any(k != "cmd" for k in kinds):
            probe("command_between_messages")
        if any(fr["flags"] & N.FLAG_CMD and fr["hdr"] == 9 for fr in layout):
            probe("long_command")
        hot = []
        for fr in layout:
            hot.extend(range(fr["off"] + 1, fr["off"] + fr["hdr"] + 1))
            hot.append(fr["off"] + fr["hdr"] + fr["size"])
        cases = _frame_cases(spec, n, [h for h in hot if 0 < h < n])
        if spec["cuts"]["mode"] in ("all1", "all2"):
            probe("exhaustive_cuts")
        if spec["cuts"]["mode"] == "bytes":
            probe("byte_by_byte")
        delays = spec.get("delays") or [-1]
        inside_any = False
        for case_no, (cuts, eof_at) in enumerate(cases):
            stats["cases"] += 1
            for c in cuts:
                for fr in layout:
                    if fr["off"] < c < fr["off"] + fr["hdr"]:
                        probe("cut_inside_length_prefix")
                        if fr["hdr"] == 9 and c > fr["off"] + 1:
                            probe("cut_inside_long_length")
                    if c == fr["off"] + fr["hdr"] and fr["size"]:
                        probe("cut_between_header_and_body")
                    if fr["off"] < c < fr["off"] + fr["hdr"] + fr["size"]:
                        inside_any = True
            if len(cuts) > 0:
                fault("fragmented_case")
            if eof_at < n:
                fault("eof_prefix")
                if eof_at in [0] + ends:
                    probe("eof_at_boundary")
                else:
                    probe("eof_mid_frame")
                    if any(fr["off"] + fr["hdr"] + fr["size"] == eof_at for fr in layout):
                        probe("eof_mid_multipart")
            t_case = loop.vt - vt0
            got, exc = await one_case(stream, cuts, eof_at, delays, case_no)
            n_expect = sum(1 for e in msg_end if e <= eof_at)
            sig_base = {"mode": spec["cuts"]["mode"], "eof": "full" if eof_at == n else "prefix"}
            where = f"stream of {n} bytes, cuts={cuts[:12]}{'...' if len(cuts) > 12 else ''}, eof_at={eof_at}"
            # every delivery is judged against what was written at that position
            bad = None
            for i, (rd, val) in enumerate(got):
                if i >= len(expect_msgs):
                    bad = (i, "extra delivery " + _short(val))
                    break
                exp = expect_msgs[i]["frames"]
                exp_val = b"".join(exp) if rd == "join" else exp
                if val != exp_val:
                    bad = (i, f"got {_short(val)} expected {_short(exp_val)}")
                    break
                if i >= n_expect:
                    bad = (i, f"message {i} delivered although the stream ended inside it")
                    break
            if bad is not None:
                cls = "C19.frames_differ" if eof_at == n else "C19.truncated_delivered"
                violations.append(_viol(cls, sig_base, f"{where}: delivery {bad[0]}: {bad[1]}", t_case))
            elif len(got) < n_expect:
                violations.append(_viol("C19.frames_lost", dict(sig_base, exc=_exc_name(exc)),
                                        f"{where}: {len(got)} of {n_expect} complete messages delivered, then "
                                        f"{_exc_name(exc)}", t_case))
            if exc == "hung":
                violations.append(_viol("C19.recv_hung", sig_base, f"{where}: recv did not return after EOF", t_case))
            elif not isinstance(exc, EOFError):
                violations.append(_viol("C19.eof_exception", dict(sig_base, exc=_exc_name(exc)),
                                        f"{where}: end of stream raised {exc!r} instead of EOFError", t_case))
            stats["deliveries"] += len(got)
            events.append([case_no, len(cuts), eof_at, len(got), _exc_name(exc), round(loop.vt - vt0, 6),
                           hashlib.sha256(repr(got).encode()).hexdigest()[:8]])
        stats["inside"] = 1 if inside_any else 0

    try:
        loop.run_until_complete(main())
    finally:
        try:
            pending = [t for t in asyncio.all_tasks(loop) if not t.done()]
            for task in pending:
                task.cancel()
            if pending:
                loop.run_until_complete(asyncio.gather(*pending, return_exceptions=True))
        finally:
            loop.close()
            asyncio.set_event_loop(None)
    violations.sort(key=lambda v: v.get("t", 0.0))
    violations = _dedup(violations)
    digest = hashlib.sha256(json.dumps(events, sort_keys=True).encode()).hexdigest()[:16]
    nontrivial = bool(stats.get("inside")) and stats["deliveries"] >= 1
    return {
        "violations": violations,
        "nontrivial": nontrivial,
        "trace_digest": digest,
        "sim_seconds": round(loop.vt - vt0, 3),
        "iterations": loop.iterations,
        "faults": faults,
        "reach": reach,
        "subsystem": "n/a",
        "extra": {"cases": stats["cases"], "deliveries": stats["deliveries"], "stream_bytes": stats["stream_bytes"],
                  "fragments": stats["fragments"], "frame_runs": 1},
    }


def _cell_kind(op: dict) -> str:
    """Feature of a request's cell that names the situation in a signature."""
    cell = op.get("cell")
    if not cell:
        return "none"
    for st in cell:
        if st[0] == "robj":
            return "result_repr_" + st[1]
        if st[0] == "raise" and st[1] in BASE_ERRS:
            return "base_exception"
    return "plain"


def _short(val) -> str:
    if isinstance(val, (bytes, bytearray)):
        return f"bytes[{len(val)}]:{bytes(val[:12]).hex()}"
    if isinstance(val, list):
        return "[" + ", ".join(_short(v) for v in val[:8]) + ("]" if len(val) <= 8 else ", ...]")
    return repr(val)[:80]


def _exc_name(exc) -> str:
    if exc is None:
        return "none"
    if isinstance(exc, str):
        return exc
    return type(exc).__name__


def _linear_extensions(n: int, before: list[set], cap: int) -> list[list[int]]:
    """Every order of range(n) in which the items of before[i] precede i (smallest index first), at most cap."""
    out: list[list[int]] = []
    order: list[int] = []
    used = [False] * n

    def rec() -> None:
        if len(out) >= cap:
            return
        if len(order) == n:
            out.append(list(order))
            return
        for i in range(n):
            if not used[i] and all(used[j] for j in before[i]):
                used[i] = True
                order.append(i)
                rec()
                order.pop()
                used[i] = False

    rec()
    return out


def _dedup(violations: list[dict], per_key: int = 3) -> list[dict]:
    seen: dict[str, int] = {}
    out = []
    for v in violations:
        k = v["class"] + json.dumps(v.get("sig", {}), sort_keys=True)
        seen[k] = seen.get(k, 0) + 1
        if seen[k] <= per_key:
            out.append(v)
    return out


# =============================================================================== mode "proto"
def _seq_hash_task_class(salt: int):
    """asyncio.Task whose hash is its creation number in this run instead of its address."""
    counter = [0]

    class SeqHashTask(asyncio.Task):
        __slots__ = ("_sim_hash",)

        def __hash__(self):
            try:
                return self._sim_hash
            except AttributeError:  # first use: registration in asyncio's task set, inside the constructor
                counter[0] += 1
                self._sim_hash = (counter[0] * 7919 + salt * 104729) % 1000003 if salt else counter[0]
                return self._sim_hash

    return SeqHashTask


class JupyterWorld(World):
    """World + the TCP seam (asyncio.start_server) + deterministic uuid/datetime inside jupyter_kernel."""

    def __init__(self, cfg, spec) -> None:
        super().__init__(cfg, {})
        self.spec = spec
        self.net: N.SimNet | None = None
        self._uuid_n = 0
        # With two shell connections the kernel keeps two listener tasks in one set (Kernel.tasks["shell"]) and
        # cancels them in set order when the session ends: like World._hash_seams does for the other
        # address-hashed objects, tasks then get a per-run sequence number as hash (permuted by set_order_salt).
        self._task_cls = _seq_hash_task_class(int(cfg.get("set_order_salt", 0))) if spec.get("fe2") else None

    def _task_factory(self, loop, coro, **kwargs):
        if self._task_cls is None:
            return super()._task_factory(loop, coro, **kwargs)
        task = self._task_cls(coro, loop=loop, **kwargs)  # otherwise the same as World._task_factory
        self._seq += 1
        self.tasks.append(task)
        self.task_label[id(task)] = len(self.tasks)
        task.set_name(f"sim-{len(self.tasks)}")
        return task

    def extra_patches(self) -> list:
        import custom_components.pyscript.jupyter_kernel as jk

        self.net = N.SimNet(lambda: self.loop.vt, busy_ports=self.spec.get("busy_ports") or (),
                            drain_mode=self.spec.get("drain", "none"))

        def uuid4():
            self._uuid_n += 1
            return _uuid.UUID(int=(0xC19 << 96) | self._uuid_n)

        clock = self.clock
        dt_shim = types.SimpleNamespace(datetime=types.SimpleNamespace(now=lambda: clock.local_naive()))
        uuid_shim = types.SimpleNamespace(uuid4=uuid4)
        # jk.asyncio is the asyncio module itself: this replaces asyncio.start_server for the run
        return [
            patch("custom_components.pyscript.jupyter_kernel.asyncio.start_server", self.net.start_server),
            patch.object(jk, "uuid", uuid_shim),
            patch.object(jk, "datetime", dt_shim),
        ]


def _frag_args(op_cuts, delays, wire: bytes):
    if op_cuts == "bytes":
        return list(range(1, len(wire))), [d if d <= 0 else 0.001 for d in (delays or [-1])]
    return list(op_cuts or []), list(delays or [-1])


def _count_prefix_cuts(w: World, wire: bytes, cuts: list[int]) -> None:
    lay = N.frame_layout(wire)
    if not lay:
        return
    for c in cuts:
        for fr in lay:
            if fr["off"] < c < fr["off"] + fr["hdr"]:
                w.probe("request_cut_inside_length_prefix")


async def _proto_driver(w: JupyterWorld, scn: dict, rec: dict) -> None:
    spec = scn["spec"]
    key = spec["key"]
    net = w.net
    await w.settle()
    await w.call_service("pyscript", "jupyter_kernel_start",
                         {"ip": "127.0.0.1", "key": key, "signature_scheme": "hmac-sha256", "state_var": STATE_VAR,
                          "transport": "tcp"})
    await w.settle()
    st = w.hass.states.get(STATE_VAR)
    if st is None:
        raise HarnessError("kernel did not publish its ports")
    ports = json.loads(st.state)
    rec["ports"] = ports
    if net.bind_failures > 4:
        w.probe("port_busy")
    if len(set(ports.values())) != 5 or any(p in net.busy_ports for p in ports.values()):
        raise HarnessError(f"port table {ports} with busy {net.busy_ports}")
    # the session's logger: print() is log.debug
    from custom_components.pyscript.global_ctx import GlobalContextMgr

    for name in list(GlobalContextMgr.contexts):
        if name.startswith("jupyter_"):
            lg = logging.getLogger("custom_components.pyscript." + name)
            rec["loggers"].append((lg, lg.level))
            lg.setLevel(logging.DEBUG)

    conns: dict[str, N.Conn] = {}
    fe2 = spec.get("fe2") or None
    shell_conn: dict[int, N.Conn] = {}  # front end -> its current shell connection

    async def connect(chan: str, frag: dict | None, fe: int = 0) -> N.Conn:
        conn = net.connect(ports[PORT_OF[chan]], chan)
        hello = N.client_hello(SOCK_TYPE[chan], None if chan == "iopub" else b"")
        cuts, delays = _frag_args((frag or {}).get("cuts"), (frag or {}).get("delays"), hello)
        await conn.send(hello, cuts, delays)
        if fe == 0:
            conns[chan] = conn
        if chan == "shell":
            shell_conn[fe] = conn
        rec["fe_of"][conn.cid] = fe
        rec["conns"].append(conn)
        return conn

    def check_hello(conn: N.Conn) -> None:
        evs = conn.decoder.events
        if conn.decoder.error or not evs or evs[0]["k"] != "greeting":
            rec["handshake_bad"].append(conn.name)

    for chan in CHANNELS:
        try:
            await connect(chan, spec["hello"].get(chan))
        except ConnectionRefusedError:
            # the kernel closed its listening sockets although nothing invalid was sent: judged by the oracle
            rec["refused"].append(chan)
            rec["t_end"] = w.loop.vt
            return
        if chan == "iopub" and spec.get("subscribe", True):
            await conns["iopub"].send(N.enc_message([b"\x01"]))
    if fe2 and not fe2.get("lazy"):
        # the second front end is attached from the start: one more connection to the same shell port
        try:
            await connect("shell", fe2, 1)
            w.probe("second_front_end")
        except ConnectionRefusedError:
            rec["refused"].append("shell")
            rec["t_end"] = w.loop.vt
            return
    await w.settle(0.5)
    for chan in CHANNELS:
        check_hello(conns[chan])
    if 1 in shell_conn:
        check_hello(shell_conn[1])
    rec["t_ready"] = w.loop.vt

    last_exec_fe = None
    slept = 0.0
    for idx, op in enumerate(scn["ops"]):
        await wait_op(w, op)
        kind = op["kind"]
        if kind == "stall":
            w.loop.stall(op["s"])
            w.fault("stall")
            continue
        if kind == "hb":
            conn = conns["hb"]
            body = N.payload(op["len"], op["seed"])
            entry = {"idx": idx, "body": body, "delivered": False, "stamp": None}
            rec["hb"].append(entry)
            if conn.usable:
                wire = N.enc_message([b"", body])
                cuts, delays = _frag_args(op.get("cuts"), op.get("delays"), wire)
                info = await conn.send(wire, cuts, delays)
                entry.update({"delivered": True, "stamp": info["stamp"], "conn": conn.cid})
                if op["len"] > 255:
                    w.probe("heartbeat_long")
                if len(cuts):
                    w.fault("fragmented")
            continue
        chan = op["ch"]
        fe = 1 if (fe2 and chan == "shell" and op.get("fe")) else 0
        if fe2 and chan == "shell" and op["mt"] == "execute_request":
            # unless the front ends do not wait for each other (fe2.overlap): before a cell of the other
            # front end is sent, everything sent so far has had the time to be handled
            if last_exec_fe is not None and last_exec_fe != fe:
                if fe2.get("overlap"):
                    w.probe("front_ends_not_waiting")
                else:
                    await w.settle(1.0 + 1.05 * slept)
                w.probe("cell_from_other_front_end")
            last_exec_fe = fe
            slept += sum(st[1] for st in (op.get("cell") or []) if st[0] == "sleep")
        conn = shell_conn.get(fe) if chan == "shell" else conns[chan]
        if conn is None:
            # the second front end attaches only now, possibly while a cell of the first one is running
            try:
                conn = await connect("shell", fe2, fe)
                await w.settle()  # like a reconnect: what the kernel writes is judged by the decoder at the end
                w.probe("second_front_end")
                w.probe("front_end_attached_late")
            except ConnectionRefusedError:
                conn = None
        elif kind in ("req", "trunc") and chan == "shell" and not conn.usable:
            # the previous shell connection is gone: connect again (like a restarted front end)
            await w.settle(REPLY_BOUND)
            try:
                conn = await connect("shell", None, fe)
                await w.settle()
                w.probe("reconnect_after_eof")
            except ConnectionRefusedError:
                conn = None
        wire, info = build_request(op, key, idx)
        entry = {"idx": idx, "op": op, "ch": chan, "fe": fe, "header": info["header"], "ids": info["ids"],
                 "tampered": op.get("fault") is not None, "trunc": kind == "trunc", "delivered": False,
                 "stamp": None, "conn": None, "len": len(wire)}
        rec["reqs"].append(entry)
        if conn is None or not conn.usable:
            entry["undeliverable"] = True
            continue
        cuts, delays = _frag_args(op.get("cuts"), op.get("delays"), wire)
        if kind == "trunc":
            at = max(1, min(len(wire) - 1, int(op["at"] * len(wire))))
            wire = wire[:at]
            cuts = [c for c in cuts if c < at]
        if entry["tampered"]:
            w.fault("tamper_" + op["fault"]["t"])
            fr = op["fault"].get("frame")
            if op["fault"]["t"] == "key":
                w.probe("wrong_key")
            elif op["fault"]["t"] == "replace":
                w.probe("frame_replaced")
            elif fr == "sig":
                w.probe("corrupt_signature")
            elif fr == "delim":
                w.probe("corrupt_delimiter")
            else:
                w.probe("corrupt_signed_frame")
        if len(cuts):
            w.fault("fragmented")
            _count_prefix_cuts(w, wire, cuts)
        if len(wire) > 255 + 2 and any(len(f) > 255 for f in info["frames"]):
            w.probe("request_over_255")
        if any(len(i) > 255 for i in info["ids"]):
            w.probe("long_identity")
        if chan == "control":
            w.probe("control_request")
        if op["mt"] == "is_complete_request" and (op.get("content") or {}).get("code") not in IS_COMPLETE_POOL:
            w.probe("is_complete_of_typed_cell")
        busy_before = conn.sent
        sent = await conn.send(wire, cuts, delays)
        entry.update({"delivered": True, "stamp": sent["stamp"], "conn": conn.cid, "first_byte": busy_before})
        if kind == "trunc":
            conn.eof()
            w.fault("truncated_connection")
            w.probe("truncated_connection")
        if op.get("dt", 0.0) == 0.0 and not op.get("passes") and idx > 0:
            w.probe("pipelined_requests")
    total_sleep = sum(st[1] for op in scn["ops"] for st in (op.get("cell") or []) if st[0] == "sleep")
    await w.settle(REPLY_BOUND + 1.0 + total_sleep)
    rec["t_end"] = w.loop.vt


def _run_proto(scn: dict) -> dict:
    spec = scn["spec"]
    w = JupyterWorld(scn["cfg"], spec)
    rec = {"reqs": [], "hb": [], "conns": [], "loggers": [], "handshake_bad": [], "refused": [], "fe_of": {}}

    async def driver(world):
        try:
            await _proto_driver(world, scn, rec)
        finally:
            for lg, level in rec["loggers"]:
                lg.setLevel(level)

    w.run(driver)
    violations, nontrivial, extra = _oracle_proto(w, scn, rec)
    return base_result(w, violations, nontrivial, extra)


def _oracle_proto(w: JupyterWorld, scn: dict, rec: dict):
    """Judge one protocol run against the property text.

    * a request that is not valid (tampered / wrong key / truncated) is never executed (no write of the
      witness entity that a valid, answered cell does not explain) and never answered (every message on a
      shell connection is the one reply of a valid request);
    * every valid shell request gets exactly one reply, on the connection it was sent on: HMAC verifies with
      the session key, identity frames equal the request's, parent_header equals the request header, reply
      type matches; on iopub the last status before it is busy and the first status after it is idle (for a
      request handled concurrently with one of the other front end: among the status broadcasts with this
      request's header as parent); it arrives within REPLY_BOUND (+ sleeps of the cell + injected stalls) of
      the moment the request was delivered and the previous reply sent;
    * execute_reply status / execution_count / error name, iopub execute_input count / execute_result / stream /
      error follow the reference semantics of the executed cells in order (cross-cell order; see ASSUMPTIONS);
      for cells of two front ends that were handled at the same time: in one of the possible orders.
    """
    spec = scn["spec"]
    key = spec["key"].encode("utf-8")
    vt0 = w.clock.vt0
    violations: list[dict] = []

    def rel(stamp) -> float:
        return round(stamp[1] - vt0, 6) if stamp else 0.0

    # ---- transport level
    for chan in rec["handshake_bad"]:
        violations.append(_viol("C19.wire_format", {"routine": "handshake"},
                                f"{chan}: what the kernel sent on connect is not a ZMTP 3.0 greeting + READY"))
    for chan in rec["refused"]:
        errs = [r["msg"].split("\n")[0][:160] for r in w.logs if r["level"] == "ERROR"]
        violations.append(_viol("C19.session_lost", {"phase": "connect"},
                                f"connecting to {chan} was refused: the kernel shut the session down while well-formed "
                                f"clients were connecting (hello fragmentation {spec['hello']}); kernel log: {errs[:3]}"))
    for conn in rec["conns"]:
        if conn.decoder.error and conn.name not in rec["handshake_bad"]:
            violations.append(_viol("C19.wire_format", {"routine": conn.name},
                                    f"{conn.name}: kernel output does not decode as ZMTP: {conn.decoder.error}"))

    def parsed_msgs(name: str) -> list[dict]:
        out = []
        for conn in rec["conns"]:
            if conn.name != name:
                continue
            for ev in conn.decoder.messages():
                par = N.parse_jupyter(ev["frames"], key)
                par.update({"stamp": ev["stamp"], "conn": conn.cid, "frames": ev["frames"]})
                out.append(par)
        out.sort(key=lambda p: p["stamp"][0])
        return out

    shell = parsed_msgs("shell")
    iopub_all = parsed_msgs("iopub")
    iopub = [m for m in iopub_all if m["ok"] and m["sig_ok"]]
    n_iopub_dropped = len(iopub_all) - len(iopub)
    statuses = [m for m in iopub if m["type"] == "status"]

    reqs = rec["reqs"]
    shell_reqs = [e for e in reqs if e["ch"] == "shell"]
    by_id = {e["header"]["msg_id"]: e for e in shell_reqs}
    tampers = [e for e in reqs if e["delivered"] and e["tampered"]]
    stall_total = sum(op["s"] for op in scn["ops"] if op["kind"] == "stall")

    def is_valid(e) -> bool:
        return e["delivered"] and not e["tampered"] and not e["trunc"]

    # ---- replies: everything on shell must be the reply of a valid request
    replies: dict[str, list] = {}
    for msg in shell:
        if not msg["ok"]:
            violations.append(_viol("C19.reply_malformed", {},
                                    f"shell message is not a Jupyter message ({msg.get('why')}): "
                                    f"{_short(msg['frames'])}", rel(msg["stamp"])))
            continue
        pid = msg["parent"].get("msg_id")
        ent = by_id.get(pid)
        if ent is not None and is_valid(ent):
            if msg["conn"] != ent["conn"]:
                # the requester is the peer of the connection the request came in on: a message on another
                # connection is not a reply to it, whatever its parent says
                violations.append(_viol("C19.reply_parent", {"why": "other_connection"},
                                        f"shell message {msg['type']} on connection {msg['conn']} (front end "
                                        f"{rec['fe_of'].get(msg['conn'])}, identities {_short(msg['ids'])}) carries "
                                        f"as parent the header of request #{ent['idx']} ({ent['op']['mt']}), which "
                                        f"was sent on connection {ent['conn']} (front end {ent.get('fe', 0)})",
                                        rel(msg["stamp"])))
                continue
            replies.setdefault(pid, []).append(msg)
            continue
        if ent is not None:
            fault = "truncated" if ent["trunc"] else (ent["op"]["fault"] or {}).get("t", "?")
            violations.append(_viol("C19.tampered_answered", {"fault": fault},
                                    f"request #{ent['idx']} ({ent['op']['mt']}, fault {ent['op'].get('fault')}) "
                                    f"was answered with {msg['type']}", rel(msg["stamp"])))
        else:
            n_bad = sum(1 for e in tampers if e["ch"] == "shell")
            violations.append(_viol("C19.reply_parent", {"why": "matches_no_request"},
                                    f"shell message {msg['type']} with parent_header {msg['parent']} carries the header "
                                    f"of no request that was sent (a reply with a wrong parent, or an answer to one of "
                                    f"the {n_bad} corrupted requests)", rel(msg["stamp"])))

    # ---- never executed: the witness entity only ever takes values written by valid cells
    wit_owner = {}
    for e in reqs:
        for st in e["op"].get("cell") or []:
            if st[0] == "wit":
                # a re-run cell writes the value of its original: explained when any of them is valid
                if st[1] not in wit_owner or (e["ch"] == "shell" and is_valid(e)):
                    wit_owner[st[1]] = e
    wit_hist = []
    for ev in w.bus_events:
        if ev["type"] == "state_changed" and ev["data"].get("entity_id") == WITNESS:
            new = ev["data"].get("new_state")
            wit_hist.append((None if new is None else new.state, ev["vt"]))
    for val, vt in wit_hist:
        owner = wit_owner.get(val)
        if owner is not None and owner["ch"] == "shell" and is_valid(owner):
            continue
        if owner is None:
            fault, what = "unknown", "no generated cell writes this value"
        else:
            fault = "truncated" if owner["trunc"] else (owner["op"].get("fault") or {}).get("t", "control")
            what = f"request #{owner['idx']} fault={owner['op'].get('fault')} trunc={owner['trunc']} ch={owner['ch']}"
        violations.append(_viol("C19.tampered_executed", {"fault": fault},
                                f"{WITNESS} became {val!r}: {what}", vt - vt0))

    # ---- two front ends: which requests were handled while a request of the other front end was in progress
    inf = float("inf")

    def own_statuses(e) -> list[dict]:
        return [s for s in statuses if s["parent"] == e["header"]]

    def handled_until(e) -> float:
        """Sequence number at which the handling of a valid request was over (its idle status)."""
        got = replies.get(e["header"]["msg_id"])
        if not got:
            return inf
        seq = got[0]["stamp"][0]
        own = [s["stamp"][0] for s in own_statuses(e)
               if s["stamp"][0] > seq and s["content"].get("execution_state") == "idle"]
        if own:
            return own[0]
        nxt = [s["stamp"][0] for s in statuses if s["stamp"][0] > seq]
        return nxt[0] if nxt else inf

    valid_shell = [e for e in shell_reqs if is_valid(e)]
    two_fe = len({e.get("fe", 0) for e in valid_shell}) > 1
    until = {e["idx"]: handled_until(e) for e in valid_shell} if two_fe else {}

    def concurrent_with(e) -> list[dict]:
        """Valid requests of the other front end whose handling overlapped the handling of e."""
        if not two_fe:
            return []
        return [o for o in valid_shell if o.get("fe", 0) != e.get("fe", 0)
                and o["stamp"][0] < until[e["idx"]] and until[o["idx"]] > e["stamp"][0]]

    # ---- every valid shell request: exactly one reply, signed, addressed, correlated, bracketed, in time
    answered: list[dict] = []
    dead = False
    kill_reported = False
    # of the valid requests without a reply, the one the kernel started to handle last (its busy broadcast) is
    # reported as such; the others are marked after=no_reply (whatever happened to that one took them along)
    lost = [e for e in shell_reqs if is_valid(e) and not replies.get(e["header"]["msg_id"])]
    lost_started = [(min(s["stamp"][0] for s in own_statuses(e)), e["idx"], e) for e in lost if own_statuses(e)]
    lost_root = max(lost_started)[2] if lost_started else (lost[0] if lost else None)
    prev_reply_vt = rec.get("t_ready", vt0)
    n_valid = 0
    for e in shell_reqs:
        if not is_valid(e):
            continue
        n_valid += 1
        mid = e["header"]["msg_id"]
        got = replies.get(mid, [])
        # a request that was pending or sent later when a bad-signature message arrived: the kernel's
        # reaction (session shutdown) is reported once as no_reply{after: tamper}; what follows is tainted
        after = "none"
        for t in tampers:
            tseq = t["stamp"][0]
            done = bool(got) and got[0]["stamp"][0] < tseq and any(
                got[0]["stamp"][0] < s["stamp"][0] < tseq for s in statuses)
            if not done:
                after = "tamper"  # not completely handled (reply + following status) when the bad message arrived
        if after == "none" and lost and e is not lost_root:
            after = "no_reply"  # collateral: another request took the connection or the session with it
        if not got:
            if after != "tamper" or not kill_reported:
                kill_reported = kill_reported or after == "tamper"
                what = (f"valid {e['op']['mt']} #{e['idx']} delivered completely at t={rel(e['stamp'])} on shell "
                        f"connection {e['conn']} got no reply by t={round(rec['t_end'] - vt0, 3)}")
                if e["op"].get("cell"):
                    what += f"; its cell ({_cell_kind(e['op'])}): {cell_src(e['op']['cell'], ' ; ')[:200]!r}"
                if after == "no_reply":
                    what += (f"; request #{lost_root['idx']} ({_cell_kind(lost_root['op'])}) was the last one the "
                             "kernel started to handle and got no reply either")
                if after == "tamper":
                    t = tampers[0]
                    what += (f"; a request with a bad signature (#{t['idx']} on {t['ch']}, {t['op']['fault']}) was "
                             f"delivered at t={rel(t['stamp'])}: the kernel shut the whole session down and "
                             "neither reads nor closes this connection")
                violations.append(_viol("C19.no_reply", {"after": after, "cell": _cell_kind(e["op"])}, what,
                                        rel(e["stamp"])))
            dead = True
            continue
        if len(got) > 1:
            violations.append(_viol("C19.dup_reply", {}, f"request #{e['idx']} {e['op']['mt']} got {len(got)} replies",
                                    rel(got[1]["stamp"])))
        rep = got[0]
        t_rep = rel(rep["stamp"])
        desc = f"reply {rep['type']} to #{e['idx']} {e['op']['mt']}"
        if not rep["sig_ok"]:
            violations.append(_viol("C19.reply_signature", {}, desc + ": HMAC does not verify with the session key",
                                    t_rep))
        if rep["ids"] != e["ids"]:
            violations.append(_viol("C19.reply_identities", {},
                                    desc + f": identities {_short(rep['ids'])} != request's {_short(e['ids'])}", t_rep))
        if rep["parent"] != e["header"]:
            violations.append(_viol("C19.reply_parent", {"why": "differs"}, desc + f": parent_header {rep['parent']} != request header",
                                    t_rep))
        if rep["type"] != e["op"]["mt"].replace("_request", "_reply"):
            violations.append(_viol("C19.reply_type", {}, desc + ": wrong reply type", t_rep))
        seq = rep["stamp"][0]
        others = concurrent_with(e)
        if others:
            # handled while a request of the other front end was being handled: the broadcasts of the two
            # requests interleave, so the bracket of this request is made of the status broadcasts that carry
            # its header as parent (Jupyter: that is how a front end tells whose busy/idle it is)
            w.probe("concurrent_front_ends")
            if any(o["stamp"][0] < seq < until[o["idx"]] and o["op"]["mt"] == "execute_request"
                   and e["op"]["mt"] != "execute_request" for o in others):
                w.probe("reply_while_other_cell_runs")
            own = own_statuses(e)
            before = [s for s in own if s["stamp"][0] < seq]
            after_s = [s for s in own if s["stamp"][0] > seq]
            whose = f" (of the status broadcasts with this request's header as parent; concurrent with " \
                    f"#{others[0]['idx']} {others[0]['op']['mt']} of the other front end)"
            conc = {"concurrent": True}
        else:
            before = [s for s in statuses if s["stamp"][0] < seq]
            after_s = [s for s in statuses if s["stamp"][0] > seq]
            whose, conc = "", {}
        if not before or before[-1]["content"].get("execution_state") != "busy":
            violations.append(_viol("C19.status_bracket", dict({"missing": "busy", "after": after}, **conc),
                                    desc + ": last iopub status before the reply is "
                                    f"{before[-1]['content'] if before else None}{whose}", t_rep))
        if not after_s or after_s[0]["content"].get("execution_state") != "idle":
            violations.append(_viol("C19.status_bracket", dict({"missing": "idle", "after": after}, **conc),
                                    desc + ": first iopub status after the reply is "
                                    f"{after_s[0]['content'] if after_s else None}{whose}", t_rep))
        sleeps = sum(st[1] for st in (e["op"].get("cell") or []) if st[0] == "sleep")
        # the property does not say that front ends are served in parallel: cells of the other front end that
        # were sent earlier may delay this reply
        sleeps += sum(st[1] for o in valid_shell if two_fe and o.get("fe", 0) != e.get("fe", 0)
                      and o["stamp"][0] < seq for st in (o["op"].get("cell") or []) if st[0] == "sleep")
        start = max(e["stamp"][1], prev_reply_vt)
        if rep["stamp"][1] - start > REPLY_BOUND + sleeps * 1.01 + stall_total:
            violations.append(_viol("C19.reply_late", {},
                                    desc + f": {rep['stamp'][1] - start:.3f}s after the request was delivered and the "
                                    "kernel was free", t_rep))
        prev_reply_vt = max(prev_reply_vt, rep["stamp"][1])
        e["reply"] = rep
        e["idle"] = after_s[0] if after_s else None
        if after == "tamper":
            dead = True  # answered, but the cell/outputs may have been cut off by the shutdown
        if not dead:
            answered.append(e)

    # ---- executed cells in order: counter, status, outputs
    def observed(kind: str) -> list[dict]:
        return [m for m in iopub if m["type"] == kind]

    obs_inputs = observed("execute_input")
    obs_results_all = observed("execute_result")

    def handling_start(e) -> float:
        own = [s["stamp"][0] for s in own_statuses(e) if s["content"].get("execution_state") == "busy"]
        return own[0] if own else e["stamp"][0]

    # The order in which the cells were executed is the order in which they were sent, except for cells of
    # different front ends whose handling overlapped (the busy broadcast of one lies before the idle broadcast
    # of the other): for those the property fixes no order, every order is a candidate.
    execs = [e for e in answered if e["op"]["mt"] == "execute_request"]
    before: list[set] = [set() for _ in execs]
    free_pairs = 0
    if two_fe:
        begin = [handling_start(e) for e in execs]
        end = [until[e["idx"]] for e in execs]
    for j in range(len(execs)):
        for i in range(j):
            if not two_fe or execs[i].get("fe", 0) == execs[j].get("fe", 0) or end[i] < begin[j]:
                before[j].add(i)
            elif end[j] < begin[i]:
                before[i].add(j)
            else:
                free_pairs += 1
    if two_fe and any(a.get("fe", 0) != b.get("fe", 0) and a["stamp"][0] < b["stamp"][0] < until[a["idx"]]
                      for a in execs for b in execs):
        w.probe("cell_delivered_during_cell_of_other_front_end")
    orders = []
    if two_fe:
        # also without a free pair: a front end that was served later than the other one's later request
        orders = _linear_extensions(len(execs), before, ORDER_CAP)
        if len(orders) >= ORDER_CAP:
            raise HarnessError(f"more than {ORDER_CAP} candidate orders for {len(execs)} cells")
        if free_pairs:
            w.probe("overlapping_cells")
    if not orders:
        orders = [list(range(len(execs)))]  # one front end; or the observations contradict each other

    def compare(out: list, kind: str, obs: list[dict], exp: list[dict], show_o, show_e, same) -> bool:
        if dead and len(obs) > len(exp):
            # outputs of cells that were pending when a bad-signature message ended the session: not judged
            del obs[len(exp):]
        ok = len(obs) == len(exp) and all(same(o, x) for o, x in zip(obs, exp))
        if not ok:
            i = 0
            while i < min(len(obs), len(exp)) and same(obs[i], exp[i]):
                i += 1
            t = rel(obs[i]["stamp"]) if i < len(obs) else (rel(exp[i]["req"]["reply"]["stamp"]) if i < len(exp) else 0.0)
            why = "missing" if len(obs) < len(exp) and i == len(obs) else "extra" if i == len(exp) else "differs"
            out.append(_viol(f"C19.{kind}_mismatch", {"why": why},
                             f"iopub {kind} #{i}: observed {[show_o(o) for o in obs][:10]} expected "
                             f"{[show_e(x) for x in exp][:10]}", t))
        return ok

    def judge(order: list[int]):
        """Violations, probes and per-cell model data when the cells were executed in this order."""
        out: list[dict] = []
        probes: list[str] = []
        data: dict[int, dict] = {}
        env: dict = {}
        count = 1
        exp_streams, exp_results, exp_errors, exp_wit = [], [], [], []
        pos_of = {}
        for pos, k in enumerate(order):
            e = execs[k]
            pos_of[e["idx"]] = pos
            env_before = dict(env)
            model = model_cell(e["op"]["cell"], env)
            data[e["idx"]] = {"model": model, "env_before": env_before}
            rep = e["reply"]
            mid = e["header"]["msg_id"]
            t_rep = rel(rep["stamp"])
            cont = rep["content"]
            desc = f"execute_reply to #{e['idx']} ({cell_src(e['op']['cell'], ' ; ')[:120]!r})"
            if cont.get("execution_count") != count:
                out.append(_viol("C19.execution_count", {"where": "reply"},
                                 desc + f": execution_count {cont.get('execution_count')} expected {count}", t_rep))
            for m in obs_inputs:
                # the counter announced for the cell is the counter of the cell (the echoed code is not judged)
                if m["parent"].get("msg_id") == mid and m["content"].get("execution_count") != count:
                    out.append(_viol("C19.execution_count", {"where": "execute_input"},
                                     f"execute_input of #{e['idx']} ({cell_src(e['op']['cell'], ' ; ')[:120]!r}): "
                                     f"execution_count {m['content'].get('execution_count')} expected {count} "
                                     f"(its reply says {cont.get('execution_count')})", rel(m["stamp"])))
            error = model["error"]
            if model["open"]:
                # the value of the cell has no defined repr(): answered (judged above), ok or error
                probes.append("result_repr_" + model["open"])
                if cont.get("status") == "error":
                    error = [None, None]
                elif cont.get("status") == "ok":
                    if any(m["parent"].get("msg_id") == mid for m in obs_results_all):
                        exp_results.append({"repr": None, "count": count, "req": e})
                else:
                    out.append(_viol("C19.reply_status", {"want": "ok|error"},
                                     desc + f": status {cont.get('status')!r}", t_rep))
            else:
                want_status = "error" if error else "ok"
                if cont.get("status") != want_status:
                    out.append(_viol("C19.reply_status", {"want": want_status},
                                     desc + f": status {cont.get('status')!r} ({cont.get('ename')}: "
                                     f"{cont.get('evalue')})", t_rep))
                elif error:
                    if cont.get("ename") != error[0] or (error[1] is not None and cont.get("evalue") != error[1]):
                        out.append(_viol("C19.error_mismatch", {"where": "reply"},
                                         desc + f": {cont.get('ename')}({cont.get('evalue')!r}) expected {error}",
                                         t_rep))
            for text in model["streams"]:
                exp_streams.append({"text": text, "req": e})
            if model["result"] is not None:
                exp_results.append({"repr": model["result"], "count": count, "req": e})
                probes.append("result_cell")
                if any(st[0] == "robj" for st in e["op"]["cell"]):
                    probes.append("result_repr_native")
            if error:
                exp_errors.append({"err": error, "req": e})
                probes.append("error_cell")
                if error[0] == "NameError":
                    probes.append("name_error_cell")
                if error[0] in BASE_ERRS:
                    probes.append("base_exception_cell")
            if model["streams"]:
                probes.append("stdout_cell")
            for val in model["wit"]:
                if not exp_wit or exp_wit[-1] != val:
                    exp_wit.append(val)
                    probes.append("witness_cell")
            count += 1

        obs_streams = observed("stream")
        obs_results = list(obs_results_all)
        obs_errors = observed("error")
        ok_s = compare(out, "stdout", obs_streams, exp_streams, lambda o: o["content"].get("text"),
                       lambda x: x["text"],
                       lambda o, x: o["content"].get("text") == x["text"] and o["content"].get("name") == "stdout")
        ok_r = compare(out, "result", obs_results, exp_results,
                       lambda o: (o["content"].get("execution_count"), (o["content"].get("data") or {}).get("text/plain")),
                       lambda x: (x["count"], x["repr"] if x["repr"] is not None else "<any>"),
                       lambda o, x: (x["repr"] is None or (o["content"].get("data") or {}).get("text/plain") == x["repr"])
                       and o["content"].get("execution_count") == x["count"])
        ok_e = compare(out, "error", obs_errors, exp_errors,
                       lambda o: (o["content"].get("ename"), o["content"].get("evalue")),
                       lambda x: tuple(x["err"]),
                       lambda o, x: (x["err"][0] is None or o["content"].get("ename") == x["err"][0])
                       and (x["err"][1] is None or o["content"].get("evalue") == x["err"][1]))
        if ok_s and ok_r and ok_e:
            t_of = {o["stamp"][0]: rel(o["stamp"]) for o in obs_streams + obs_results + obs_errors}
            merged = sorted([(o["stamp"][0], pos_of[x["req"]["idx"]], o["type"]) for o, x in
                             list(zip(obs_streams, exp_streams)) + list(zip(obs_results, exp_results))
                             + list(zip(obs_errors, exp_errors))])
            hi = -1
            for seq, rpos, kind in merged:
                if rpos < hi:
                    owner = execs[order[rpos]]
                    path = "error" if data[owner["idx"]]["model"]["error"] else "ok"
                    later = execs[order[hi]]
                    out.append(_viol("C19.output_order", {"kind": kind, "cell": path},
                                     f"iopub {kind} of request #{owner['idx']} "
                                     f"({cell_src(owner['op']['cell'], ' ; ')[:80]!r}, ends with {path}) was "
                                     f"delivered after an output of the later request #{later['idx']} "
                                     f"({cell_src(later['op']['cell'], ' ; ')[:80]!r})", t_of.get(seq, 0.0)))
                    break
                hi = max(hi, rpos)
            for o, x in zip(obs_streams, exp_streams):
                if x["req"].get("idle") and o["stamp"][0] > x["req"]["idle"]["stamp"][0]:
                    probes.append("stdout_after_idle")
                if o["parent"].get("msg_id") != x["req"]["header"]["msg_id"]:
                    probes.append("stdout_misparented")
        # side effects of the valid cells, once each, in order
        allowed = set(exp_wit)
        obs_wit = [v for v, _ in wit_hist if v in allowed]
        if obs_wit != exp_wit:
            out.append(_viol("C19.cell_side_effect", {},
                             f"writes of {WITNESS} by answered cells: observed {obs_wit} expected {exp_wit}", 0.0))
        return out, probes, data

    best = None
    for order in orders:
        got = judge(order)
        if best is None or len(got[0]) < len(best[0]):
            best = got + (order,)
        if not got[0]:
            break
    cell_viols, cell_probes, cell_data, best_order = best
    if len(orders) > 1:
        # no order of the overlapping cells explains what was observed: reported for the best candidate
        names = [f"#{execs[k]['idx']}(front end {execs[k].get('fe', 0)})" for k in best_order]
        for v in cell_viols:
            v["sig"] = dict(v["sig"], concurrent=True)
            v["detail"] = (v["detail"] + f" [cells of the two front ends were handled at the same time; none of the "
                           f"{len(orders)} possible orders explains the observations, closest: {' '.join(names)}]")[:1200]
    violations.extend(cell_viols)
    for name in cell_probes:
        w.probe(name)
    for e in execs:
        e["model"] = cell_data[e["idx"]]["model"]
    for a, b in zip(answered, answered[1:]):
        mod = a.get("model")
        if mod and mod["streams"] and mod["error"] and b["stamp"][0] < a["reply"]["stamp"][0]:
            w.probe("print_then_fail_pipelined")
    for e in answered:
        if e["op"].get("rerun"):
            w.probe("cell_rerun")
            prev = [o for o in answered if o["stamp"][0] < e["stamp"][0]]
            k = len(prev)
            while k and prev[k - 1]["op"]["mt"] != "execute_request":
                k -= 1
            between = prev[k:]
            if (k and prev[k - 1]["op"].get("cell") == e["op"]["cell"]
                    and any(o["op"]["mt"] == "is_complete_request"
                            and o["op"]["content"].get("code") != request_content(e["op"])["code"] for o in between)):
                w.probe("rerun_after_is_complete_of_other_text")

    # ---- heartbeat echo (framing under the real handshake)
    hb_sent = [h for h in rec["hb"] if h["delivered"]]
    hb_got = [m["frames"] for m in parsed_msgs("hb")]
    for i, frames in enumerate(hb_got):
        if i >= len(hb_sent) or frames != [b"", hb_sent[i]["body"]]:
            violations.append(_viol("C19.hb_echo", {"why": "differs"},
                                    f"heartbeat echo #{i}: {_short(frames)} expected "
                                    f"{_short([b'', hb_sent[i]['body']]) if i < len(hb_sent) else None}", 0.0))
            break
    if len(hb_got) < len(hb_sent) and not tampers:
        violations.append(_viol("C19.hb_echo", dict({"why": "missing"}, **({"after": "no_reply"} if lost else {})),
                                f"{len(hb_sent)} heartbeat pings, {len(hb_got)} echoes"
                                + (f" (request #{lost_root['idx']} got no reply)" if lost else ""), 0.0))

    if tampers and any("Shutting down session" in rec_["msg"] for rec_ in w.logs):
        w.probe("session_killed_by_tamper")

    # ---- trace (digest input): everything the kernel wrote, in order
    evs = []
    for conn in rec["conns"]:
        for ev in conn.decoder.events:
            body = ev.get("frames") or [ev.get("name", b"")] + [b"=".join(p) for p in ev.get("props", [])]
            evs.append([ev["stamp"][0], conn.name, conn.cid, ev["k"], round(ev["stamp"][1] - vt0, 6),
                        hashlib.sha256(b"\x00".join(body)).hexdigest()[:10]])
    evs.sort()
    w.trace.append(["net", w.net.log])
    w.trace.extend(evs)
    w.trace.append(["wit", [v for v, _ in wit_hist]])

    violations.sort(key=lambda v: v.get("t", 0.0))
    violations = _dedup(violations)
    n_answered = sum(1 for e in shell_reqs if e.get("reply"))
    nontrivial = n_answered >= 1 and bool(w.faults)
    extra = {"requests": len(reqs), "valid_shell": n_valid, "answered": n_answered, "tampered": len(tampers),
             "iopub_msgs": len(iopub_all), "iopub_dropped": n_iopub_dropped, "proto_runs": 1,
             "hb_pings": len(hb_sent), "two_front_end_runs": 1 if two_fe else 0}
    return violations, nontrivial, extra


# =============================================================================== module interface
def run(scn: dict) -> dict:
    mode = scn["spec"]["mode"]
    if mode == "frame":
        return _run_frame(scn)
    if mode == "proto":
        return _run_proto(scn)
    raise HarnessError(f"unknown mode {mode!r}")


def warmup() -> None:
    rng = random.Random(1)
    done = set()
    for _ in range(40):
        scn = gen(rng, "quick")
        mode = scn["spec"]["mode"]
        if mode in done:
            continue
        done.add(mode)
        scn["ops"] = scn["ops"][:2]
        run(scn)
        if len(done) == 2:
            break


def normalize(scn: dict) -> dict | None:
    spec = scn["spec"]
    if spec["mode"] == "frame":
        msgs = []
        for m in spec["msgs"]:
            if m["k"] == "mp" and not m["frames"]:
                continue
            msgs.append(m)
        if not any(m["k"] != "cmd" for m in msgs):
            return None
        spec["msgs"] = msgs
        return scn
    for op in scn["ops"]:
        if op["kind"] in ("req", "trunc") and op.get("mt") == "execute_request" and not op.get("cell"):
            op["cell"] = [["expr", ["none"]]]
        if not spec.get("fe2"):
            op.pop("fe", None)
    return scn


def simplify(scn: dict):
    spec = scn["spec"]
    if spec["mode"] == "frame":
        wire = b"".join(_wire_len(m) for m in spec["msgs"])
        n = len(wire)
        if spec["cuts"]["mode"] != "list":
            cand = copy.deepcopy(scn)
            cand["spec"]["cuts"] = {"mode": "list", "pos": []}
            yield cand
            if n <= 64:
                for c in range(1, n):
                    cand = copy.deepcopy(scn)
                    cand["spec"]["cuts"] = {"mode": "list", "pos": [c]}
                    yield cand
        if spec["eof"]["mode"] != "list" or spec["eof"]["pos"]:
            cand = copy.deepcopy(scn)
            cand["spec"]["eof"] = {"mode": "list", "pos": []}
            yield cand
            if spec["eof"]["mode"] == "all":
                for p in range(0, n):
                    cand = copy.deepcopy(scn)
                    cand["spec"]["eof"] = {"mode": "list", "pos": [p]}
                    yield cand
        if spec["cuts"].get("more"):
            cand = copy.deepcopy(scn)
            cand["spec"]["cuts"]["more"] = []
            yield cand
            for seed in spec["cuts"]["more"]:
                cand = copy.deepcopy(scn)
                cand["spec"]["cuts"]["more"] = [seed]
                cand["spec"]["cuts"]["pos"] = []
                yield cand
        if spec.get("delays") != [-1]:
            cand = copy.deepcopy(scn)
            cand["spec"]["delays"] = [-1]
            yield cand
        for mi, m in enumerate(spec["msgs"]):
            if m["k"] == "mp":
                for fi, (ln, sd) in enumerate(m["frames"]):
                    for new in (0, 1, 255, 256):
                        if new < ln:
                            cand = copy.deepcopy(scn)
                            cand["spec"]["msgs"][mi]["frames"][fi] = [new, sd]
                            yield cand
                    if sd != 2:
                        cand = copy.deepcopy(scn)
                        cand["spec"]["msgs"][mi]["frames"][fi] = [ln, 2]
                        yield cand
            elif m["k"] == "send":
                for new in (0, 1, 255, 256):
                    if new < m["frame"][0]:
                        cand = copy.deepcopy(scn)
                        cand["spec"]["msgs"][mi]["frame"] = [new, m["frame"][1]]
                        yield cand
        return
    # ---- proto
    if spec.get("fe2"):
        cand = copy.deepcopy(scn)  # one front end only
        cand["spec"].pop("fe2")
        for op in cand["ops"]:
            op.pop("fe", None)
        yield cand
        if spec["fe2"].get("overlap"):
            cand = copy.deepcopy(scn)  # the front ends wait for each other
            cand["spec"]["fe2"].pop("overlap")
            yield cand
        if spec["fe2"].get("lazy") or spec["fe2"].get("cuts"):
            cand = copy.deepcopy(scn)
            cand["spec"]["fe2"] = dict(spec["fe2"], cuts=[], delays=[-1], lazy=False)
            yield cand
        for i, op in enumerate(scn["ops"]):
            if op.get("fe"):
                cand = copy.deepcopy(scn)
                cand["ops"][i]["fe"] = 0
                yield cand
    for key, val in (("drain", "none"), ("busy_ports", []), ("key", KEYS[0])):
        if spec.get(key) != val:
            cand = copy.deepcopy(scn)
            cand["spec"][key] = val
            yield cand
    if any(h.get("cuts") for h in spec["hello"].values()):
        cand = copy.deepcopy(scn)
        for h in cand["spec"]["hello"].values():
            h["cuts"] = []
        yield cand
    for i, op in enumerate(scn["ops"]):
        if op.get("cuts"):
            cand = copy.deepcopy(scn)
            cand["ops"][i]["cuts"] = []
            yield cand
        if op.get("passes") or op.get("dt", 0.0) not in (0.0, 0.25):
            cand = copy.deepcopy(scn)
            cand["ops"][i].pop("passes", None)
            cand["ops"][i]["dt"] = 0.25
            yield cand
        if op.get("ids") and len(op["ids"]) > 1:
            cand = copy.deepcopy(scn)
            cand["ops"][i]["ids"] = op["ids"][:1]
            yield cand
        if op["kind"] == "req" and op.get("mt") != "kernel_info_request" and not op.get("fault"):
            cand = copy.deepcopy(scn)
            cand["ops"][i]["mt"] = "kernel_info_request"
            cand["ops"][i].pop("cell", None)
            cand["ops"][i]["content"] = {}
            yield cand
    for key, val in (("timer_late_ms", 0.0), ("drift", 0.0), ("cost_us", 50), ("exec_latency_ms", [0.0, 0.0])):
        if scn["cfg"].get(key) != val:
            cand = copy.deepcopy(scn)
            cand["cfg"][key] = val
            yield cand
