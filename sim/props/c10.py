"""C10 - reload loads exactly what the files and the configuration now dictate.

Workload: a generated file tree (<= 10 files) over the documented places
(pyscript/*.py, scripts/**, apps/<app>.py, apps/<app>/__init__.py + siblings, modules/<m>.py,
modules/<m>/__init__.py + siblings; module and package form of one name may coexist) with acyclic
import edges (``import m``, ``from m import val``, ``from m import *``, ``from . import sib``,
``from .sib import val``, ``from .sib import *``; a submodule of a module package by its dotted name,
``import m.sib`` / ``from m.sib import val`` / ``from m.sib import *``, with or without an import of the package
``m`` itself; imports that stand inside a function and are executed at run time - after each load the driver makes
one importer at a time execute them - which may close an import cycle between modules), apps configured or not.
Every generated file,
when executed, announces ``('load', uid, generation, instance, pyscript.get_global_ctx())``, owns a
counter, an ``@event_trigger('probe')`` function that reports (uid, generation, instance, counter)
and bumps the counter, and optionally starts a long task at load time (start marker, task.sleep(T),
end marker).  The main file of an app may also report the pyscript.app_config it was given and then write
to it (setdefault / item assignment / pop / update / clear / append to a nested list or dict), at load
time or later from its trigger function.  Ops (<= 12): modify (new generation, possibly other imports,
new mtime), touch - the new modification time is usually newer, sometimes OLDER than every earlier one
(touch -d, archive restore, clock stepped back) or the value the file had before (touch -r / cp -p) -,
create, delete, '#'-rename of a file or a directory (and back), add / remove / change app
configuration, make a script unreadable, stall, reload(None | context name | '*').  After the
start-up and after every reload: settle, fire 'probe', settle, read the registry of contexts.

Oracle: an executable restatement of docs/reference.rst ("Configuration", "Reloading Scripts",
"Global Context", "Importing"), NOT of load_scripts: naming table, '#' skipping, app gating,
package form shadows module form; changed set = content / mtime / app config / created / deleted
/ commented; widening to every file of an app or module package that contains a change; closure
over everything that directly or indirectly imports a changed file; ``global_ctx=<name>`` (that
one file is the changed one, other changes are ignored, the widening rules still apply) and '*'.
The oracle is a function (contexts actually loaded before, files on disk, configuration, mode)
-> (must / may be discarded, must / may be executed); after each reload the reference state is
re-synchronised with what is really loaded, so every reload is judged on its own.  "Modification time
changed" is judged as written: any difference from the time the context was loaded with, in either
direction; a time put back to that value together with unchanged content is no change.  "App
configuration changed" refers to the yaml configuration: what an app does with its own
pyscript.app_config object is no configuration change, and an executed app must be given the
configuration the yaml holds now.
"""

from __future__ import annotations

import builtins
import copy
import os
import random
import shutil
from unittest.mock import patch

from ..common import base_result, gen_cfg
from ..world import HarnessError, World

PROPERTY = "C10"
LEVEL = "exploration"
RULE = (
    "seeded generation of (file tree of 2-10 files over top-level / scripts/** / apps file+package(+siblings) / "
    "modules file+package(+siblings) with acyclic absolute, from-, star- and relative import edges incl. imports "
    "of absent modules, imports of a package submodule by its dotted name (m.sub) with or without an import of the "
    "package, and run-time imports executed inside a function after the load, which may close import cycles between "
    "modules; app configuration present/absent (flat or with nested list/dict values), optional "
    "load-time long task per file, app main files that write to their pyscript.app_config [setdefault / assign / "
    "pop / update / clear / nested append] at load time or from their trigger) x (<= 12 ops in "
    "rounds of 1-3 edits [modify(+re-wire imports) / touch, each with the mtime moving forwards, backwards or back "
    "to its previous value / create / delete / '#'-rename file or directory / "
    "app config add-remove-change / unreadable script / stall] followed by reload(None | name | '*')); start-up "
    "load and every reload are judged; distinct = scenario digest; non-trivial = some reload re-executed a "
    "non-empty strict subset of the loaded contexts while at least one other context had to stay untouched"
)
ASSUMPTIONS = [
    "sequences only: a reload is awaited (blocking service call) before the next op; overlapping reloads are not "
    "generated (the property speaks of sequences)",
    "import cycles between pyscript modules through load-time imports are not generated (a module is registered "
    "only after it has run); cycles closed by an import executed at run time inside a function are (not in steered "
    "runs)",
    "a run-time import (import statement inside a function) is exercised only while every module it names is "
    "loaded: it then adds a dependency of the importing context on that module, exactly like a load-time import; a "
    "run-time import that would have to load the module is not exercised; the importers are driven one at a time",
    "import m.sub loads modules/m/sub.py as modules.m.sub; whether it also executes modules/m/__init__.py first (as "
    "Python does) is not documented: that execution is allowed, not required; an import of any file of a package "
    "counts as an import of that package (docs: 'any changes to a module's files will cause all of the module files "
    "to be unloaded, and any scripts or apps that import that module will be reloaded'); a file of a package can do "
    "relative imports however it was imported",
    "a file may fail while loading (raise at top level, or an unguarded import of an absent or failing module): "
    "whether such a file is registered, and whether it is tried again while it still fails, is don't-care (what a "
    "file that fails to load leaves behind is not documented); once the cause is repaired a reload must execute it, "
    "and a file that has no reason to fail must run to its end",
    "app names, module names and sibling names are disjoint (the lookup order of an absolute import inside an app "
    "package - apps/ before modules/ - is not documented and is not exercised)",
    "a non-auto-loaded file that became visible since the last full reload (created / un-commented module or "
    "package sibling) is an OPTIONAL change: whether it re-executes its package or the files whose import of it "
    "failed earlier is don't-care (must/may bounds)",
    "a module context that stays loaded although no loaded auto-loaded file imports it any more (importer deleted "
    "or re-wired) is don't-care in presence (sentence 1 of the property says 'exactly', sentence 2 says "
    "'untouched'); if present it must be untouched",
    "with reload(global_ctx=name) the other changes are ignored: a re-executed importer binds to a module that "
    "is still loaded even if that module's file changed on disk",
    "with reload(global_ctx=name), a context that depends on the named one (package mate or importer) and whose own "
    "file is gone - an ignored deletion - may be kept or discarded ('other changes are ignored' v. 'all other files "
    "in the module or app' are reloaded); the lower bound of the closure stops there",
    "an unreadable script (open raises OSError) may or may not lose its previously loaded context, it is never "
    "executed; all other files are judged strictly",
    "running tasks are required to survive only in contexts that were left untouched (the property's wording)",
    "context names passed to reload are exact names of loaded contexts or of visible files (prefix forms and "
    "unknown names are not generated)",
    "app configuration values are {} / {'k': n} / {'k': n, 'lst': [..]} / {'k': n, 'sub': {..}}; None <-> {} "
    "transitions are not generated",
    "an app writes only to its own pyscript.app_config object (dict methods, append to a nested list, item "
    "assignment in a nested dict); that is not a change of the app's configuration (the yaml is), so it gives a "
    "default reload no reason to touch the app; what pyscript.app_config is for an app whose configuration is "
    "empty (undefined / None / {}) is don't-care; with reload(global_ctx=name) a re-executed app may be given its "
    "old or its current configuration ('other changes are ignored')",
    "modification times are compared for equality with the time the context was loaded with (the documentation "
    "says 'changed'): a touch that moves the time backwards is a change; a time put back to the loaded value "
    "with unchanged content is none; generated times are whole seconds and never collide by accident",
    "steer (half of the runs): apps do not write to NESTED values of their configuration (finding on record: "
    "pyscript.app_config is a shallow copy)",
]
TIERS = {
    "quick": {"runs": 4000, "chunk": 125, "max_ops": 12},
    "thorough": {"runs": 100000, "chunk": 500, "max_ops": 12},
}
REACH_PROBES = [
    "diamond_import", "package_sibling_changed", "running_task_survived", "hash_rename", "hash_dir_rename",
    "app_config_changed", "reload_by_name", "reload_star", "module_only_imported_by_app_sibling",
    "strict_subset_reexecuted", "orphan_module", "optional_change", "package_shadows_module",
    "unreadable_skipped", "deleted_module_with_importers", "deleted_package_sibling", "import_of_absent_module",
    "sibling_imports_sibling", "touch_only", "name_reload_ignored_other_change", "task_in_flight_at_reload",
    "stall_during_reload", "content_only_change", "file_failed_to_load", "importer_failed_with_its_import",
    "failed_file_loaded_after_repair", "mtime_moved_back", "mtime_moved_back_imported_module", "mtime_restored",
    "app_saw_its_config", "config_writing_app_left_alone", "config_writing_app_left_alone_nested",
    "app_wrote_config_at_runtime", "dotted_submodule_import", "package_changed_reached_by_dotted_import_only",
    "late_import_done", "import_cycle", "changed_module_reached_over_cycle",
    "dotted_submodule_with_relative_import",
]
SHRINK_LISTS = [["ops"], ["spec", "files"], ["spec", "files", "*", "imports"]]

PREFIX = "pyscript/"
MODS = ["qm0", "qm1", "qm2"]
APPS = ["qa0", "qa1", "qa2"]
SIBS = ["qx0", "qx1"]
TOPS = ["qt0", "qt1", "qt2"]
SCRIPTS = ["scripts/qs0", "scripts/qd1/qs1", "scripts/qd1/qd2/qs2", "scripts/qd3/qs3"]
CFG_VALUES = [{}, {"k": 1}, {"k": 2}, {"k": 3}, {"k": 1, "lst": [1]}, {"k": 2, "sub": {"a": 1}}]
# how an app's main file writes to its own pyscript.app_config ("fill in the defaults" and friends)
CFGMUT_FLAT = ["setdefault", "assign", "pop", "update", "clear"]
CFGMUT_FORMS = CFGMUT_FLAT + ["nested"]
APP_MAIN_KINDS = ("app_file", "app_pkg_init")
TASK_T = [0, 0, 0, 2.0, 6.0, 20.0]
# coarse grouping of the cause of a change (signature key "change")
CHANGE_GROUP = {"delete": "removed", "hash": "removed", "config": "config", "unreadable": "removed",
                "shadow": "replaced", "replace": "replaced", "modify": "edited", "touch": "edited",
                "create": "created", "named": "named", "star": "star"}
AUTOLOAD_KINDS = ("top", "script", "app_file", "app_pkg_init")
STEER_KINDS = ("top", "script", "app_file")  # files nothing depends on and that belong to no package
PKG_KINDS = ("app_pkg_init", "app_pkg_sibling", "module_pkg_init", "module_pkg_sibling")


# ------------------------------------------------------------------ documented naming table
def classify(path: str) -> dict | None:
    """docs 'Global Context': file path -> context name; '#' anywhere in the path = commented out."""
    if not path.startswith(PREFIX) or not path.endswith(".py"):
        return None
    parts = path[len(PREFIX):-3].split("/")
    hidden = any(p.startswith("#") for p in parts)
    clean = [p.lstrip("#") for p in parts]  # only to name the place of a commented file in signatures
    root = None
    name = None
    if len(clean) == 1:
        kind, ctx = "top", f"file.{clean[0]}"
    elif clean[0] == "scripts":
        kind, ctx = "script", ".".join(clean)
    elif clean[0] in ("apps", "modules"):
        base = "app" if clean[0] == "apps" else "module"
        name = clean[1]
        root = f"{clean[0]}.{clean[1]}"
        if len(clean) == 2:
            kind, ctx = f"{base}_file", root
        elif len(clean) == 3 and clean[2] == "__init__":
            kind, ctx = f"{base}_pkg_init", root
        elif len(clean) == 3:
            kind, ctx = f"{base}_pkg_sibling", f"{root}.{clean[2]}"
        else:
            return None
    else:
        return None
    return {"ctx": ctx, "kind": kind, "root": root, "name": name, "hidden": hidden, "path": path}


def root_of(ctx: str) -> str | None:
    parts = ctx.split(".")
    if parts[0] in ("apps", "modules") and len(parts) >= 2:
        return f"{parts[0]}.{parts[1]}"
    return None


def hash_paths(target: str, on: bool) -> tuple[str, str]:
    head, _, last = target.rpartition("/")
    bare = last.lstrip("#")
    plain = f"{head}/{bare}"
    commented = f"{head}/#{bare}"
    return (plain, commented) if on else (commented, plain)


def is_late(imp: list) -> bool:
    """[scope, name, form, "late"]: the import statement stands in a function and is executed at run time."""
    return len(imp) > 3 and imp[3] == "late"


def top_imports(f: dict) -> list:
    return [i for i in f["imports"] if not is_late(i)]


def late_imports(f: dict) -> list:
    return [i for i in f["imports"] if is_late(i)]


def _import_stmt(imp: list) -> str:
    scope, name, form = imp[0], imp[1], imp[2]
    dots = "." if scope == "rel" else ""
    if form == "import":
        return f"from . import {name}" if scope == "rel" else f"import {name}"
    if form == "from":
        return f"from {dots}{name} import val as v_{name.replace('.', '_')}"
    return f"from {dots}{name} import *"


# ------------------------------------------------------------------ generated sources
def file_src(f: dict) -> str:
    u, g = f["uid"], f["gen"]
    lines = [
        f"inst_{u} = sim.get('newinst')()",
        f"sim.mark('load', {u!r}, {g}, inst_{u}, pyscript.get_global_ctx())",
    ]
    if f.get("boom"):
        lines.append(f"raise ValueError('boom {u}')")  # this file fails while loading, before it imports anything
    cm = f.get("cfgmut")
    if cm:
        # an app that reports the configuration it was given and then writes to its own pyscript.app_config
        # (at load time, or later from its trigger function)
        lines += ["try:", f"    ac_{u} = pyscript.app_config", "except Exception:", f"    ac_{u} = None",
                  f"sim.mark('cfgseen', {u!r}, {g}, inst_{u}, ac_{u})"]
        if f.get("cfgmut_at", "load") == "load":
            lines += _mut_lines(cm, u, g, "")
    for imp in top_imports(f):
        name, stmt = imp[1], _import_stmt(imp)
        if f.get("strict"):
            lines.append(stmt)  # unguarded: a failing import makes this file fail to load as well
        else:
            lines += ["try:", f"    {stmt}", "except Exception:", f"    sim.mark('impfail', {u!r}, {g}, {name!r})"]
    lines += [
        f"val = {g}",
        f"cnt_{u} = 0",
        "@event_trigger('probe')",
        f"def probe_{u}(**kw):",
        f"    global cnt_{u}",
        f"    sim.mark('probe', {u!r}, {g}, inst_{u}, cnt_{u})",
        f"    cnt_{u} += 1",
    ]
    if cm and f.get("cfgmut_at", "load") != "load":
        lines += _mut_lines(cm, u, g, "    ")
    late = late_imports(f)
    if late:
        # imports that are executed at run time, inside a function (the driver fires 'late_<uid>' when it wants them)
        lines += [f"@event_trigger('late_{u}')", f"def late_{u}(**kw):"]
        for imp in late:
            lines += ["    try:", f"        {_import_stmt(imp)}",
                      f"        sim.mark('lateok', {u!r}, {g}, inst_{u}, {imp[1]!r})",
                      "    except Exception:", f"        sim.mark('latefail', {u!r}, {g}, inst_{u}, {imp[1]!r})"]
    if f.get("task"):
        lines += [
            f"def bg_{u}():",
            f"    sim.mark('tstart', {u!r}, {g}, inst_{u}, {f['task']})",
            f"    task.sleep({f['task']})",
            f"    sim.mark('tend', {u!r}, {g}, inst_{u}, cnt_{u})",
            f"task.create(bg_{u})",
        ]
    lines.append(f"sim.mark('loadok', {u!r}, {g}, inst_{u})")
    return "\n".join(lines) + "\n"


def _mut_lines(form: str, u: str, g: int, ind: str) -> list:
    """Source lines that write to the dict ``ac_<u>`` (= this app's pyscript.app_config) in one of CFGMUT_FORMS."""
    ac = f"ac_{u}"
    body = {
        "setdefault": [f"{ac}.setdefault('dflt', {g})"],
        "assign": [f"{ac}['k'] = {100 + g}"],
        "pop": [f"{ac}.pop('k', None)"],
        "update": [f"{ac}.update({{'extra': {g}, 'k': 0}})"],
        "clear": [f"{ac}.clear()"],
        "nested": [f"for nv_{u} in list({ac}.values()):",
                   f"    if isinstance(nv_{u}, list):",
                   f"        nv_{u}.append({g})",
                   f"    elif isinstance(nv_{u}, dict):",
                   f"        nv_{u}['n'] = {g}"],
    }[form]
    # (the 'cfgmut' marker only when the write changed something: e.g. no nested value to write to, key already set)
    return [f"{ind}if {ac} is not None:", f"{ind}    rp_{u} = repr({ac})"] + [f"{ind}    {b}" for b in body] + \
           [f"{ind}    if repr({ac}) != rp_{u}:", f"{ind}        sim.mark('cfgmut', {u!r}, {g}, inst_{u})"]


# ------------------------------------------------------------------ the files on disk (model + real)
class Disk:
    """Mirror of the pyscript folder; applies ops to the model and (when a world is given) to the real folder."""

    def __init__(self, files: list[dict], apps: dict | None) -> None:
        self.files: dict[str, dict] = {}
        self.apps: dict = copy.deepcopy(apps) if apps else {}
        self.gone: dict[str, str] = {}       # path -> why a path that existed is no longer there (delete / hash)
        self.fresh: set[str] = set()         # paths that became visible since the last full reload
        self.unreadable: set[str] = set()
        self.seq = 0
        self.bseq = 0                        # source of modification times that are older than every earlier one
        self.uids: set[str] = set()
        self.cfg_changed: set[str] = set()
        for f in files:
            if f["path"] in self.files or f["uid"] in self.uids or classify(f["path"]) is None:
                continue
            self.seq += 1
            self.files[f["path"]] = {"uid": f["uid"], "gen": 1, "imports": [list(i) for i in f["imports"]],
                                     "task": f.get("task", 0), "mtime": self.seq, "prev_mtime": None,
                                     "boom": bool(f.get("boom")), "strict": bool(f.get("strict")),
                                     "cfgmut": f.get("cfgmut") or 0, "cfgmut_at": f.get("cfgmut_at") or "load"}
            self.uids.add(f["uid"])

    def initial_files(self) -> dict:
        return {path: file_src(f) for path, f in self.files.items()}

    def path_of(self, uid: str) -> str | None:
        for path, f in self.files.items():
            if f["uid"] == uid:
                return path
        return None

    def _mtime(self) -> float:
        self.seq += 1
        return self.seq

    def _move_mtime(self, f: dict, how: str | None) -> None:
        """New modification time of a file: None = now (newer than everything); 'back' = older than every time
        seen so far (touch -d, restore from an archive, clock stepped back); 'restore' = the value the file had
        before its latest change of mtime (touch -r / cp -p of the saved copy), 'back' if it never had another."""
        old = f["mtime"]
        if how == "restore" and f.get("prev_mtime") is not None:
            new = f["prev_mtime"]
        elif how in ("back", "restore"):
            self.bseq -= 1
            new = self.bseq
        else:
            new = self._mtime()
        f["mtime"], f["prev_mtime"] = new, old

    def apply(self, op: dict, w: World | None = None) -> bool:
        kind = op["kind"]
        if kind in ("modify", "touch"):
            f = self.files.get(op["path"])
            if f is None:
                return False
            if not (kind == "modify" and op.get("keep_mtime")):
                self._move_mtime(f, op.get("mt"))
            if kind == "modify":
                f["gen"] += 1
                if op.get("imports") is not None:
                    f["imports"] = [list(i) for i in op["imports"]]
                if op.get("boom") is not None:
                    f["boom"] = bool(op["boom"])
                if w is not None:
                    w.write_file(op["path"], file_src(f), mtime=1_700_000_000.0 + f["mtime"])
            elif w is not None:
                w.touch_file(op["path"], mtime=1_700_000_000.0 + f["mtime"])
            return True
        if kind == "create":
            nf = op["file"]
            if op["path"] in self.files or nf["uid"] in self.uids or classify(op["path"]) is None:
                return False
            f = {"uid": nf["uid"], "gen": 1, "imports": [list(i) for i in nf["imports"]], "task": nf.get("task", 0),
                 "mtime": self._mtime(), "prev_mtime": None, "boom": bool(nf.get("boom")),
                 "strict": bool(nf.get("strict")), "cfgmut": nf.get("cfgmut") or 0,
                 "cfgmut_at": nf.get("cfgmut_at") or "load"}
            self.files[op["path"]] = f
            self.uids.add(nf["uid"])
            self.fresh.add(op["path"])
            self.gone.pop(op["path"], None)
            if w is not None:
                w.write_file(op["path"], file_src(f), mtime=1_700_000_000.0 + f["mtime"])
            return True
        if kind == "delete":
            if op["path"] not in self.files:
                return False
            del self.files[op["path"]]
            self.gone[op["path"]] = "delete"
            self.fresh.discard(op["path"])
            self.unreadable.discard(op["path"])
            if w is not None:
                w.delete_file(op["path"])
            return True
        if kind == "hash":
            src, dst = hash_paths(op["target"], op["on"])
            moved = [p for p in sorted(self.files) if p == src or p.startswith(src + "/")]
            if not moved or any(p == dst or p.startswith(dst + "/") for p in self.files):
                return False
            for p in moved:
                q = dst + p[len(src):]
                self.files[q] = self.files.pop(p)
                self.gone[p] = "hash"
                self.gone.pop(q, None)
                self.fresh.discard(p)
                if p in self.unreadable:
                    self.unreadable.discard(p)
                    self.unreadable.add(q)
                info = classify(q)
                if info is not None and not info["hidden"]:
                    self.fresh.add(q)
            if w is not None:
                real_dst = os.path.join(w.dir, dst)
                if os.path.isdir(real_dst):
                    shutil.rmtree(real_dst)  # left-over empty directories of deleted files
                w.rename(src, dst)
            return True
        if kind == "cfg":
            app, val = op["app"], op["val"]
            if val is None:
                if app not in self.apps:
                    return False
                del self.apps[app]
            else:
                if self.apps.get(app, "absent") == val:
                    return False
                self.apps[app] = copy.deepcopy(val)
            self.cfg_changed.add(app)
            if w is not None:
                w.yaml_apps = copy.deepcopy(self.apps)
            return True
        if kind == "unreadable":
            if op["path"] not in self.files:
                return False
            if op["on"]:
                self.unreadable.add(op["path"])
            else:
                self.unreadable.discard(op["path"])
            return True
        return False


# ------------------------------------------------------------------ reference semantics (from the documentation)
def discover(disk: Disk) -> dict:
    """Context name -> visible file that the documentation maps to it (package form shadows module form)."""
    out: dict[str, dict] = {}
    for path in sorted(disk.files):
        info = classify(path)
        if info is None or info["hidden"]:
            continue
        kind = info["kind"]
        if kind.startswith("app_") and info["name"] not in disk.apps:
            continue  # "An application will not be loaded unless it has a configuration entry"
        prev = out.get(info["ctx"])
        if prev is not None:
            # "if the package form of an app or module exists, the module form is ignored"
            if prev["kind"].endswith("_pkg_init"):
                continue
        ent = dict(info)
        ent["autoload"] = kind in AUTOLOAD_KINDS
        ent["cfg"] = copy.deepcopy(disk.apps[info["name"]]) if kind in ("app_file", "app_pkg_init") else None
        out[info["ctx"]] = ent
    return out


def want_name(info: dict, imp: list) -> str | None:
    """Context name an import statement of the file described by ``info`` refers to."""
    scope, name = imp[0], imp[1]
    if scope == "abs":
        return f"modules.{name}"
    if info["kind"] in PKG_KINDS and info["root"]:
        return f"{info['root']}.{name}"
    return None


def _why_gone(disk: Disk, ent: dict) -> str:
    path = ent["path"]
    if path in disk.files:
        info = classify(path)
        if info and info["kind"].startswith("app_") and info["name"] not in disk.apps:
            return "config"
        if path in disk.unreadable:
            return "unreadable"
        return "shadow"
    return disk.gone.get(path, "delete")


def base_changes(loaded: dict, found: dict, disk: Disk, mode: str | None) -> tuple[dict, dict]:
    """(definite, optional) base changes: ctx -> {"op", "place"}."""
    must: dict[str, dict] = {}
    opt: dict[str, dict] = {}
    if mode == "*":
        for ctx in sorted(set(loaded) | {c for c, d in found.items() if d["autoload"]}):
            place = (loaded.get(ctx) or found.get(ctx))["kind"]
            must[ctx] = {"op": "star", "place": place}
        return must, opt
    if mode is not None:
        ent = loaded.get(mode) or found.get(mode)
        must[mode] = {"op": "named", "place": ent["kind"] if ent else "unknown"}
        return must, opt
    for ctx in sorted(loaded):
        ent = loaded[ctx]
        d = found.get(ctx)
        if d is None:
            must[ctx] = {"op": _why_gone(disk, ent), "place": ent["kind"]}
            continue
        f = disk.files[d["path"]]
        if d["path"] in disk.unreadable:
            opt[ctx] = {"op": "unreadable", "place": ent["kind"]}
            continue
        if d["path"] != ent["path"]:
            must[ctx] = {"op": "shadow", "place": d["kind"]}
        elif f["uid"] != ent["uid"]:
            must[ctx] = {"op": "replace", "place": ent["kind"]}
        elif f["gen"] != ent["gen"]:
            must[ctx] = {"op": "modify", "place": ent["kind"]}
        elif f["mtime"] != ent["mtime"]:
            must[ctx] = {"op": "touch", "place": ent["kind"]}
        elif d["cfg"] != ent["cfg"]:
            must[ctx] = {"op": "config", "place": ent["kind"]}
    for ctx in sorted(found):
        if ctx in loaded:
            continue
        d = found[ctx]
        if d["path"] in disk.unreadable:
            continue
        if d["autoload"]:
            must[ctx] = {"op": "create", "place": d["kind"]}
        elif d["path"] in disk.fresh:
            opt[ctx] = {"op": "create", "place": d["kind"]}
    return must, opt


def close_changes(base: dict, loaded: dict, found: dict, use_wanted: bool, soft: frozenset = frozenset()) -> dict:
    """Package widening + closure over importers. ctx -> {"op", "place", "via"} (first reason found, fixed order).

    ``soft``: contexts the closure does not enter (used for the lower bound only, see expectation())."""
    changed = {ctx: {"op": r["op"], "place": r["place"], "via": "direct"} for ctx, r in base.items()}
    work = sorted(base)
    universe = sorted(set(loaded) | set(found))

    def add(ctx, cause, hop):
        if ctx in changed or ctx in soft:
            return
        via = cause["via"]
        via = hop if via == "direct" else (via if hop in via.split("+") else f"{via}+{hop}")
        changed[ctx] = {"op": cause["op"], "place": cause["place"], "via": via}
        work.append(ctx)

    while work:
        cur = work.pop(0)
        cause = changed[cur]
        root = root_of(cur)
        if root is not None:
            # "all other files in a particular module or app ... the entire module or app is reloaded if any of
            # its files or imports are changed"
            for other in universe:
                if other != cur and root_of(other) == root:
                    add(other, cause, "widen")
        # "any other module, app or script that imports that module directly or indirectly is reloaded too"
        # (an import of any file of a package is an import of that package: "any changes to a module's files will
        # cause all of the module files to be unloaded, and any scripts or apps that import that module will be
        # reloaded" - this also covers an importer whose recorded target is no longer loaded)
        for other in sorted(loaded):
            ent = loaded[other]
            edges = ent["wanted"] if use_wanted else ent["imports"]
            if cur in edges or (root is not None and root_of(other) != root and any(root_of(t) == root for t in edges)):
                add(other, cause, "import")
    return changed


def simulate_exec(loaded: dict, found: dict, disk: Disk, changed: dict, upper: bool = False) -> tuple[dict, list, set]:
    """Discard ``changed``, execute the changed auto-loaded files that exist, follow their imports.

    ``upper``: the upper bound of what may be executed - an import of a submodule by its dotted name (``import m.sub``)
    may also execute the ``__init__.py`` of the package ``m`` first, as Python does (not documented either way).

    A file that raises while loading ("boom", or an unguarded import of something that is absent or itself fails to
    load) is executed but not loaded: it is in ``executed`` and in ``failed`` and not in the resulting table."""
    now = {ctx: ent for ctx, ent in loaded.items() if ctx not in changed}
    executed: list[str] = []
    failed: set[str] = set()
    running: set[str] = set()

    def run(ctx: str) -> bool:
        d = found[ctx]
        if d["path"] in disk.unreadable or ctx in running:
            return False
        running.add(ctx)
        f = disk.files[d["path"]]
        imports, wanted = [], []
        ok = not f.get("boom")
        for imp in (top_imports(f) if ok else []):
            tgt = want_name(d, imp)
            if tgt is None:
                if f.get("strict"):
                    ok = False
                    break
                continue
            wanted.append(tgt)
            if upper and imp[0] == "abs" and "." in imp[1]:
                pkg = root_of(tgt)
                if pkg not in now and pkg in found and found[pkg]["kind"] == "module_pkg_init":
                    run(pkg)
            if tgt in now:
                imports.append(tgt)
            elif tgt in found and not found[tgt]["autoload"] and run(tgt):
                imports.append(tgt)
            elif f.get("strict"):
                ok = False
                break
        running.discard(ctx)
        if not ok:
            executed.append(ctx)
            failed.add(ctx)
            return False
        now[ctx] = {"uid": f["uid"], "gen": f["gen"], "mtime": f["mtime"], "cfg": copy.deepcopy(d["cfg"]),
                    "path": d["path"], "kind": d["kind"], "imports": sorted(set(imports)),
                    "wanted": sorted(set(wanted)), "late": [list(i) for i in late_imports(f)]}
        executed.append(ctx)
        return True

    for ctx in sorted(changed):
        d = found.get(ctx)
        if d is not None and d["autoload"] and ctx not in now:
            run(ctx)
    return now, executed, failed


def reachable_from_autoload(loaded: dict) -> set:
    seen = set()
    work = [c for c, e in loaded.items() if e["kind"] in AUTOLOAD_KINDS]
    while work:
        cur = work.pop()
        if cur in seen:
            continue
        seen.add(cur)
        work.extend(t for t in loaded[cur]["imports"] if t in loaded)
    return seen


def expectation(loaded: dict, disk: Disk, mode: str | None) -> dict:
    found = discover(disk)
    must_base, opt_base = base_changes(loaded, found, disk, mode)
    soft = frozenset()
    if mode is not None and mode != "*":
        # "other changes are ignored" v. "all other files in the module or app [are reloaded]": a dependent context
        # whose own file is gone (an ignored deletion) may be kept or discarded; the lower bound stops there
        soft = frozenset(c for c in loaded if c not in found and c != mode)
    must_changed = close_changes(must_base, loaded, found, use_wanted=False, soft=soft)
    may_base = dict(opt_base)
    may_base.update(must_base)
    may_changed = close_changes(may_base, loaded, found, use_wanted=True)
    must_after, must_exec_all, must_failed = simulate_exec(loaded, found, disk, must_changed)
    may_after, may_exec, may_failed = simulate_exec(loaded, found, disk, may_changed, upper=True)
    # a file that fails to load need not be tried (what a failing file leaves behind, and whether it is tried again
    # while it still fails, is not stated); one that loads must be executed
    # (the lower bound also needs the execution to happen, and succeed, under the upper-bound change set: whether an
    # unguarded import succeeds can depend on an optional discard)
    must_exec = [c for c in must_exec_all if c not in must_failed and c in may_exec and c not in may_failed]
    # the optional choices are independent of one another: under the upper-bound change set WITHOUT the optional
    # execution of a package's __init__.py on a dotted submodule import the execution has to happen as well
    # (found with VERIF_SEED=11: a named reload whose only path to a module led through a discarded package in
    # one bound and through an optional __init__ execution in the other)
    _, mid_exec, mid_failed = simulate_exec(loaded, found, disk, may_changed, upper=False)
    must_exec = [c for c in must_exec if c in mid_exec and c not in mid_failed]
    may_exec = sorted(set(may_exec) | set(must_exec_all))
    return {
        "failed": must_failed | may_failed, "failed_def": must_failed & may_failed,
        "ok_def": {c for c in must_exec if c not in may_failed},
        "found": found, "must_base": must_base, "opt_base": opt_base,
        "must_changed": must_changed, "may_changed": may_changed,
        "must_exec": must_exec, "may_exec": may_exec, "must_after": must_after, "may_after": may_after,
    }


# ------------------------------------------------------------------ generation
def _gen_imports(rng: random.Random, info: dict, mods_here: list[str], sibs_here: list[str], rich: bool,
                 tree_sibs: dict | None = None) -> list:
    """Import list of a file; acyclic by construction (module i imports modules j>i; sibling k imports siblings l>k).

    ``tree_sibs`` (root context name -> names of the sibling files of that package in the tree): when given, a file
    may also import a submodule of a module package by its dotted name (``import m.sub`` / ``from m.sub import ..``),
    with or without an import of the package ``m`` itself."""
    out = []
    kind = info["kind"]
    if kind.startswith("module_"):
        idx = MODS.index(info["name"])
        abs_pool = MODS[idx + 1:]
    else:
        abs_pool = list(MODS)
    present = [m for m in abs_pool if m in mods_here]
    n_abs = rng.choice([0, 1, 1, 2, 3] if rich else [0, 0, 1, 1, 2])
    for _ in range(n_abs):
        pool = present if present and rng.random() < 0.88 else abs_pool
        if not pool:
            break
        name = rng.choice(pool)
        if any(i[0] == "abs" and i[1] == name for i in out):
            continue
        out.append(["abs", name, rng.choice(["import", "import", "from", "star"])])
    if tree_sibs is not None and abs_pool and rng.random() < (0.3 if rich else 0.2):
        pkgs = [m for m in abs_pool if tree_sibs.get(f"modules.{m}")]
        if pkgs and rng.random() < 0.9:
            mod = rng.choice(pkgs)
            sub = rng.choice(sorted(tree_sibs[f"modules.{mod}"]))
        else:
            mod, sub = rng.choice(abs_pool), rng.choice(SIBS)  # (mostly) a submodule that does not exist
        out.append(["abs", f"{mod}.{sub}", rng.choice(["import", "from", "from", "star"])])
    if kind in PKG_KINDS:
        if kind.endswith("_init"):
            rel_pool = list(SIBS)
            p_each = 0.75
        else:
            me = info["ctx"].split(".")[-1]
            rel_pool = SIBS[SIBS.index(me) + 1:] if me in SIBS else []
            p_each = 0.3
        for name in rel_pool:
            here = name in sibs_here
            if rng.random() < (p_each if here else 0.08):
                out.append(["rel", name, rng.choice(["import", "from", "star"])])
    rng.shuffle(out)
    if rng.random() < (0.25 if kind.startswith("module_") else 0.08):
        # an import executed at run time, from inside a function (the usual way to break an import cycle: a module
        # may import, late, a module that imports it at load time)
        mine = info["name"] if kind.startswith("module_") else None
        pool = [m for m in MODS if m != mine]
        back = [m for m in pool if mine is not None and MODS.index(m) < MODS.index(mine)]
        here = [m for m in pool if m in mods_here]
        for _ in range(rng.choice([1, 1, 2])):
            name = rng.choice(back if back and rng.random() < 0.6 else here if here and rng.random() < 0.9 else pool)
            if tree_sibs and tree_sibs.get(f"modules.{name}") and rng.random() < 0.2:
                name = f"{name}.{rng.choice(sorted(tree_sibs[f'modules.{name}']))}"
            if not any(i[0] == "abs" and i[1] == name for i in out):
                out.append(["abs", name, rng.choice(["import", "from"]), "late"])
    return out


def _steer_imports(imports: list, info: dict) -> list:
    """Steered runs stay away from relative imports in sibling files and from import cycles."""
    out = []
    for imp in imports:
        if imp[0] == "rel" and info["kind"].endswith("_sibling"):
            continue
        if is_late(imp) and info["kind"].startswith("module_") and \
                MODS.index(imp[1].split(".")[0]) <= MODS.index(info["name"]):
            continue
        out.append(imp)
    return out


def _tree_names(paths: list[str]) -> tuple[list[str], dict]:
    mods = sorted({classify(p)["name"] for p in paths if classify(p) and classify(p)["kind"].startswith("module_")})
    sibs: dict[str, list[str]] = {}
    for p in paths:
        info = classify(p)
        if info and info["kind"].endswith("_pkg_sibling"):
            sibs.setdefault(info["root"], []).append(info["ctx"].split(".")[-1])
    return mods, sibs


def _gen_tree_paths(rng: random.Random) -> list[str]:
    paths: list[str] = []
    for name in MODS:
        roll = rng.random()
        if roll < 0.30:
            paths.append(f"{PREFIX}modules/{name}.py")
        elif roll < 0.58:
            paths.append(f"{PREFIX}modules/{name}/__init__.py")
            for sib in SIBS:
                if rng.random() < 0.6:
                    paths.append(f"{PREFIX}modules/{name}/{sib}.py")
            if rng.random() < 0.12:
                paths.append(f"{PREFIX}modules/{name}.py")
    for name in APPS:
        roll = rng.random()
        if roll < 0.25:
            paths.append(f"{PREFIX}apps/{name}.py")
        elif roll < 0.5:
            paths.append(f"{PREFIX}apps/{name}/__init__.py")
            for sib in SIBS:
                if rng.random() < 0.6:
                    paths.append(f"{PREFIX}apps/{name}/{sib}.py")
            if rng.random() < 0.12:
                paths.append(f"{PREFIX}apps/{name}.py")
    for name in TOPS:
        if rng.random() < 0.4:
            paths.append(f"{PREFIX}{name}.py")
    for name in SCRIPTS:
        if rng.random() < 0.35:
            paths.append(f"{PREFIX}{name}.py")
    if rng.random() < 0.12:
        # a few files start out commented
        for i, p in enumerate(list(paths)):
            if rng.random() < 0.2:
                head, _, last = p.rpartition("/")
                if last != "__init__.py":
                    paths[i] = f"{head}/#{last}"
    return paths


ALL_PATHS = (
    [f"{PREFIX}modules/{m}.py" for m in MODS] + [f"{PREFIX}modules/{m}/__init__.py" for m in MODS]
    + [f"{PREFIX}modules/{m}/{s}.py" for m in MODS for s in SIBS]
    + [f"{PREFIX}apps/{a}.py" for a in APPS] + [f"{PREFIX}apps/{a}/__init__.py" for a in APPS]
    + [f"{PREFIX}apps/{a}/{s}.py" for a in APPS for s in SIBS]
    + [f"{PREFIX}{t}.py" for t in TOPS] + [f"{PREFIX}{s}.py" for s in SCRIPTS]
)


def gen(rng: random.Random, tier: str) -> dict:
    cfg = gen_cfg(rng)
    cfg["drift"] = 0.0
    steer = rng.random() < 0.5  # half of the runs stay away from constructs with findings on record
    for _ in range(20):
        paths = _gen_tree_paths(rng)
        if 2 <= len(paths):
            break
    rng.shuffle(paths)
    paths = sorted(paths[:10])
    mods_here, sibs_here = _tree_names(paths)
    rich = rng.random() < 0.5
    files = []
    for i, path in enumerate(paths):
        info = classify(path)
        imports = _gen_imports(rng, info, mods_here, sibs_here.get(info["root"], []), rich, sibs_here)
        if steer:
            imports = _steer_imports(imports, info)
        files.append({"uid": f"F{i}", "path": path, "imports": imports, "task": rng.choice(TASK_T),
                      "boom": rng.random() < 0.05, "strict": bool(imports) and rng.random() < 0.3,
                      **_gen_cfgmut(rng, info, steer)})
    if rng.random() < 0.2:
        # a module that fails while loading and that something imports without a guard: the importer fails with it
        imported = sorted({i[1] for f in files for i in f["imports"] if i[0] == "abs"})
        mods = [f for f in files if classify(f["path"])["kind"].startswith("module_")
                and classify(f["path"])["name"] in imported and not classify(f["path"])["kind"].endswith("sibling")]
        if mods:
            bad = rng.choice(mods)
            bad["boom"] = True
            name = classify(bad["path"])["name"]
            for f in files:
                if any(i[0] == "abs" and i[1] == name for i in f["imports"]) and rng.random() < 0.7:
                    f["strict"] = True
    apps = {}
    for name in APPS:
        if rng.random() < 0.7:
            apps[name] = copy.deepcopy(rng.choice(CFG_VALUES))
    cfg["apps"] = apps if (apps or rng.random() < 0.5) else None

    # ---- ops: rounds of edits followed by a reload, generated against the model so that most ops apply
    disk = Disk(files, apps)
    max_ops = TIERS[tier]["max_ops"]
    ops: list[dict] = []
    next_uid = len(files)
    n_rounds = rng.randint(1, 5)
    for _ in range(n_rounds):
        if len(ops) >= max_ops - 1:
            break
        n_edits = rng.choice([0, 1, 1, 1, 2, 2, 3])
        for _ in range(n_edits):
            if len(ops) >= max_ops - 1:
                break
            op = _gen_edit(rng, disk, next_uid, steer)
            if op is None:
                continue
            if op["kind"] == "create":
                next_uid += 1
            disk.apply(op)
            op["dt"] = rng.choice([0.0, 0.0, 0.25, 0.5])
            ops.append(op)
        found = discover(disk)
        roll = rng.random()
        if roll < 0.6:
            mode = None
        elif roll < 0.85:
            names = sorted(found) or [None]
            plain = [c for c in names if c and found[c]["kind"] in STEER_KINDS]
            if steer:
                plain = [c for c in plain if not disk.files[found[c]["path"]]["imports"]]
                mode = rng.choice(plain) if plain else None
            else:
                mode = rng.choice(plain if (plain and rng.random() < 0.3) else names)
        else:
            mode = "*"
        op = {"kind": "reload", "mode": mode, "dt": rng.choice([0.0, 0.25, 0.5, 1.0, 2.0])}
        if rng.random() < 0.15:
            op["stall"] = [rng.randint(1, 40), rng.choice([0.01, 0.2, 1.5])]
        ops.append(op)
    return {"cfg": cfg, "spec": {"files": files, "steer": steer}, "ops": ops}


def _gen_cfgmut(rng: random.Random, info: dict, steer: bool) -> dict:
    """Whether (and how, and when) an app's main file writes to its own pyscript.app_config."""
    if info["kind"] not in APP_MAIN_KINDS or rng.random() >= 0.4:
        return {}
    form = rng.choice(CFGMUT_FLAT if steer else CFGMUT_FORMS + ["nested"])
    return {"cfgmut": form, "cfgmut_at": "probe" if rng.random() < 0.25 else "load"}


def _gen_mt(rng: random.Random, p_back: float) -> dict:
    """Direction of a change of modification time: mostly forwards, sometimes backwards / back to the old value."""
    roll = rng.random()
    if roll < p_back:
        return {"mt": "back"}
    if roll < p_back * 1.6:
        return {"mt": "restore"}
    return {}


def _gen_edit(rng: random.Random, disk: Disk, next_uid: int, steer: bool) -> dict | None:
    paths = sorted(disk.files)
    visible = [p for p in paths if not classify(p)["hidden"]]
    roll = rng.random()
    broken = [p for p in visible if disk.files[p].get("boom")]
    if broken and rng.random() < 0.3:
        return {"kind": "modify", "path": rng.choice(broken), "boom": False}  # repair a file that fails to load
    if roll < 0.26 and paths:
        path = rng.choice(visible or paths)
        op = {"kind": "modify", "path": path}
        if rng.random() < 0.06:
            op["boom"] = True
        if rng.random() < 0.12:
            op["keep_mtime"] = True  # content replaced by a tool that preserves the modification time
        else:
            op.update(_gen_mt(rng, 0.12))  # ... or that sets it to the (older) time of the copy it installs
        if rng.random() < 0.3:
            mods_here, sibs_here = _tree_names(paths)
            info = classify(path)
            imports = _gen_imports(rng, info, mods_here, sibs_here.get(info["root"], []), True, sibs_here)
            if steer:
                imports = _steer_imports(imports, info)
            op["imports"] = imports
        return op
    if roll < 0.40 and paths:
        return {"kind": "touch", "path": rng.choice(visible or paths), **_gen_mt(rng, 0.3)}
    if roll < 0.52:
        free = [p for p in ALL_PATHS if p not in disk.files]
        if not free or len(disk.files) >= 10:
            return None
        # prefer places next to what exists (a sibling in an existing package, the other form of a module ...)
        near = []
        roots = {classify(p)["root"] for p in paths if classify(p)["root"]}
        for p in free:
            info = classify(p)
            if info["root"] in roots:
                near.append(p)
        path = rng.choice(near if near and rng.random() < 0.6 else free)
        info = classify(path)
        mods_here, sibs_here = _tree_names(paths + [path])
        imports = _gen_imports(rng, info, mods_here, sibs_here.get(info["root"], []), True, sibs_here)
        if steer:
            imports = _steer_imports(imports, info)
        return {"kind": "create", "path": path,
                "file": {"uid": f"F{next_uid}", "imports": imports, "task": rng.choice(TASK_T),
                         "boom": rng.random() < 0.05, "strict": bool(imports) and rng.random() < 0.3,
                         **_gen_cfgmut(rng, info, steer)}}
    if roll < 0.63 and paths:
        pool = visible or paths
        if steer:
            pool = [p for p in pool if classify(p)["kind"] in STEER_KINDS]
            if not pool:
                return None
        return {"kind": "delete", "path": rng.choice(pool)}
    if roll < 0.79 and paths:
        hidden_now = sorted({_hidden_unit(p) for p in paths if classify(p)["hidden"]})
        if hidden_now and rng.random() < 0.55:
            return {"kind": "hash", "target": rng.choice(hidden_now), "on": False}
        units = set()
        for p in visible:
            units.add(p)
            parts = p.split("/")
            for k in range(3, len(parts)):  # directories below scripts/, apps/, modules/
                units.add("/".join(parts[:k]))
        units = sorted(units)
        if steer:
            units = [u for u in units if (classify(u)["kind"] in STEER_KINDS if u.endswith(".py")
                                          else not u.startswith(PREFIX + "modules/"))]
        if not units:
            return None
        return {"kind": "hash", "target": rng.choice(units), "on": True}
    if roll < 0.91:
        app = rng.choice(APPS)
        if app in disk.apps and rng.random() < 0.45:
            return {"kind": "cfg", "app": app, "val": None}
        vals = [v for v in CFG_VALUES if v != disk.apps.get(app, "absent")]
        return {"kind": "cfg", "app": app, "val": copy.deepcopy(rng.choice(vals))}
    if roll < 0.95 and paths:
        cand = [p for p in visible if classify(p)["kind"] in ("top", "script")]
        if not cand:
            return None
        now_un = sorted(disk.unreadable)
        if now_un and rng.random() < 0.5:
            return {"kind": "unreadable", "path": rng.choice(now_un), "on": False}
        return {"kind": "unreadable", "path": rng.choice(cand), "on": True}
    return None


def _hidden_unit(path: str) -> str:
    """The outermost commented component of a path (file or directory)."""
    parts = path.split("/")
    for k, part in enumerate(parts):
        if part.startswith("#"):
            return "/".join(parts[: k + 1])
    return path


def render(scn: dict) -> dict:
    return Disk(scn["spec"]["files"], scn["cfg"].get("apps")).initial_files()


def normalize(scn: dict) -> dict | None:
    if not scn["spec"]["files"]:
        return None
    return scn


def simplify(scn: dict):
    for fi, f in enumerate(scn["spec"]["files"]):
        for key in ("task", "boom", "strict", "cfgmut"):
            if f.get(key):
                cand = copy.deepcopy(scn)
                cand["spec"]["files"][fi][key] = 0
                yield cand
        if f.get("cfgmut") and f.get("cfgmut_at", "load") != "load":
            cand = copy.deepcopy(scn)
            cand["spec"]["files"][fi]["cfgmut_at"] = "load"
            yield cand
        for ii, imp in enumerate(f["imports"]):
            if imp[2] != "import":
                cand = copy.deepcopy(scn)
                cand["spec"]["files"][fi]["imports"][ii][2] = "import"
                yield cand
    for oi, op in enumerate(scn["ops"]):
        if op.get("dt"):
            cand = copy.deepcopy(scn)
            cand["ops"][oi]["dt"] = 0.0
            yield cand
        if op.get("stall"):
            cand = copy.deepcopy(scn)
            cand["ops"][oi].pop("stall")
            yield cand
        if op.get("mt"):
            cand = copy.deepcopy(scn)
            cand["ops"][oi].pop("mt")
            yield cand
            if op["mt"] == "restore":
                cand = copy.deepcopy(scn)
                cand["ops"][oi]["mt"] = "back"
                yield cand
        if op["kind"] == "modify" and op.get("imports") is not None:
            cand = copy.deepcopy(scn)
            cand["ops"][oi].pop("imports")
            yield cand
        for key in ("task", "boom", "strict", "cfgmut"):
            if op["kind"] == "create" and op["file"].get(key):
                cand = copy.deepcopy(scn)
                cand["ops"][oi]["file"][key] = 0
                yield cand
        if op["kind"] == "modify" and op.get("boom"):
            cand = copy.deepcopy(scn)
            cand["ops"][oi].pop("boom")
            yield cand
        if op["kind"] == "create" and op["file"]["imports"]:
            cand = copy.deepcopy(scn)
            cand["ops"][oi]["file"]["imports"] = []
            yield cand
    apps = scn["cfg"].get("apps") or {}
    for app in sorted(apps):
        cand = copy.deepcopy(scn)
        del cand["cfg"]["apps"][app]
        yield cand
        if apps[app]:
            cand = copy.deepcopy(scn)
            cand["cfg"]["apps"][app] = {}
            yield cand
        if any(not isinstance(v, int) for v in apps[app].values()):
            cand = copy.deepcopy(scn)
            cand["cfg"]["apps"][app] = {"k": 1}
            yield cand
    for key, val in (("exec_latency_ms", [0.0, 0.0]), ("timer_late_ms", 0.0), ("cost_us", 50), ("set_order_salt", 0),
                     ("legacy", False)):
        if scn["cfg"].get(key) != val:
            cand = copy.deepcopy(scn)
            cand["cfg"][key] = val
            yield cand


def warmup() -> None:
    scn = gen(random.Random(1), "quick")
    run(scn)


# ------------------------------------------------------------------ world
class C10World(World):
    """World + (a) instance tokens for loaded files, (b) an ``open`` seam that makes chosen scripts unreadable."""

    def __init__(self, cfg, files) -> None:
        super().__init__(cfg, files)
        self.inst_seq = 0
        self.unreadable_abs: set[str] = set()

    def _newinst(self) -> int:
        self.inst_seq += 1
        return self.inst_seq

    def extra_patches(self) -> list:
        self.natives["newinst"] = self._newinst
        real_open = builtins.open
        world = self

        def fake_open(path, *args, **kwargs):
            if path in world.unreadable_abs:
                world.fault("unreadable_open")
                raise PermissionError(13, "Permission denied", path)
            return real_open(path, *args, **kwargs)

        return [patch("custom_components.pyscript.open", fake_open, create=True)]


def actual_contexts() -> list[str]:
    from custom_components.pyscript.global_ctx import GlobalContextMgr

    return sorted(c for c in GlobalContextMgr.contexts if c.split(".")[0] in ("file", "scripts", "apps", "modules"))


# ------------------------------------------------------------------ judge
class Judge:
    def __init__(self, w: World, disk: Disk) -> None:
        self.w = w
        self.disk = disk
        self.sub = "legacy" if w.cfg["legacy"] else "new"
        self.loaded: dict[str, dict] = {}     # reference state = what is really loaded (re-synchronised)
        self.cur_inst: dict[str, int] = {}    # ctx -> instance token of the context that is registered now
        self.inst: dict[int, dict] = {}       # instance -> {"ctx", "uid", "gen", "since", "until", "role", "mode"}
        self.violations: list = []
        self.pos = 0
        self.nontrivial = False
        self.dead_reported: set[int] = set()
        self.n_reloads = 0
        self.n_exec = 0
        self.n_dontcare = 0
        self.last_reload_vt = 0.0
        self.reload_times: list = []
        self.failed_before: set[str] = set()  # contexts whose latest execution did not reach the end of the file
        self.diverged = False   # a context with an undocumented name exists: outside the documented state space
        self.named = None
        self.mutated: dict[int, str] = {}     # instance -> how it has written to its pyscript.app_config so far

    def viol(self, cls: str, sig: dict, detail: str) -> None:
        self.violations.append({"class": cls, "sig": sig, "detail": detail, "t": self.w.vts()})

    def take_marks(self) -> list:
        marks = self.w.marks[self.pos:]
        self.pos = len(self.w.marks)
        for m in marks:
            if m["args"] and m["args"][0] == "cfgmut":
                uid, inst = m["args"][1], m["args"][3]
                path = self.disk.path_of(uid)
                self.mutated[inst] = (self.disk.files[path].get("cfgmut") if path else None) or "some"
        return marks

    # ---------------------------------------------------------------- reach probes computed from the reference
    def _probes(self, exp: dict, mode, label: str) -> None:
        w = self.w
        loaded = self.loaded
        must_base = exp["must_base"]
        if exp["opt_base"]:
            w.probe("optional_change")
        for ctx, reason in must_base.items():
            if reason["place"].endswith("_pkg_sibling") and reason["op"] not in ("named", "star"):
                w.probe("package_sibling_changed")
            if reason["op"] == "hash":
                w.probe("hash_rename")
            if reason["op"] == "config":
                w.probe("app_config_changed")
            if reason["op"] == "touch":
                w.probe("touch_only")
                if self.disk.files[exp["found"][ctx]["path"]]["mtime"] < loaded[ctx]["mtime"]:
                    w.probe("mtime_moved_back")
                    if any(ctx in e["imports"] for e in loaded.values()):
                        w.probe("mtime_moved_back_imported_module")
            if reason["op"] == "modify" and ctx in loaded and ctx in exp["found"] and \
                    self.disk.files[exp["found"][ctx]["path"]]["mtime"] == loaded[ctx]["mtime"]:
                w.probe("content_only_change")
            if reason["op"] == "shadow":
                w.probe("package_shadows_module")
            if reason["op"] == "unreadable":
                w.probe("unreadable_skipped")
            if reason["op"] in ("delete", "hash") and ctx in loaded:
                if reason["place"].endswith("_pkg_sibling"):
                    w.probe("deleted_package_sibling")
                if reason["place"].startswith("module_") and any(ctx in e["imports"] for e in loaded.values()):
                    w.probe("deleted_module_with_importers")
        if any(r["op"] == "unreadable" for r in exp["opt_base"].values()):
            w.probe("unreadable_skipped")
        if label == "name":
            w.probe("reload_by_name")
            other, _ = base_changes(loaded, exp["found"], self.disk, None)
            if any(c not in exp["must_changed"] for c in other):
                w.probe("name_reload_ignored_other_change")
        if label == "star":
            w.probe("reload_star")
        # diamond: some context reaches a changed module over two different direct imports
        base_mods = {c for c in must_base if c in loaded and not c.startswith(("file.", "scripts."))}
        if base_mods and label in ("default", "name"):
            reach_cache: dict[str, set] = {}

            def reach(ctx):
                if ctx not in reach_cache:
                    seen, work = {ctx}, [ctx]
                    while work:
                        for t in loaded.get(work.pop(), {}).get("imports", []):
                            if t not in seen:
                                seen.add(t)
                                work.append(t)
                    reach_cache[ctx] = seen
                return reach_cache[ctx]

            for ctx, ent in loaded.items():
                for mod in base_mods:
                    if sum(1 for t in ent["imports"] if mod in reach(t)) >= 2:
                        w.probe("diamond_import")
                        break
            for mod in base_mods:
                if mod.startswith("modules."):
                    importers = [c for c, e in loaded.items() if mod in e["imports"] and root_of(c) != root_of(mod)]
                    if importers and all(loaded[c]["kind"] == "app_pkg_sibling" for c in importers):
                        w.probe("module_only_imported_by_app_sibling")
            # some context reaches a changed module, and what it imports contains modules that import each other
            if any(mod in reach(ctx) and ctx != mod and has_cycle(loaded, ctx) for ctx in sorted(loaded)
                   for mod in sorted(base_mods)):
                w.probe("changed_module_reached_over_cycle")
            # a file of a module package changed, and some context outside the package reaches that package only
            # through imports of its submodules by their dotted names (no import of the package itself anywhere in
            # what it imports, directly or indirectly)
            for pkg in sorted({root_of(m) for m in base_mods if m.startswith("modules.")}):
                for ctx in sorted(loaded):
                    if root_of(ctx) == pkg:
                        continue
                    seen = reach(ctx)
                    if pkg not in seen and any(root_of(t) == pkg for t in seen):
                        w.probe("package_changed_reached_by_dotted_import_only")
                        break
        if any(t not in exp["found"] and t not in loaded for ent in loaded.values() for t in ent["wanted"]):
            w.probe("import_of_absent_module")

    # ---------------------------------------------------------------- one reload (or the start-up load)
    def after_load(self, mode, label: str, t_start: float) -> None:
        w = self.w
        disk = self.disk
        if self.diverged:
            self.take_marks()
            return
        self.n_reloads += 1
        self.named = mode if label == "name" else None
        exp = expectation(self.loaded, disk, mode)
        self._probes(exp, mode, label)
        found = exp["found"]
        marks = self.take_marks()
        loads = [m for m in marks if m["args"] and m["args"][0] == "load"]
        load_ok = {m["args"][3] for m in marks if m["args"] and m["args"][0] == "loadok"}  # instance tokens
        failed_any, failed_def, ok_def = exp["failed"], exp["failed_def"], exp["ok_def"]
        present = actual_contexts()
        before = self.loaded
        must_exec, may_exec = set(exp["must_exec"]), set(exp["may_exec"])
        must_changed, may_changed = exp["must_changed"], exp["may_changed"]
        if must_exec != may_exec or set(must_changed) != set(may_changed):
            self.n_dontcare += 1
        orphans = set()
        reach = reachable_from_autoload(before)
        for ctx, ent in before.items():
            if ent["kind"] not in AUTOLOAD_KINDS and ctx not in reach:
                orphans.add(ctx)
        if orphans:
            w.probe("orphan_module", len(orphans))

        taint = dotted_rel_taint(found, disk)
        if taint:
            w.probe("dotted_submodule_with_relative_import")

        def tagged(sig, ctx):
            if ctx in taint:
                sig["cause"] = "relative_import_in_dotted_submodule"
            return sig

        def reason_sig(ctx, table):
            r = table.get(ctx)
            if r is None:
                return tagged({"mode": label, "op": "imported", "change": "imported"}, ctx)
            sig = {"mode": label, "op": r["op"], "place": r["place"], "via": r["via"],
                   "change": CHANGE_GROUP.get(r["op"], r["op"])}
            if ctx in taint:
                sig["cause"] = "relative_import_in_dotted_submodule"
            elif ctx in before and "import" in r["via"].split("+") and label in ("default", "name"):
                # what the context itself imports, directly or indirectly, import by import
                seen, work = {ctx}, [ctx]
                while work:
                    for t in before.get(work.pop(), {}).get("imports", []):
                        if t not in seen:
                            seen.add(t)
                            work.append(t)
                base_roots = {root_of(b) for b in exp["must_base"]} - {None}
                if has_cycle(before, ctx):
                    sig["cause"] = "import_cycle"  # ... contains modules that import each other (run-time imports)
                elif not any(t in exp["must_base"] or root_of(t) in base_roots for t in seen):
                    # ... holds no changed file: it reaches the change only because a package it imports a file of is
                    # reloaded as a whole on behalf of another file of that package
                    sig["cause"] = "package_reloaded_for_its_import"
            return sig

        # ---- (b) what was executed
        executed: dict[str, list] = {}
        for m in loads:
            uid, gen, inst, name = m["args"][1:5]
            executed.setdefault(name, []).append(m)
            path = disk.path_of(uid)
            info = classify(path) if path else None
            if info is None:
                self.viol("C10.reexecuted_unexpectedly", {"mode": label, "place": "deleted_file"},
                          f"{label} reload executed {uid} gen {gen} as {name} but that file no longer exists")
                continue
            if info["kind"].endswith("_pkg_sibling") and any(i[0] == "rel" for i in disk.files[path]["imports"]):
                w.probe("sibling_imports_sibling")
            if any(i[0] == "abs" and "." in i[1] and want_name(info, i) in found for i in disk.files[path]["imports"]):
                w.probe("dotted_submodule_import")
            if info["hidden"]:
                self.viol("C10.reexecuted_unexpectedly", {"mode": label, "place": "hidden_" + info["kind"]},
                          f"{label} reload executed commented file {path} as {name}")
                continue
            if info["ctx"] != name:
                self.viol("C10.context_name", {"place": info["kind"]},
                          f"{path} was executed under context name {name}; the documented name is {info['ctx']}")
                self.diverged = True
                continue
            d = found.get(name)
            cur = disk.files[d["path"]] if d else None
            if cur is None or (cur["uid"], cur["gen"]) != (uid, gen):
                want = f"{cur['uid']} gen {cur['gen']} ({d['path']})" if cur else "nothing"
                self.viol("C10.wrong_generation", {"mode": label, "place": info["kind"]},
                          f"{name} executed {uid} gen {gen} from {path}; the file the documentation maps to that "
                          f"name now is {want}")
        if self.diverged:
            return
        for name in sorted(executed):
            if len(executed[name]) > 1 and name not in failed_any:
                self.viol("C10.reexecuted_unexpectedly", tagged({"mode": label, "place": "twice"}, name),
                          f"{name} was executed {len(executed[name])} times by one {label} reload")
            if name not in may_exec and classify_ctx_known(name, found, before):
                kind = (found.get(name) or before.get(name))["kind"]
                sig = {"mode": label, "place": kind}
                how = self.mutated.get(self.cur_inst.get(root_of(name) or name))  # (of its app's main file)
                if how:
                    sig["wrote_app_config"] = how  # the discarded instance had written to its pyscript.app_config
                self.viol("C10.reexecuted_unexpectedly", sig,
                          f"{label} reload re-executed {name} although nothing it depends on changed "
                          f"(changed: {_fmt(exp['must_base'])}; optional: {_fmt(exp['opt_base'])}"
                          + (f"; the app had written to its pyscript.app_config: {how}" if how else "") + ")")
        for name in sorted(executed):
            ok_real = executed[name][-1]["args"][3] in load_ok
            if name in failed_any:
                w.probe("file_failed_to_load")
                if found.get(name, {}).get("autoload") and not disk.files[found[name]["path"]].get("boom"):
                    w.probe("importer_failed_with_its_import")
            if name in ok_def and not ok_real:
                self.viol("C10.load_did_not_finish", tagged({"mode": label, "place": found[name]["kind"]}, name),
                          f"{label} reload executed {name} ({found[name]['path']}) but its top-level code did not run to "
                          f"the end although nothing in it or in what it imports fails; error log: "
                          f"{[r['msg'].strip().splitlines()[-1][:140] for r in w.logs if r['level'] == 'ERROR'][-2:]}")
            if name in failed_def and ok_real:
                raise HarnessError(f"C10 reference: {name} should fail while loading but ran to its end")
            if ok_real and name in self.failed_before:
                w.probe("failed_file_loaded_after_repair")
        # ---- (b') the configuration an executed app was given is the one the yaml configuration holds now
        seen_by = {m["args"][3]: m["args"][4] for m in marks if m["args"] and m["args"][0] == "cfgseen"}
        for name in sorted(executed):
            m = executed[name][-1]
            uid, gen, inst = m["args"][1:4]
            d = found.get(name)
            if inst not in seen_by or d is None or d["kind"] not in APP_MAIN_KINDS:
                continue
            cur = disk.files[d["path"]]
            if (cur["uid"], cur["gen"]) != (uid, gen):
                continue  # reported above
            seen = seen_by[inst]
            allowed = [w.norm(d["cfg"])]
            if label == "name" and name in before and before[name]["cfg"] is not None:
                allowed.append(w.norm(before[name]["cfg"]))  # "other changes are ignored"
            if seen in allowed or (not d["cfg"] and seen is None):
                w.probe("app_saw_its_config")
                continue
            self.viol("C10.app_config_seen", {"mode": label, "place": d["kind"]},
                      f"{label} reload executed {name} ({d['path']}) with pyscript.app_config = {seen!r}; the "
                      f"configuration of that app is {d['cfg']!r}")
        for ctx in sorted(before):
            how = self.mutated.get(self.cur_inst.get(ctx))
            if how and label == "default" and ctx not in may_changed:
                w.probe("config_writing_app_left_alone")
                if how == "nested":
                    w.probe("config_writing_app_left_alone_nested")
        for name in sorted(must_exec):
            if name not in executed:
                sig = reason_sig(name, must_changed)
                cls = cause_class("C10.not_reexecuted", sig)
                self.viol(cls, sig,
                          f"{label} reload did not execute {name} ({found[name]['path']}); it had to because of "
                          f"{_fmt({name: must_changed.get(name)})}; changed: {_fmt(exp['must_base'])}; "
                          f"loaded before: {sorted(before)}")
        self.n_exec += len(executed)

        # ---- (a) the set of contexts
        must_present = (({c for c in before if c not in may_changed} - orphans) | must_exec) - failed_any
        # (a context no loaded auto-loaded file reaches - importer gone, or left behind by a load that failed - may
        # stay or go whatever happens to its file)
        may_present = {c for c in before if c not in must_changed} | may_exec | orphans
        for ctx in present:
            if ctx in may_present:
                continue
            if ctx in executed and ctx not in may_exec:
                continue  # reported as executed unexpectedly / wrong name
            if ctx in before:
                sig = {"kind": "unexpected", **reason_sig(ctx, must_changed)}
                cls = cause_class("C10.context_set", sig)
                self.viol(cls, sig,
                          f"after {label} reload context {ctx} is still loaded; it had to be discarded because of "
                          f"{_fmt({ctx: must_changed.get(ctx)})} and nothing loads it again")
            else:
                self.viol("C10.context_set", {"kind": "unexpected", "mode": label, "place": "unknown_origin"},
                          f"after {label} reload context {ctx} exists; nothing documented creates it")
        for ctx in sorted(must_present):
            if ctx in present:
                continue
            if ctx in must_exec and ctx not in executed:
                continue  # already reported as not executed
            state = "executed" if ctx in executed else "untouched"
            kind = (found.get(ctx) or before.get(ctx))["kind"]
            self.viol("C10.context_set", tagged({"kind": "missing", "mode": label, "place": kind, "state": state}, ctx),
                      f"after {label} reload context {ctx} is not loaded; expected it to be {state} "
                      f"(changed: {_fmt(exp['must_base'])})")

        # ---- non-triviality / strict subset
        untouched_expected = [c for c in before if c not in may_changed]
        if must_exec and untouched_expected and label != "startup":
            self.nontrivial = True
            w.probe("strict_subset_reexecuted")

        # ---- re-synchronise the reference with reality
        new_loaded: dict[str, dict] = {}
        for ctx in sorted(executed):
            if executed[ctx][-1]["args"][3] in load_ok:
                self.failed_before.discard(ctx)
            else:
                self.failed_before.add(ctx)
        for ctx in present:
            if ctx in executed and executed[ctx][-1]["args"][3] not in load_ok:
                # executed but its load failed: not loaded as far as the reference goes, whatever is registered
                continue
            if ctx in executed:
                m = executed[ctx][-1]
                uid, gen, inst = m["args"][1:4]
                path = disk.path_of(uid)
                f = disk.files.get(path) if path else None
                info = classify(path) if path else None
                d = found.get(ctx)
                if f is None or info is None:
                    continue
                wanted, imports = [], []
                for imp in top_imports(f):
                    tgt = want_name(info, imp)
                    if tgt is None:
                        continue
                    wanted.append(tgt)
                    if tgt in present:
                        imports.append(tgt)
                cfg = copy.deepcopy(d["cfg"]) if d is not None and d["path"] == path else None
                new_loaded[ctx] = {"uid": uid, "gen": gen, "mtime": f["mtime"], "cfg": cfg, "path": path,
                                   "kind": info["kind"], "imports": sorted(set(imports)),
                                   "wanted": sorted(set(wanted)), "late": [list(i) for i in late_imports(f)]}
                old = self.cur_inst.get(ctx)
                if old is not None and old in self.inst:
                    self.inst[old]["until"] = t_start
                self.cur_inst[ctx] = inst
                via = (must_changed.get(ctx) or may_changed.get(ctx) or {}).get(
                    "via", "new_import" if ctx in may_exec else "unexpected")
                self.inst[inst] = {"ctx": ctx, "uid": uid, "gen": gen, "since": w.loop.vt, "until": None,
                                   "probes": 0, "loaded_in": label, "via": via}
            elif ctx in before:
                new_loaded[ctx] = before[ctx]
            # a context of unknown origin is left out of the reference (it was reported above)
        for ctx in list(self.cur_inst):
            if ctx not in new_loaded:
                old = self.cur_inst.pop(ctx)
                if old in self.inst:
                    self.inst[old]["until"] = t_start
        self.loaded = new_loaded
        if mode is None or mode == "*":
            disk.fresh.clear()

    # ---------------------------------------------------------------- imports executed at run time
    def late_state(self, ctx: str) -> str:
        """'due': the loaded source of ``ctx`` has run-time imports that are not done yet, all of loaded modules."""
        ent = self.loaded.get(ctx)
        late = (ent or {}).get("late") or []
        if self.diverged or not late or ctx not in self.cur_inst:
            return "none"
        tgts = [f"modules.{imp[1]}" for imp in late]
        if any(t not in self.loaded for t in tgts):
            return "blocked"  # (the import would have to load the module at run time: not exercised)
        return "done" if all(t in ent["imports"] for t in tgts) else "due"

    def after_late(self, ctx: str) -> None:
        w = self.w
        ent = self.loaded[ctx]
        inst = self.cur_inst[ctx]
        marks = self.take_marks()
        mine = [m for m in marks if m["args"] and m["args"][0] in ("lateok", "latefail") and m["args"][3] == inst]
        if not mine:
            return  # its triggers are dead: the probe reports that
        for m in marks:
            if m["args"] and m["args"][0] == "load":
                self.viol("C10.reexecuted_unexpectedly", {"mode": "runtime_import", "place": ent["kind"]},
                          f"the run-time import in {ctx} of modules that are loaded executed {m['args'][4]}")
        ok = {m["args"][4] for m in mine if m["args"][0] == "lateok"}
        for imp in ent["late"]:
            tgt = f"modules.{imp[1]}"
            if imp[1] not in ok:
                self.viol("C10.runtime_import_failed", {"place": ent["kind"]},
                          f"{ctx}: '{_import_stmt(imp)}' inside a function failed although {tgt} is loaded")
                continue
            w.probe("late_import_done")
            # the importer now depends on that module like on one it imported while loading
            ent["imports"] = sorted(set(ent["imports"]) | {tgt})
            ent["wanted"] = sorted(set(ent["wanted"]) | {tgt})
        if has_cycle(self.loaded, ctx):
            w.probe("import_cycle")

    # ---------------------------------------------------------------- probe event
    def after_probe(self, label: str) -> None:
        if self.diverged:
            self.take_marks()
            return
        taken = self.take_marks()
        if any(m["args"] and m["args"][0] == "cfgmut" for m in taken):
            self.w.probe("app_wrote_config_at_runtime")
        marks = [m for m in taken if m["args"] and m["args"][0] == "probe"]
        by_inst: dict[int, list] = {}
        for m in marks:
            by_inst.setdefault(m["args"][3], []).append(m)
        current = {inst: ctx for ctx, inst in self.cur_inst.items()}
        for inst in sorted(by_inst):
            got = by_inst[inst]
            rec = self.inst.get(inst)
            if inst not in current:
                state = "unknown"
                if rec is not None:
                    state = "reloaded" if rec["ctx"] in self.cur_inst else "removed"
                self.viol("C10.old_trigger_alive", {"subsystem": self.sub, "state": state},
                          f"probe after {label} reload: the trigger of {got[0]['args'][1]} gen {got[0]['args'][2]} "
                          f"(instance {inst}, context {rec['ctx'] if rec else '?'}) fired although that context "
                          f"was {state}")
                continue
            if len(got) > 1:
                self.viol("C10.trigger_dup", {"subsystem": self.sub},
                          f"probe after {label} reload: trigger of context {current[inst]} fired {len(got)} times")
            cnt = got[0]["args"][4]
            if cnt != rec["probes"]:
                self.viol("C10.untouched_state_lost", {"subsystem": self.sub},
                          f"probe after {label} reload: counter of context {current[inst]} (instance {inst}) is "
                          f"{cnt}, expected {rec['probes']} (number of probes it has seen)")
            rec["probes"] = cnt + len(got)
        for inst, ctx in sorted(current.items()):
            if inst in by_inst or inst in self.dead_reported:
                continue
            rec = self.inst[inst]
            self.dead_reported.add(inst)
            fresh = rec["since"] >= self.last_reload_vt
            role = "untouched" if not fresh else "named" if ctx == self.named else "additional"
            self.viol("C10.trigger_dead", {"subsystem": self.sub, "mode": label, "ctx": role},
                      f"probe after {label} reload: trigger of context {ctx} ({rec['uid']} gen {rec['gen']}, loaded by "
                      f"{rec['loaded_in']} reload, reached via {rec['via']}) did not fire")

    # ---------------------------------------------------------------- tasks
    def final_tasks(self) -> None:
        w = self.w
        ends = {(m["args"][1], m["args"][2], m["args"][3]) for m in w.marks if m["args"] and m["args"][0] == "tend"}
        for m in w.marks:
            if not m["args"] or m["args"][0] != "tstart":
                continue
            uid, gen, inst, dur = m["args"][1:5]
            rec = self.inst.get(inst)
            if rec is None:
                continue
            due = m["vt"] + dur
            crossed = [r for r in self.reload_times if m["vt"] < r["t0"] and r["t0"] < due]
            if crossed:
                w.probe("task_in_flight_at_reload")
            untouched = rec["until"] is None or rec["until"] > due + 0.5
            done = (uid, gen, inst) in ends
            if untouched and crossed and done and any(r["n_exec"] for r in crossed):
                w.probe("running_task_survived")
            if untouched and not done:
                self.viol("C10.task_killed", {"subsystem": self.sub},
                          f"the task started at load by {uid} gen {gen} (context {rec['ctx']}, instance {inst}) never "
                          f"finished although its context was left untouched until it was due "
                          f"({len(crossed)} reloads in between)")



def has_cycle(loaded: dict, start: str) -> bool:
    """Whether the import graph of what ``start`` imports (directly or indirectly) contains a cycle."""
    state: dict[str, int] = {}
    stack = [(start, iter(loaded.get(start, {}).get("imports", [])))]
    state[start] = 1
    while stack:
        cur, it = stack[-1]
        nxt = next(it, None)
        if nxt is None:
            state[cur] = 2
            stack.pop()
            continue
        if nxt not in loaded:
            continue
        if state.get(nxt) == 1:
            return True
        if nxt not in state:
            state[nxt] = 1
            stack.append((nxt, iter(loaded[nxt]["imports"])))
    return False


def dotted_rel_taint(found: dict, disk: Disk) -> set:
    """Contexts whose load depends on a relative import done by a package file that is imported by its dotted name.

    Seeds: a file of a module package that does relative imports of existing files and that some file outside the
    package imports by its dotted name; plus the package mates it imports, plus everything that imports any of these,
    plus everything these import in turn (load-time imports of the files on disk).  Only used to name the cause of a
    violation (signature key 'cause')."""
    wants: dict[str, set] = {}
    for ctx in sorted(found):
        d = found[ctx]
        wants[ctx] = {want_name(d, i) for i in top_imports(disk.files[d["path"]])} - {None}
    taint = set()
    for ctx in sorted(found):
        d = found[ctx]
        if d["kind"] != "module_pkg_sibling":
            continue
        if not any(root_of(t) == d["root"] and t in found for t in wants[ctx]):
            continue
        if any(ctx in wants[o] and root_of(o) != d["root"] for o in found):
            taint.add(ctx)
    work = sorted(taint)
    while work:
        cur = work.pop()
        for t in sorted(wants[cur]):
            if t in found and t not in taint and root_of(t) == root_of(cur):
                taint.add(t)
                work.append(t)
    down = set(taint)       # what these would have imported in turn is not imported either
    work = sorted(taint)
    while work:
        for t in sorted(wants[work.pop()]):
            if t in found and t not in down:
                down.add(t)
                work.append(t)
    grew = bool(taint)      # and what imports them may fail with them
    while grew:
        grew = False
        for o in sorted(found):
            if o not in taint and wants[o] & taint:
                taint.add(o)
                grew = True
    return taint | down


def cause_class(default: str, sig: dict) -> str:
    """Violations whose cause (per the reference) is the removal of a non-auto-loaded file get their own classes."""
    place, via = sig.get("place", ""), sig.get("via", "")
    if sig.get("change") == "removed" and sig.get("op") in ("delete", "hash"):
        if place.endswith("_pkg_sibling") and via != "direct":
            return "C10.deleted_sibling_not_widened"      # a package lost a sibling file: package not reloaded
        if place.endswith("_pkg_init") and via.startswith("widen"):
            return "C10.deleted_pkg_init_siblings_kept"   # a package lost its __init__.py: siblings stay loaded
        if place in ("module_file", "module_pkg_init") and via.startswith("import"):
            return "C10.deleted_module_importers_kept"    # a module was removed: its importers are not reloaded
    if sig.get("cause") == "import_cycle" and "import" in via.split("+"):
        return "C10.importer_over_cycle_kept"             # reaches the change over modules that import each other
    if sig.get("cause") == "package_reloaded_for_its_import":
        return "C10.importer_of_widened_package_kept"     # imports a file of a package that is reloaded as a whole
    return default


def classify_ctx_known(name: str, found: dict, before: dict) -> bool:
    return name in found or name in before


def _fmt(table: dict) -> str:
    parts = []
    for ctx in sorted(table):
        r = table[ctx]
        if r is None:
            parts.append(f"{ctx}: ?")
        else:
            via = f" via {r['via']}" if r.get("via") else ""
            parts.append(f"{ctx}: {r['op']} of {r['place']}{via}")
    return "{" + "; ".join(parts) + "}"


# ------------------------------------------------------------------ run
def run(scn: dict) -> dict:
    spec = scn["spec"]
    disk = Disk(spec["files"], scn["cfg"].get("apps"))
    cfg = dict(scn["cfg"])
    w = C10World(cfg, disk.initial_files())
    judge = Judge(w, disk)
    max_task = max([f.get("task", 0) for f in spec["files"]]
                   + [op["file"].get("task", 0) for op in scn["ops"] if op["kind"] == "create"] + [0])

    async def probe(label: str):
        await w.settle(0.25)
        judge.take_marks()
        w.fire("probe", {})
        await w.settle(0.25)
        judge.after_probe(label)

    async def late_phase():
        # run-time imports, one importer at a time (sequences only)
        for ctx in sorted(judge.loaded):
            if judge.late_state(ctx) != "due":
                continue
            await w.settle(0.0)
            judge.take_marks()
            w.fire(f"late_{judge.loaded[ctx]['uid']}", {})
            await w.settle(0.25)
            judge.after_late(ctx)

    async def driver(w: World):
        await w.started()
        judge.last_reload_vt = 0.0
        if not w.hass.services.has_service("pyscript", "reload"):
            judge.viol("C10.setup_failed", {}, "the integration did not finish its set-up with the generated tree "
                       f"(no pyscript.reload service); errors: {[r['msg'][:120] for r in w.logs if r['level'] == 'ERROR'][:3]}")
            return
        judge.after_load(None, "startup", w.loop.vt)
        await late_phase()
        await probe("startup")
        for op in scn["ops"]:
            if op.get("dt", 0.0) > 0:
                await w.sleep(op["dt"])
            kind = op["kind"]
            if kind == "reload":
                mode = op["mode"]
                label = "default" if mode is None else "star" if mode == "*" else "name"
                if label == "name":
                    found = discover(disk)
                    if mode not in found and mode not in judge.loaded:
                        w.probe("skipped_unknown_name")
                        continue
                w.unreadable_abs = {os.path.join(w.dir, p) for p in disk.unreadable}
                in_reload = [True]
                if op.get("stall"):
                    k, secs = op["stall"]

                    def do_stall(secs=secs, in_reload=in_reload):
                        w.loop.stall(secs)
                        w.fault("stall")
                        if in_reload[0]:
                            w.probe("stall_during_reload")

                    w.loop.at_iteration(k, do_stall)
                judge.take_marks()
                t0 = w.loop.vt
                judge.last_reload_vt = t0
                n_before = judge.n_exec
                try:
                    await w.reload(mode)
                except Exception as exc:  # pylint: disable=broad-except
                    judge.viol("C10.reload_raised", {"mode": label, "exc": type(exc).__name__},
                               f"pyscript.reload({mode!r}) raised {exc!r}")
                in_reload[0] = False
                await w.settle(0.0)
                judge.after_load(mode, label, t0)
                judge.reload_times.append({"t0": t0, "n_exec": judge.n_exec - n_before})
                await late_phase()
                await probe(label)
            else:
                restores = (op.get("mt") == "restore" and kind in ("touch", "modify") and not op.get("keep_mtime")
                            and (disk.files.get(op["path"]) or {}).get("prev_mtime") is not None)
                if not disk.apply(op, w):
                    w.probe("op_skipped")
                elif restores:
                    w.probe("mtime_restored")
                elif kind == "hash" and not op["target"].endswith(".py"):
                    w.probe("hash_dir_rename")
        await w.settle(max_task + 1.0)
        judge.final_tasks()

    w.run(driver)
    judge.violations.sort(key=lambda v: v.get("t", 0.0))
    extra = {"reloads": judge.n_reloads, "executions": judge.n_exec, "dontcare_reloads": judge.n_dontcare}
    return base_result(w, judge.violations, judge.nontrivial, extra)
