"""C07 - @state_active / @time_active / hold_off gate every trigger correctly.

Workload: functions with an event, state or time trigger plus guards: up to 4 positive/negated range()/cron()
windows (daily, wrapping midnight, now-relative, dated, same-weekday), hold_off, @state_active expressions over
unwatched guard entities and (for state triggers) the trigger variable and its .old (also compared with
thresholds inside the span of values it takes).  Event/state occurrences stay >= 0.3 s away from every window
edge (their evaluation time carries execution cost); time-trigger instants sit exactly on window end points and
1 s either side (their evaluation time is exact).  Also: a function with guards but no trigger, and direct
calls of guarded functions.

Two further ways an occurrence reaches the guards:
* combined triggers - an event/state-triggered function that also has a @time_trigger, so its event/state
  occurrences arrive while a time trigger is pending (and its time-trigger occurrences are gated too; a time
  occurrence of a state-triggered function sees the trigger variable's current value and no .old);
* delayed delivery - @state_trigger(..., state_hold=N) on the "any change" form: the change is handed to the
  guards by the hold timer N seconds later, with further changes of the variable during the period.

A third: a change of the local wall clock during the run.  22% of the runs start 1-5 minutes before the
start or the end of daylight saving time of its time zone (the naive local time pyscript works with jumps an hour
forward or back; elapsed time does not).  Window edges then lie on whole minutes before the change, after it, in
the skipped hour or further away; the time triggers are crontab lines (cron(m h * * *), the time trigger that is
documented to follow the local wall clock; also used in 15% of the ordinary runs) with instants on those minutes,
one of them usually the first one after the change; hold_off values of 20 and 75 s and occurrences of one function
a few seconds before and after the change, so that a hold-off period contains the change.

Further situations (every run draws them independently):
* dependencies of @state_active that are no state variable named in the expression: a global variable of the script
  ("flag0 and ..."), a function of the script ("flag1_is_set()"), an entity read through state.get('pyscript.g0').
  The globals are changed by a service of the script between occurrences (op "flag"), so that consecutive occurrences
  see the same entity values but another value of the expression;
* the trigger variable of a state trigger carries an attribute ("level") that changes with the value; expressions
  use pyscript.tN.level / pyscript.tN.old.level (the attribute of the triggering value and of its .old);
* a state-triggered function that also has an @event_trigger (its event occurrences see the trigger variable's
  current value and no .old);
* sunrise / sunset window end points (plain day / night, or moved by an offset onto whole seconds inside the run;
  only in the time zone of the simulated location): pyscript looks them up in an executor job, so the guard
  evaluation suspends; such runs have an executor latency of up to 0.5 / 5 / 20 ms;
* bursts: 2-4 occurrences of one function in the same instant (the driver does not yield between the stimuli):
  changes of the trigger variable, events of the event trigger(s), or both in turn.  One run in eight ("focus") is
  laid out for the interleaving: function f0 has two different triggers, hold_off, a sunrise/sunset window, executor
  latency > 0 and at least two such bursts.

Four constructs are generated in half of the runs only (spec["steer"] false), because the unchanged code deviates
on them (each has its own violation class, see the end of this text):
* @state_active expressions whose value is a number, not a bool: int(pyscript.g0) alone or below and/or
  (documented: "If it evaluates to False (or zero), the trigger is ignored");
* @time_active(hold_off=N) written above @state_active instead of below it;
* two @event_trigger decorators on one function (documented: "Multiple trigger decorators of the same type can be
  added to a single function"), the occurrences of both share the guards and the hold-off;
* @time_trigger(..., "shutdown"): the script is reloaded at the end of the run, which is one more occurrence of
  the time trigger (wall-clock time of the reload, current guard values, no .old).

Oracle: sim.calendar window/crontab matcher + "any positive and no negative"; hold_off against the last
accepted occurrence; expected run / no-run per occurrence.  With state_hold the occurrence time is the end of
the period, the trigger variable and its .old are those of the change that started the period, other entities
are read at the end of the period (docs: "evaluated after the state_hold period, but with the initial trigger
variable value"); changes during the period are no occurrences.  The occurrence time that is matched against the
windows is the local wall-clock time of the occurrence (for a time trigger: the local time it denotes); hold_off
counts elapsed seconds between occurrences, whatever the wall clock was set to in between; occurrences are
ordered by elapsed time.

Same-instant occurrences and hold_off: which of them is "the first" is not defined, so of those that pass the other
guards exactly one must run (none if an earlier hold-off period is still running), whichever it is.  The triggering
values of each member of a burst are its own (value, .old and attributes of that change).

Violation classes of these situations (signature: subsystem only): C07.hold_off_same_instant_occurrences (more than
one of the same-instant occurrences ran; "triggers": same / different trigger decorators),
C07.state_active_attribute_not_of_triggering_value (the verdict is the one the attribute of a later change gives),
C07.state_active_builtin_function_not_callable (the verdict is the one a raising state.get() gives).

Violation classes for the constructs above: C07.state_active_falsy_value (ran although the expression is 0),
C07.hold_off_started_by_rejected_occurrence (an occurrence that passes every guard did not run within N seconds
of one that @state_active rejected), C07.hold_off_not_shared_between_triggers (ran within N seconds of an
occurrence accepted through the function's other trigger), C07.shutdown_ran_unguarded (the shutdown occurrence
ran although a guard rejects it).
"""

from __future__ import annotations

import copy
import datetime as dt
import random

from .. import calendar as C
from .. import expr as X
from ..common import base_result, gen_cfg
from ..world import World

PROPERTY = "C07"
LEVEL = "exploration"
RULE = (
    "seeded generation of 1-3 guarded functions (event/state/time trigger, 30% of the event/state ones combined "
    "with a @time_trigger, 40% of the state ones with state_hold; 0-4 positive/negated range()/cron() "
    "windows; hold_off; @state_active) and <=40 timed occurrences over ~8 simulated minutes incl. time-trigger "
    "instants (once(), 15% cron()) exactly on window end points; 22% of the runs (a quarter of those that are no "
    "'focus' runs, see below) cross a daylight-saving change of their time zone (forward 2:1 back) 1-5 minutes "
    "after the start, with window edges around/inside the skipped "
    "hour, cron() time triggers before and after the change, hold_off 20/75 s and occurrences of one function "
    "seconds before and after the change; in half of the runs (steer coin) also: number-valued @state_active "
    "expressions, @time_active above @state_active, two @event_trigger decorators on one function, a 'shutdown' "
    "time trigger with a reload at the end; further, drawn independently: 30% of the functions have a @state_active "
    "term that names no state variable (script global / script function / state.get(), the globals toggled by a "
    "service between occurrences), 50% of the state triggers carry an attribute used as pyscript.tN.level / "
    ".old.level, 25% of the state-triggered functions also have an @event_trigger, 22% of the windows in US/Pacific "
    "runs have sunrise/sunset end points (then executor latency <= 0.5/5/20 ms in 75%), 40% of the runs contain 1-3 "
    "bursts of 2-4 same-instant occurrences of one function (functions with an attribute drawn 3x as often); 12.5% 'focus' runs: f0 with two different triggers + "
    "hold_off + sunrise/sunset window + executor latency + >= 2 bursts in which its triggers take turns; "
    "distinct = scenario digest; non-trivial = at least one accepted and one rejected occurrence"
)
ASSUMPTIONS = [
    "event/state occurrences are kept >= 0.3 s away from window edges and hold_off boundaries; time-trigger "
    "occurrences are evaluated at their exact trigger time (documented: trigger_time is the exact datetime)",
    "weekday windows start and end on the same weekday (what range(fri 22:00, 2:00) or range(sat, sun) denote is not "
    "documented); offsets never move a window end point to another day (range(22:00 + 3h, 6:00) is not documented)",
    "sunrise/sunset are those of the astral library for the location of the simulated Home Assistant (environment), "
    "truncated to the second; they are generated in that location's time zone only",
    "same-instant occurrences of one function (no loop pass between the stimuli) with hold_off: the order among them "
    "is not defined - exactly one of those that pass the other guards runs; if one of them is don't-care or a "
    "rejected one ran, no hold_off verdict is given for that group",
    "an event or time occurrence of a state-triggered function reads the trigger variable's current value: don't-care "
    "if the variable changes within 0.3 s of it and the expression uses it",
    "script globals change (service call) >= 0.4 s away from any occurrence; state.get('pyscript.gN') reads the "
    "current value of an existing entity",
    "attributes belong to the triggering value: pyscript.tN.level is the attribute the variable had in the change that "
    "is the occurrence (with state_hold: the change that started the period), pyscript.tN.old.level the one before",
    "on a day with a wall-clock change: now-relative windows are not generated (whether 'now + 5 min' means elapsed "
    "or wall-clock time is not documented); time triggers are cron(m h * * *) lines for wall-clock minutes that "
    "exist exactly once during the run (none after the change on a day with a repeated hour); event/state "
    "occurrences stay >= 0.5 s away from the change; 'N seconds after the last accepted one' (hold_off) is elapsed "
    "time, the occurrence time matched against range()/cron() is the naive local wall-clock time",
    "guard entities change >= 0.4 s away from any occurrence (>= 0.2 s from the end of a state_hold period), so "
    "'current value' is unambiguous",
    "with hold_off, 'last successful' means an occurrence that passed every guard and ran",
    "state_hold is used on the 'any change' form only (documented: it simply delays the trigger; the period is not "
    "restarted by later changes, the arguments and the trigger variable seen by the guards are those of the first "
    "change); the occurrence time of a held change is the end of the period; a change within 0.1 s of the end of a "
    "period makes the rest of that function's occurrences don't-care",
    "in a combined trigger the occurrences of both triggers share the function's guards and its hold_off; the same "
    "holds for two triggers of the same type on one function",
    "the order in which @state_active and @time_active are written does not matter: an occurrence that any guard "
    "rejects is not an accepted one and starts no hold-off period",
    "a 'shutdown' time trigger is an occurrence like any other: it is gated by the guards evaluated at the time of "
    "the reload (the documentation does not exempt it; the default subsystem gates it)",
]
TIERS = {
    "quick": {"runs": 1800, "chunk": 60},
    "thorough": {"runs": 50000, "chunk": 250},
}
REACH_PROBES = ["occurrence_on_window_end", "hold_off_rejected", "negated_window_rejected", "positive_and_negative_mixed",
                "wrapping_window", "state_active_rejected", "state_active_old_used", "guard_without_trigger",
                "direct_call_of_guarded", "cron_window", "several_negated",
                "combined_trigger", "combined_first_after_window_edge",
                "state_hold_occurrence", "state_hold_absorbed_change", "state_hold_guard_on_trigger_values",
                "cron_time_trigger", "occurrence_after_clock_forward", "occurrence_after_clock_back",
                "time_trigger_first_after_clock_change", "hold_off_rejected_across_clock_change",
                "hold_off_over_across_clock_change", "window_edge_in_skipped_hour",
                "state_active_falsy_non_bool", "state_active_rejected_below_hold_off",
                "hold_off_other_trigger_of_same_type", "shutdown_occurrence",
                "state_hold_across_clock_change",
                "state_active_non_entity_dependency", "only_non_entity_dependency_changed",
                "sun_window", "state_and_event_trigger", "burst_occurrence", "burst_of_two_triggers",
                "burst_of_two_triggers_with_hold_off", "burst_of_two_triggers_hold_off_suspending_guard",
                "hold_off_decides_within_burst", "trigger_attribute_changed_again_before_evaluation"]
SHRINK_LISTS = [["ops"], ["spec", "funcs"], ["spec", "funcs", "*", "windows"]]


# ------------------------------------------------------------------ @state_active expressions
# The shared grammar (sim.expr) only builds expressions whose value is a bool.  @state_active takes any expression and
# is documented to ignore the trigger when it "evaluates to False (or zero)": ["intval", ref] prints as int(ref) and
# has that integer as its value (int() of a non-number raises = logged, treated as false), also below and/or/not.
def a_src(node: list) -> str:
    kind = node[0]
    if kind == "intval":
        return f"int({X.ref_src(node[1])})"
    if kind == "glob":
        return node[1]
    if kind == "call":
        return f"{node[1]}_is_set()"
    if kind == "sget":
        return f"state.get({node[1]!r}) {node[2]} {node[3]!r}"
    if kind in ("and", "or"):
        return f"({a_src(node[1])} {kind} {a_src(node[2])})"
    if kind == "not":
        return f"(not {a_src(node[1])})"
    return X.to_src(node)


def a_refs(node: list, out: list | None = None) -> list:
    if out is None:
        out = []
    kind = node[0]
    if kind == "intval":
        out.append(node[1])
    elif kind in ("glob", "call", "sget"):
        pass  # no state variable is named
    elif kind in ("and", "or"):
        a_refs(node[1], out)
        a_refs(node[2], out)
    elif kind == "not":
        a_refs(node[1], out)
    else:
        X.refs(node, out)
    return out


def a_eval(node: list, env):
    """The Python value of the expression on the model values; raises X.EvalError where the real one raises."""
    kind = node[0]
    if kind == "intval":
        val = env(node[1][0], node[1][1])
        try:
            return int(None if val is None else val[0])
        except (TypeError, ValueError) as exc:
            raise X.EvalError(type(exc).__name__) from exc
    if kind in ("glob", "call"):
        return env("glob", node[1])
    if kind == "sget":
        val = env("sget", node[1])
        if val is None:
            raise X.EvalError("NameError")
        return X._REL[node[2]](val[0], node[3])  # pylint: disable=protected-access
    if kind == "and":
        left = a_eval(node[1], env)
        return a_eval(node[2], env) if left else left
    if kind == "or":
        left = a_eval(node[1], env)
        return left if left else a_eval(node[2], env)
    if kind == "not":
        return not a_eval(node[1], env)
    return X.evaluate(node, env)


def a_deps(node: list | None, out: list | None = None) -> list:
    """What the expression depends on besides the state variables it names: [kind, name] of script globals
    ("glob"), script functions ("call") and entities read through state.get() ("sget")."""
    if out is None:
        out = []
    if node is None:
        return out
    kind = node[0]
    if kind in ("glob", "call", "sget"):
        out.append([kind, node[1]])
    elif kind in ("and", "or"):
        a_deps(node[1], out)
        a_deps(node[2], out)
    elif kind == "not":
        a_deps(node[1], out)
    return out


FLAGS = ["flag0", "flag1"]


def sun_local(tzname: str):
    """sunrise/sunset of a day as naive local time: astral at the location of the simulated Home Assistant (the
    harness location of pytest_homeassistant_custom_component; environment, as in C06)."""
    import zoneinfo

    from astral import LocationInfo
    from astral.location import Location

    loc = Location(LocationInfo("sim", "sim", tzname, 32.87336, -117.22743))
    tz = zoneinfo.ZoneInfo(tzname)

    def sun(kind, day):
        try:
            val = loc.sunrise(day) if kind == "sunrise" else loc.sunset(day)
        except Exception:  # pylint: disable=broad-except
            return None
        return val.astimezone(tz).replace(tzinfo=None)

    return sun


def _edge_at(end: dict, day: dt.date, sun) -> dt.datetime | None:
    """The naive local time a dateless / dated / weekday window end point denotes on ``day`` (None: now-relative, or
    no sunrise/sunset that day)."""
    if end["date"]["k"] == "now":
        return None
    t = C._time_on_day(end["time"], day, sun)  # pylint: disable=protected-access
    return None if t is None else t + dt.timedelta(seconds=end.get("off", 0))


def _hms(t: dt.datetime) -> dict:
    return {"k": "hms", "h": t.hour, "m": t.minute, "s": t.second}


def _gen_window_sun(rng: random.Random, base: dt.datetime, sun) -> dict | None:
    """A window with sunrise / sunset end points (looking them up makes the guard suspend: pyscript asks the
    executor): the plain day or night, or end points moved by an offset onto whole seconds within the run."""
    day = base.date()
    ref = {kind: sun(kind, day) for kind in ("sunrise", "sunset")}
    if ref["sunrise"] is None or ref["sunset"] is None:
        return None
    a = base + dt.timedelta(seconds=rng.choice([30, 60, 90, 120, 150, 200]))
    b = a + dt.timedelta(seconds=rng.choice([20, 45, 60, 120, 180]))
    if b.date() != day:
        return None
    none = {"k": "none"}

    def sun_edge(target):
        kind = rng.choice(["sunrise", "sunset"])
        return {"date": none, "time": {"k": kind}, "off": int((target - ref[kind].replace(microsecond=0)).total_seconds())}

    form = rng.random()
    if form < 0.3:
        start = {"date": none, "time": {"k": "sunrise"}, "off": rng.choice([0, 0, 900, -1200])}
        end = {"date": none, "time": {"k": "sunset"}, "off": rng.choice([0, 0, 900, -1200])}
        if rng.random() < 0.5:
            start, end = end, start  # the night: wraps midnight
    elif form < 0.7:
        start, end = sun_edge(a), sun_edge(b)
    elif form < 0.85:
        start, end = sun_edge(a), {"date": none, "time": _hms(b), "off": 0}
    else:
        start, end = {"date": none, "time": _hms(a), "off": 0}, sun_edge(b)
    return {"type": "range", "start": start, "end": end, "neg": rng.random() < 0.35}


def _has_sun(windows: list) -> bool:
    return any(win["type"] == "range" and win[key]["time"].get("k") in ("sunrise", "sunset")
               for win in windows for key in ("start", "end"))


def _gen_window(rng: random.Random, base: dt.datetime, sun=None) -> dict:
    """A window whose edges are whole seconds within the ~8 simulated minutes after ``base``."""
    if sun is not None and rng.random() < 0.22:
        spec = _gen_window_sun(rng, base, sun)
        if spec is not None:
            return spec
    a = base + dt.timedelta(seconds=rng.choice([30, 60, 90, 120, 150, 200]))
    b = a + dt.timedelta(seconds=rng.choice([20, 45, 60, 120, 180]))
    neg = rng.random() < 0.35
    roll = rng.random()
    none = {"k": "none"}
    if roll < 0.35:
        spec = {"type": "range", "start": {"date": none, "time": _hms(a), "off": 0}, "end": {"date": none, "time": _hms(b), "off": 0}}
    elif roll < 0.5:
        # wraps midnight: start later than end
        if rng.random() < 0.5:
            spec = {"type": "range", "start": {"date": none, "time": _hms(a), "off": 0},
                    "end": {"date": none, "time": _hms(base - dt.timedelta(hours=rng.randint(1, 3))), "off": 0}}
        else:
            spec = {"type": "range", "start": {"date": none, "time": _hms(base + dt.timedelta(hours=rng.randint(2, 5))), "off": 0},
                    "end": {"date": none, "time": _hms(b), "off": 0}}
    elif roll < 0.65:
        off_a = rng.choice([30, 60, 100])
        spec = {"type": "range", "start": {"date": {"k": "now"}, "time": none, "off": off_a},
                "end": {"date": {"k": "now"}, "time": none, "off": off_a + rng.choice([30, 90, 200])}}
    elif roll < 0.75:
        spec = {"type": "range",
                "start": {"date": {"k": "full", "y": a.year, "m": a.month, "d": a.day}, "time": _hms(a), "off": 0},
                "end": {"date": {"k": "full", "y": b.year, "m": b.month, "d": b.day}, "time": _hms(b), "off": 0}}
    elif roll < 0.82 and a.date() == b.date():
        dow = a.isoweekday() % 7 if rng.random() < 0.7 else (a.isoweekday() + 2) % 7
        spec = {"type": "range", "start": {"date": {"k": "dow", "dow": dow}, "time": _hms(a), "off": 0},
                "end": {"date": {"k": "dow", "dow": dow}, "time": _hms(b), "off": 0}}
    else:
        mins = sorted({(base + dt.timedelta(minutes=k)).minute for k in rng.sample(range(0, 9), rng.randint(1, 4))})
        form = rng.random()
        if form < 0.5:
            expr = f"{','.join(map(str, mins))} * * * *"
        elif form < 0.8:
            expr = "*/2 * * * *"
        else:
            expr = f"* {base.hour} * * *"
        spec = {"type": "cron", "expr": expr}
    spec["neg"] = neg
    return spec


# Days on which the local wall clock is stepped (UTC instant of the change): forward = an hour of wall time is
# skipped (01:59:59 -> 03:00:00), back = an hour is repeated.  A quarter of the runs is laid across such an instant.
CLOCK_CHANGES = {
    "US/Pacific": {"forward": "2024-03-10T10:00:00", "back": "2024-11-03T09:00:00"},
    "Europe/Berlin": {"forward": "2024-03-31T01:00:00", "back": "2024-10-27T01:00:00"},
    "Australia/Sydney": {"forward": "2024-10-05T16:00:00", "back": "2024-04-06T16:00:00"},
}


def _change_utc(dst: dict) -> dt.datetime:
    return dt.datetime.fromisoformat(dst["utc"]).replace(tzinfo=C.UTC)


def _minute_marks(zone: C.Zone, base: dt.datetime, dst: dict | None, horizon: float = 460.0) -> list:
    """[(seconds after base, naive local wall time)] of the whole wall-clock minutes the run passes through."""
    base_utc = zone.to_utc(base)
    first = 60 - base.second if base.second else 0
    out = []
    off = first
    while off < horizon:
        out.append((float(off), zone.to_local(base_utc + dt.timedelta(seconds=off))))
        off += 60
    return out


def _gen_window_change(rng: random.Random, base: dt.datetime, zone: C.Zone, dst: dict) -> dict:
    """A window for a run laid across a wall-clock change: edges on (mostly) whole minutes before the change,
    after it, in the skipped hour, or further away; daily (also wrapping), dated, same-weekday, crontab."""
    marks = [loc for _off, loc in _minute_marks(zone, base, dst)]
    change_local = zone.to_local(_change_utc(dst))  # first wall time after the change
    before = [m for off, m in _minute_marks(zone, base, dst) if off < dst["at"]]
    after = [m for off, m in _minute_marks(zone, base, dst) if off >= dst["at"]]
    skipped = []
    if dst["dir"] == "forward":
        gap0 = change_local - dt.timedelta(hours=1)
        skipped = [gap0 + dt.timedelta(minutes=k) for k in (0, 1, 15, 30, 59)]  # wall times that do not exist that day
    far = [marks[0] - dt.timedelta(minutes=rng.choice([30, 60, 90])), marks[-1] + dt.timedelta(minutes=rng.choice([30, 60, 90]))]
    pool = marks + skipped + far
    neg = rng.random() < 0.35
    roll = rng.random()
    none = {"k": "none"}

    def edge(t):
        tm = _hms(t)
        tm["s"] = rng.choice([0, 0, 0, 30])
        return tm

    a, b = sorted(rng.sample(pool, 2))
    if rng.random() < 0.5 and before and after:
        # one edge on either side of the change (in wall-clock terms)
        a, b = sorted([rng.choice(before + skipped), rng.choice(after)])
    if roll < 0.55:
        if rng.random() < 0.25:
            a, b = b, a  # wraps midnight
        spec = {"type": "range", "start": {"date": none, "time": edge(a), "off": 0}, "end": {"date": none, "time": edge(b), "off": 0}}
    elif roll < 0.67:
        spec = {"type": "range",
                "start": {"date": {"k": "full", "y": a.year, "m": a.month, "d": a.day}, "time": edge(a), "off": 0},
                "end": {"date": {"k": "full", "y": b.year, "m": b.month, "d": b.day}, "time": edge(b), "off": 0}}
    elif roll < 0.75 and a.date() == b.date():
        dow = a.isoweekday() % 7 if rng.random() < 0.7 else (a.isoweekday() + 2) % 7
        spec = {"type": "range", "start": {"date": {"k": "dow", "dow": dow}, "time": edge(a), "off": 0},
                "end": {"date": {"k": "dow", "dow": dow}, "time": edge(b), "off": 0}}
    else:
        form = rng.random()
        if form < 0.5:
            mins = sorted({m.minute for m in rng.sample(marks, min(len(marks), rng.randint(1, 4)))})
            expr = f"{','.join(map(str, mins))} * * * *"
        elif form < 0.65:
            expr = "*/2 * * * *"
        else:
            # the hour before the change, the hour after it, or (forward) the skipped hour
            hours = sorted({marks[0].hour, marks[-1].hour, (change_local - dt.timedelta(hours=1)).hour})
            expr = f"* {rng.choice(hours)} * * *"
        spec = {"type": "cron", "expr": expr}
    spec["neg"] = neg
    return spec


def _gen_instants_minutes(rng: random.Random, windows: list, base: dt.datetime, zone: C.Zone, dst: dict | None,
                          sun=None) -> list:
    """Time-trigger instants for the crontab form: whole wall-clock minutes of the run - those on window end
    points and one minute either side, plus a few others.  On a day with a repeated hour only minutes before the
    change are used (which of the two passes through a repeated minute crontab means is not this property's)."""
    usable = {}
    for off, loc in _minute_marks(zone, base, dst):
        if off <= 5 or (dst and dst["dir"] == "back" and off >= dst["at"]):
            continue
        usable[loc] = off
    insts = set()
    for win in windows:
        if win["type"] == "range" and win["start"]["date"]["k"] in ("none", "full", "dow"):
            for key in ("start", "end"):
                e = _edge_at(win[key], base.date(), sun)
                if e is None:
                    continue
                e = e.replace(second=0, microsecond=0)
                for d in (-1, 0, 1):
                    t = e + dt.timedelta(minutes=d)
                    if t in usable and rng.random() < 0.7:
                        insts.add(t)
    pool = sorted(usable)
    for t in rng.sample(pool, min(len(pool), rng.randint(1, 3))):
        insts.add(t)
    if dst and dst["dir"] == "forward":
        first_after = [t for t in pool if usable[t] >= dst["at"]]
        if first_after and rng.random() < 0.7:
            insts.add(rng.choice(first_after[:2]))  # the change lies between two occurrences of the trigger
    return [[t.hour, t.minute, 0] for t in sorted(insts, key=lambda t: usable[t])][:8]


# state_hold periods: a change on the x.5 s grid is delivered at x.7 s, 0.2 s clear of every other stimulus and
# 0.3 s clear of the whole-second window edges
STATE_HOLDS = [1.2, 2.2, 4.2]


def _gen_instants(rng: random.Random, windows: list, base: dt.datetime, sun=None) -> list:
    """Time-trigger instants exactly on window end points and one second either side, plus a few others."""
    edges = []
    for win in windows:
        if win["type"] == "range" and win["start"]["date"]["k"] in ("none", "full", "dow"):
            for key in ("start", "end"):
                edge = _edge_at(win[key], base.date(), sun)
                if edge is not None:
                    edges.append(edge.replace(microsecond=0))
    insts = set()
    for e in edges:
        for d in (-1, 0, 1):
            t = e + dt.timedelta(seconds=d)
            if base + dt.timedelta(seconds=5) < t < base + dt.timedelta(seconds=460):
                insts.add(t)
    for _ in range(rng.randint(1, 3)):
        insts.add(base + dt.timedelta(seconds=rng.randint(10, 440)))
    return [[t.hour, t.minute, t.second] for t in sorted(insts)][:8]


def window_src(win: dict) -> str:
    if win["type"] == "cron":
        return ("not " if win.get("neg") else "") + f"cron({win['expr']})"
    return C.spec_src(win)


def gen(rng: random.Random, tier: str) -> dict:
    cfg = gen_cfg(rng)
    cfg["drift"] = 0.0
    cfg["exec_latency_ms"] = [0.0, 0.0]
    dst = None
    # one run in eight is about interleaving: a function with two different triggers, hold_off and a guard that
    # suspends (sunrise / sunset window, executor latency > 0), and same-instant occurrences of both triggers
    focus = rng.random() < 0.125
    if focus:
        cfg["tz"] = "US/Pacific"
    elif rng.random() < 0.25:
        # the run is laid across a change of the local wall clock (start / end of daylight saving time)
        cfg["tz"] = rng.choice(sorted(CLOCK_CHANGES))
        dst = {"dir": rng.choice(["forward", "forward", "back"])}
        dst["utc"] = CLOCK_CHANGES[cfg["tz"]][dst["dir"]]
        lead = rng.choice([68, 127, 185, 246, 304]) + rng.choice([0.0, 0.25, 0.5])
        cfg["epoch_utc"] = (dt.datetime.fromisoformat(dst["utc"]) - dt.timedelta(seconds=lead)).strftime("%Y-%m-%dT%H:%M:%S.%f")
    zone = C.Zone(cfg["tz"])
    local0 = zone.to_local(dt.datetime.fromisoformat(cfg["epoch_utc"]).replace(tzinfo=C.UTC))
    base = local0.replace(microsecond=0) + dt.timedelta(seconds=4)
    if dst:
        dst["at"] = (_change_utc(dst) - zone.to_utc(base)).total_seconds()  # whole seconds after ``base``
    # half of the runs stay clear of three constructs on which the unchanged code is known to deviate (see the
    # C07.state_active_falsy_value / hold_off_started_by_rejected_occurrence / hold_off_not_shared classes)
    steer = rng.random() < 0.5
    # sunrise / sunset belong to the location of the simulated Home Assistant (San Diego): only in its own time zone
    sun = sun_local(cfg["tz"]) if cfg["tz"] == "US/Pacific" and not dst else None
    funcs = []
    for fi in range(rng.choice([1, 2, 2, 3])):
        trig = rng.choice(["event", "event", "state", "time"])
        n_win = rng.choice([0, 1, 1, 2, 3, 4])
        if dst:
            windows = [_gen_window_change(rng, base, zone, dst) for _ in range(n_win)]
        else:
            windows = [_gen_window(rng, base, sun) for _ in range(n_win)]
        if focus and fi == 0:
            trig = rng.choice(["state", "state", "event"])
            first = _gen_window_sun(rng, base, sun)
            if first is not None:
                first["neg"] = rng.random() < 0.15
                windows = [first] + windows[:rng.choice([0, 0, 1, 2])]
        func = {"name": f"f{fi}", "trig": trig, "windows": windows,
                "hold_off": rng.choice([None, None, None, 1.2, 3.3, 0, 20.2]) if trig != "time" else None,
                "active": None, "time_active": bool(windows) or rng.random() < 0.3,
                "also_time": False, "state_hold": None, "tt_form": "once"}
        if focus and fi == 0:
            func["hold_off"] = rng.choice([1.2, 3.3, 20.2])
            func["time_active"] = True
        if dst and trig != "time" and rng.random() < 0.6:
            # longer hold-offs: one that was started before the wall clock changed is still running after it
            func["hold_off"] = rng.choice([3.3, 20.2, 20.2, 75.2])
            func["time_active"] = True
        # combined triggers: the same function also has a @time_trigger, so its event/state occurrences arrive
        # while a time trigger is pending
        if trig != "time" and rng.random() < 0.3:
            func["also_time"] = True
        # delayed delivery: the state occurrence is handed over by the state_hold timer, not by the change itself
        if trig == "state" and rng.random() < 0.4 and not (dst and steer):
            # (a state_hold period that contains a change of the wall clock: in half of the runs only, see
            # C07.state_hold_across_clock_change)
            func["state_hold"] = rng.choice(STATE_HOLDS)
        if trig == "state" and (rng.random() < 0.25 or (focus and fi == 0)):
            func["also_event"] = True  # the state-triggered function also has an @event_trigger
        if trig == "state" and rng.random() < 0.5:
            func["attrs"] = True  # the trigger variable carries an attribute ("level") that changes with it
        if rng.random() < (0.65 if func["state_hold"] or func.get("attrs") else 0.4):
            ents = ["pyscript.g0", "pyscript.g1"]
            if trig == "state":
                func["active"] = X.gen_expr(rng, ents + [f"pyscript.t{fi}"], ["level"] if func.get("attrs") else [], depth=1,
                                            allow_old=True, allow_raise=True)
                if func.get("attrs") and rng.random() < 0.7:
                    # the attribute of the triggering value / of its .old
                    atom = ["cmp", [rng.choice(["attr", "attr", "oldattr"]), f"pyscript.t{fi}", "level"], rng.choice(["==", "!="]),
                            rng.choice(X.ATTR_VALUES)]
                    func["active"] = rng.choice([atom, ["and", func["active"], atom], ["or", atom, func["active"]]])
                if rng.random() < 0.5:
                    # the trigger variable takes the values 1..~45: compare it / its .old with a threshold in that span
                    atom = ["int", [rng.choice(["v", "old"]), f"pyscript.t{fi}"], rng.choice(["<", "<=", ">", ">="]),
                            rng.choice([4, 9, 16, 25])]
                    func["active"] = rng.choice([atom, ["and", func["active"], atom], ["or", atom, func["active"]]])
            else:
                func["active"] = X.gen_expr(rng, ents, [], depth=1, allow_old=False, allow_raise=True)
            if not steer and rng.random() < 0.3:
                # an expression whose value is a number, not a bool: int(pyscript.g0) is 0 / 1 / raises
                ref = [rng.choice(["v", "v", "old"]) if trig == "state" else "v", rng.choice(ents + ([f"pyscript.t{fi}"] if trig == "state" else []))]
                atom = ["intval", ref]
                func["active"] = rng.choice([atom, ["and", func["active"], atom], ["or", atom, func["active"]]])
        if rng.random() < 0.3:
            # the expression depends on something that is no state variable named in it: a global variable of the
            # script, a function of the script, an entity read through state.get()
            kind = rng.choice(["glob", "glob", "call", "sget"])
            if kind == "sget":
                atom = ["sget", rng.choice(["pyscript.g0", "pyscript.g1"]), rng.choice(["==", "!="]), rng.choice(["0", "1"])]
            else:
                atom = [kind, "flag0" if kind == "glob" else "flag1"]
            if rng.random() < 0.3:
                atom = ["not", atom]
            if func["active"] is None:
                func["active"] = atom
            else:
                func["active"] = rng.choice([["and", atom, func["active"]], ["and", func["active"], atom], ["or", atom, func["active"]]])
        if not func["time_active"]:
            func["hold_off"] = None
        if not steer and func["active"] is not None and func["hold_off"] and rng.random() < 0.5:
            func["time_active_first"] = True  # @time_active written above @state_active
        if not steer and trig == "event" and (rng.random() < 0.3 or (focus and fi == 0)):
            func["event_types"] = 2  # two @event_trigger decorators on the one function
        if trig == "time" or func["also_time"]:
            # the instants are given as once(h:m:s), or (whole minutes) as crontab lines; across a wall-clock change
            # always the latter: cron() is the time trigger that is documented to follow the local wall clock
            if dst or rng.random() < 0.15:
                func["tt_form"] = "cron"
                func["instants"] = _gen_instants_minutes(rng, windows, base, zone, dst, sun)
            else:
                func["instants"] = _gen_instants(rng, windows, base, sun)
            if not steer and func["instants"] and rng.random() < 0.4:
                func["shutdown"] = True  # @time_trigger(..., "shutdown"): one more occurrence when the script is reloaded
            if not func["instants"]:
                # no usable minute (the wall clock is stepped back a minute after the start): no time trigger
                func["also_time"] = False
                if trig == "time":
                    func["trig"] = "event"
        funcs.append(func)
    spec = {"funcs": funcs, "no_trigger_func": rng.random() < 0.25, "base": base.isoformat(), "dst": dst, "steer": steer, "focus": focus}
    if any(_has_sun(f["windows"]) for f in funcs) and rng.random() < (0.9 if focus else 0.75):
        # looking up sunrise / sunset is an executor job: it takes a while, the guard evaluation is suspended meanwhile
        cfg["exec_latency_ms"] = [0.0, rng.choice([0.5, 5.0, 20.0])]
    flags = sorted({name for f in funcs for kind, name in a_deps(f["active"]) if kind in ("glob", "call")})
    flag_val = {name: False for name in flags}
    # occurrences on a 0.5 s grid offset by .5 from the whole-second edges
    ops = []
    k = 0
    sid = 0
    direct = rng.random() < 0.3

    def occurrence(func, t_off, sid, nth=None):
        """An occurrence of the function's event / state trigger (``nth``: position in a burst - the triggers of a
        function with two of them take turns)."""
        turn = None if nth is None else nth % 2 == 1
        if func["trig"] == "event" or (func.get("also_event") and (rng.random() < 0.4 if turn is None else turn)):
            second = func.get("event_types", 1) > 1 and (rng.random() < 0.5 if turn is None else turn)
            return {"t": t_off, "kind": "fire", "type": f"ev_{func['name']}" + ("_b" if second else ""), "data": {"id": sid}}
        op = {"t": t_off, "kind": "set", "e": f"pyscript.t{func['name'][1:]}", "s": str(sid)}
        if func.get("attrs"):
            op["a"] = {"level": rng.choice(X.ATTR_VALUES)}
        return op

    while True:
        k += rng.choice([1, 1, 2, 3, 5, 9, 17, 31])
        if k > 470:
            break
        t_off = k + 0.5
        roll = rng.random()
        sid += 1
        if roll < 0.15:
            ops.append({"t": t_off, "kind": "set", "e": rng.choice(["pyscript.g0", "pyscript.g1"]), "s": rng.choice(["0", "1", "x"])})
        elif roll < 0.2 and direct:
            ops.append({"t": t_off, "kind": "direct", "fn": rng.randrange(len(funcs)), "id": sid})
        elif roll < 0.35 and flags:
            # the script's global variable changes (through a service of the script); no entity does
            name = rng.choice(flags)
            flag_val[name] = not flag_val[name]
            ops.append({"t": t_off, "kind": "flag", "name": name, "v": flag_val[name]})
        else:
            cands = [f for f in funcs if f["trig"] in ("event", "state")]
            if not cands:
                continue
            ops.append(occurrence(rng.choice(cands), t_off, sid))
        if len(ops) >= 40:
            break
    cands = [f for f in funcs if f["trig"] in ("event", "state")]
    if dst and cands and rng.random() < 0.85:
        # occurrences of one function shortly before and shortly after the wall clock changes
        func = rng.choice(cands)
        offs = {-(rng.choice([1, 2, 4, 7, 12]) + 0.5), rng.choice([0, 1, 3, 6, 10]) + 0.5}
        for _ in range(rng.choice([0, 1, 2])):
            offs.add(rng.choice([-1, 1]) * (rng.choice([15, 19, 24, 33, 58]) + 0.5))
        used = {op["t"] for op in ops}
        for off in sorted(offs):
            t_off = dst["at"] + off
            sid += 1
            if t_off not in used and 1.0 < t_off < 470.0:
                ops.append(occurrence(func, t_off, 100 + sid))
        ops.sort(key=lambda op: op["t"])
    if cands and (focus or rng.random() < 0.4):
        # bursts: 2-4 occurrences of one function in the same instant (no loop pass in between) - changes of its
        # trigger variable (value and attribute), events of its event trigger(s), or both
        used = {op["t"] for op in ops}
        for nb in range(rng.choice([2, 3, 4]) if focus else rng.choice([1, 1, 2, 3])):
            # (functions whose trigger variable carries an attribute are drawn three times as often)
            func = funcs[0] if focus and nb < 2 and funcs[0] in cands else rng.choice(cands + 2 * [f for f in cands if f.get("attrs")])
            t_off = rng.randint(2, 468) + 0.5
            if any(abs(t_off - t) < 1.0 for t in used) or (dst and abs(t_off - dst["at"]) < 1.0):
                continue
            used.add(t_off)
            for nth in range(rng.choice([2, 2, 3, 4])):
                sid += 1
                ops.append(occurrence(func, t_off, 200 + sid, nth))
        ops.sort(key=lambda op: op["t"])
    return {"cfg": cfg, "spec": spec, "ops": ops}


# ------------------------------------------------------------------ rendering
def _has_time(func: dict) -> bool:
    """The function has a @time_trigger (alone, or next to its event/state trigger)."""
    return func["trig"] == "time" or bool(func.get("also_time") and func.get("instants"))


def render(scn: dict) -> dict:
    lines = []
    deps = [d for func in scn["spec"]["funcs"] for d in a_deps(func["active"])]
    if any(kind in ("glob", "call") for kind, _name in deps):
        # what @state_active expressions depend on besides state variables: global variables of the script (changed by
        # a service of the script) and a function of the script
        for name in FLAGS:
            lines.append(f"{name} = False")
        lines += ["", "def flag1_is_set():", "    return flag1", "",
                  "@service", "def set_flag(name=None, v=None):", "    global flag0, flag1",
                  "    if name == 'flag0':", "        flag0 = v", "    else:", "        flag1 = v",
                  "    sim.mark('set_flag', name, v)", ""]
    for func in scn["spec"]["funcs"]:
        fi = func["name"][1:]
        if func["trig"] == "state" and func.get("also_event"):
            lines.append(f"@event_trigger('ev_{func['name']}')")
        if func["trig"] == "event":
            lines.append(f"@event_trigger('ev_{func['name']}')")
            if func.get("event_types", 1) > 1:
                lines.append(f"@event_trigger('ev_{func['name']}_b')")
        elif func["trig"] == "state":
            hold = f", state_hold={func['state_hold']}" if func.get("state_hold") else ""
            lines.append(f"@state_trigger('pyscript.t{fi}'{hold})")
        if _has_time(func):
            if func.get("tt_form", "once") == "cron":
                specs = ", ".join(repr(f"cron({m} {h} * * *)") for h, m, _s in func.get("instants", []))
            else:
                specs = ", ".join(repr(f"once({h}:{m:02d}:{s:02d})") for h, m, s in func.get("instants", []))
            if func.get("shutdown"):
                specs += ", 'shutdown'"
            lines.append(f"@time_trigger({specs})")
        guards = []
        if func["active"] is not None:
            guards.append(f"@state_active({a_src(func['active'])!r})")
        if func["time_active"]:
            args = [repr(window_src(win)) for win in func["windows"]]
            if func["hold_off"] is not None:
                args.append(f"hold_off={func['hold_off']}")
            guards.append(f"@time_active({', '.join(args)})")
        lines += reversed(guards) if func.get("time_active_first") else guards
        lines.append(f"def {func['name']}(**kw):")
        lines.append(f"    sim.mark({func['name']!r}, **kw)")
        lines.append("")
    if scn["spec"]["no_trigger_func"]:
        lines += ["@time_active('range(0:00, 0:00:01)')", "@state_active(\"pyscript.g0 == 'never'\")",
                  "def guarded_only(**kw):", "    sim.mark('guarded_only', **kw)", ""]
    lines += ["@service", "def call_direct(fn=None, id=None):"]
    for idx, func in enumerate(scn["spec"]["funcs"]):
        lines.append(f"    if fn == {idx}:")
        lines.append(f"        {func['name']}(direct=id)")
    if scn["spec"]["no_trigger_func"]:
        lines.append("    if fn == -1:")
        lines.append("        guarded_only(direct=id)")
    lines += ["    pass", ""]
    return {"pyscript/c07.py": "\n".join(lines) + "\n"}


def normalize(scn: dict) -> dict | None:
    if not scn["spec"]["funcs"]:
        return None
    if any(f["trig"] == "time" and not f.get("instants") for f in scn["spec"]["funcs"]):
        return None  # @time_trigger() without arguments means "at start-up": not what is generated here
    n = len(scn["spec"]["funcs"])
    names = {f["name"] for f in scn["spec"]["funcs"]}
    keep = []
    flags = {dname for f in scn["spec"]["funcs"] for kind, dname in a_deps(f["active"]) if kind in ("glob", "call")}
    for op in scn["ops"]:
        if op["kind"] == "direct" and op["fn"] >= n:
            continue
        if op["kind"] == "flag" and not flags:
            continue  # the script has no set_flag service
        if op["kind"] == "fire" and op["type"][3:].split("_")[0] not in names:
            continue
        keep.append(op)
    scn["ops"] = keep
    return scn


def _without_clock_change(scn: dict) -> dict:
    """The same scenario one day earlier: same wall-clock times at the start, but no change of the wall clock."""
    cand = copy.deepcopy(scn)
    day = dt.timedelta(days=1)
    cand["spec"]["dst"] = None
    epoch = dt.datetime.fromisoformat(cand["cfg"]["epoch_utc"]) - day
    cand["cfg"]["epoch_utc"] = epoch.strftime("%Y-%m-%dT%H:%M:%S.%f")
    cand["spec"]["base"] = (dt.datetime.fromisoformat(cand["spec"]["base"]) - day).isoformat()
    for func in cand["spec"]["funcs"]:
        for win in func["windows"]:
            if win["type"] != "range":
                continue
            for key in ("start", "end"):
                date = win[key]["date"]
                if date["k"] == "full":
                    prev = dt.date(date["y"], date["m"], date["d"]) - day
                    date.update({"y": prev.year, "m": prev.month, "d": prev.day})
                elif date["k"] == "dow":
                    date["dow"] = (date["dow"] - 1) % 7
    return cand


def simplify(scn: dict):
    if scn["spec"].get("dst"):
        yield _without_clock_change(scn)
    for fi, func in enumerate(scn["spec"]["funcs"]):
        if func.get("tt_form", "once") == "cron" and not scn["spec"].get("dst"):
            cand = copy.deepcopy(scn)
            cand["spec"]["funcs"][fi]["tt_form"] = "once"
            yield cand
        for key in ("shutdown", "time_active_first", "also_event"):
            if func.get(key):
                cand = copy.deepcopy(scn)
                cand["spec"]["funcs"][fi][key] = False
                yield cand
        if func.get("event_types", 1) > 1:
            cand = copy.deepcopy(scn)
            cand["spec"]["funcs"][fi]["event_types"] = 1
            cand["ops"] = [dict(op, type=op["type"][:-2]) if op["kind"] == "fire" and op["type"] == f"ev_{func['name']}_b" else op
                           for op in cand["ops"]]
            yield cand
        if func.get("hold_off") and func["hold_off"] > 3.3:
            cand = copy.deepcopy(scn)
            cand["spec"]["funcs"][fi]["hold_off"] = 3.3
            yield cand
        for key, val in (("active", None), ("hold_off", None)):
            if func.get(key) is not None:
                cand = copy.deepcopy(scn)
                cand["spec"]["funcs"][fi][key] = val
                yield cand
        if func.get("state_hold"):
            cand = copy.deepcopy(scn)
            cand["spec"]["funcs"][fi]["state_hold"] = None
            yield cand
        if func.get("also_time"):
            cand = copy.deepcopy(scn)
            cand["spec"]["funcs"][fi]["also_time"] = False
            cand["spec"]["funcs"][fi].pop("instants", None)
            yield cand
        for wi, win in enumerate(func["windows"]):
            if win.get("neg"):
                cand = copy.deepcopy(scn)
                cand["spec"]["funcs"][fi]["windows"][wi]["neg"] = False
                yield cand
        if func.get("instants") and len(func["instants"]) > 1:
            for ii in range(len(func["instants"])):
                cand = copy.deepcopy(scn)
                del cand["spec"]["funcs"][fi]["instants"][ii]
                yield cand
    if scn["spec"]["no_trigger_func"]:
        cand = copy.deepcopy(scn)
        cand["spec"]["no_trigger_func"] = False
        yield cand
    if any(op.get("a") for op in scn["ops"]):
        cand = copy.deepcopy(scn)
        for op in cand["ops"]:
            op.pop("a", None)
        yield cand
    for key, val in (("timer_late_ms", 0.0), ("cost_us", 50), ("set_order_salt", 0), ("exec_latency_ms", [0.0, 0.0])):
        if scn["cfg"].get(key) != val:
            cand = copy.deepcopy(scn)
            cand["cfg"][key] = val
            yield cand


def warmup() -> None:
    scn = gen(random.Random(3), "quick")
    scn["ops"] = scn["ops"][:3]
    run(scn, horizon=10.0)


# ------------------------------------------------------------------ run
def run(scn: dict, horizon: float = 480.0) -> dict:
    spec = scn["spec"]
    cfg = dict(scn["cfg"])
    cfg["initial_states"] = {"pyscript.g0": ["0", {}], "pyscript.g1": ["1", {}]}
    for func in spec["funcs"]:
        if func["trig"] == "state":
            cfg["initial_states"][f"pyscript.t{func['name'][1:]}"] = ["0", {}]
    w = World(cfg, render(scn))
    info: dict = {"occ": [], "guards": []}
    base = dt.datetime.fromisoformat(spec["base"])

    async def driver(w: World):
        from homeassistant.core import Context

        info["def_vt"] = w.loop.vt
        await w.passes(5)
        # virtual instant at which the wall clock reads ``base``
        zone = C.Zone(w.cfg["tz"])
        vt_base = w.clock.vt_of_utc(zone.to_utc(base))
        info["vt_base"] = vt_base
        for op in scn["ops"]:
            target = vt_base + op["t"]
            if target > w.loop.vt:
                await w.sleep(target - w.loop.vt)
            rec = {"vt": w.loop.vt, "wall": w.clock.local_naive(), "op": op}
            if op["kind"] == "set":
                before = w.hass.states.get(op["e"])
                rec["old"] = before.state if before else None
                rec["old_a"] = dict(before.attributes) if before else {}
                w.set_state(op["e"], op["s"], op.get("a") or {})
            elif op["kind"] == "fire":
                ctx = Context()
                rec["ctx"] = ctx.id
                w.fire(op["type"], op["data"], context=ctx)
            elif op["kind"] == "flag":
                await w.call_service("pyscript", "set_flag", {"name": op["name"], "v": op["v"]}, blocking=True)
            elif op["kind"] == "direct":
                w.probe("direct_call_of_guarded")
                await w.call_service("pyscript", "call_direct", {"fn": op["fn"], "id": op["id"]}, blocking=True)
                if spec["no_trigger_func"]:
                    await w.call_service("pyscript", "call_direct", {"fn": -1, "id": op["id"]}, blocking=True)
            info["occ"].append(rec)
        end = vt_base + horizon
        if end > w.loop.vt:
            await w.sleep(end - w.loop.vt)
        if any(f.get("shutdown") and _has_time(f) for f in spec["funcs"]):
            # the "shutdown" time trigger occurs when the function is no longer referenced: reload the script
            await w.drain()
            info["shutdown_vt"], info["shutdown_wall"] = w.loop.vt, w.clock.local_naive()
            await w.reload()
        await w.drain()
        info["end"] = w.loop.vt

    w.run(driver)
    violations, nontrivial, extra = oracle(w, scn, info, base)
    return base_result(w, violations, nontrivial, extra)


def window_verdict(windows: list, now: dt.datetime, startup: dt.datetime, sun=None):
    """(active?, don't-care?) for "any positive (or none given) and no negative"."""
    if sun is None:
        def sun(*_a):
            return None
    pos, negs = [], []
    unknown = False
    for win in windows:
        if win["type"] == "cron":
            val = C.cron_match(win["expr"], now.replace(second=0, microsecond=0))
        else:
            val = C.range_contains(win, now, startup, sun)
        if val is None:
            unknown = True
            continue
        (negs if win.get("neg") else pos).append(val)
    if unknown:
        return None, True
    positives = [w_ for w_ in windows if not w_.get("neg")]
    ok_pos = any(pos) if positives else True
    return ok_pos and not any(negs), False


def oracle(w: World, scn: dict, info: dict, base: dt.datetime):
    spec = scn["spec"]
    sub = "legacy" if w.cfg["legacy"] else "new"
    violations = []
    startup = w.clock.local_at(info["def_vt"])
    n_acc = n_rej = 0
    zone = C.Zone(w.cfg["tz"])
    dst = spec.get("dst")
    vt_change = info["vt_base"] + dst["at"] if dst else None
    sun = sun_local(w.cfg["tz"]) if any(_has_sun(f["windows"]) for f in spec["funcs"]) else None
    suspending = sun is not None and w.cfg["exec_latency_ms"][1] > 0.0
    n_flag_ops = sum(1 for r in info["occ"] if r["op"]["kind"] == "flag")
    if n_flag_ops != sum(1 for m in w.marks if m["args"][0] == "set_flag"):
        raise RuntimeError("harness: a set_flag service call of the driver did not run")

    def vt_of_local(t):
        """Virtual (= real elapsed) time at which the wall clock reads the naive local time ``t``."""
        return w.clock.vt_of_utc(zone.to_utc(t))

    def viol(cls, sig, detail, t=0.0):
        if cls in ("C07.state_active_builtin_function_not_callable", "C07.state_active_attribute_not_of_triggering_value",
                   "C07.hold_off_same_instant_occurrences"):
            sig = {k: v for k, v in sig.items() if k != "pattern"}  # one finding per subsystem
        violations.append({"class": cls, "sig": {"subsystem": sub, **sig}, "detail": detail, "t": t})

    # guard entity history
    gvals = {"pyscript.g0": "0", "pyscript.g1": "1", "flag0": False, "flag1": False}
    timeline = []
    for rec in info["occ"]:
        timeline.append(rec)
    for func in spec["funcs"]:
        name = func["name"]
        fi = name[1:]
        marks = [m for m in w.marks if m["args"][0] == name]
        trig_marks = [m for m in marks if "direct" not in m["raw_kw"]]
        direct_marks = [m for m in marks if "direct" in m["raw_kw"]]
        hold = func.get("state_hold") or None
        has_time = _has_time(func)
        desc = (f"{name} [{func['trig']}{'+time' if has_time and func['trig'] != 'time' else ''} trigger"
                f"{', state_hold=' + str(hold) if hold else ''}"
                f"; @time_active({', '.join(window_src(x) for x in func['windows'])}"
                f"{', hold_off=' + str(func['hold_off']) if func['hold_off'] is not None else ''})"
                f"{'; @state_active(' + a_src(func['active']) + ')' if func['active'] is not None else ''}]")
        # ---- direct calls are never affected by guards
        want_direct = [r["op"]["id"] for r in info["occ"] if r["op"]["kind"] == "direct" and r["op"]["fn"] == spec["funcs"].index(func)]
        got_direct = [m["raw_kw"]["direct"] for m in direct_marks]
        if got_direct != want_direct:
            viol("C07.guard_affected_direct_call", {}, f"{desc}: direct calls {want_direct} ran as {got_direct}")
        # ---- guard entity history (for occurrences that are evaluated at a timer instant)
        g_hist = []
        g = dict(gvals)
        for rec in timeline:
            op = rec["op"]
            if op["kind"] == "set" and op["e"] in g:
                g[op["e"]] = op["s"]
                g_hist.append((rec["vt"], dict(g)))
            elif op["kind"] == "flag":
                g[op["name"]] = op["v"]
                g_hist.append((rec["vt"], dict(g)))

        def guards_at(vt, tol):
            gv = dict(gvals)
            for vt_set, vals in g_hist:
                if vt_set <= vt:
                    gv = vals
                if abs(vt_set - vt) < tol:
                    return None  # guard entity changed at the same moment: don't-care
            return gv

        t_sets = [rec for rec in timeline if rec["op"]["kind"] == "set" and rec["op"]["e"] == f"pyscript.t{fi}"]

        def t_at(vt, tol=0.3):
            """(value, attributes, ambiguous?) of the function's trigger variable at the virtual time ``vt``."""
            cur, cur_a, unsure = "0", {}, False
            for rec in t_sets:
                if rec["vt"] <= vt:
                    cur, cur_a = rec["op"]["s"], rec["op"].get("a") or {}
                if abs(rec["vt"] - vt) < tol:
                    unsure = True
            return cur, cur_a, unsure

        with_event = func["trig"] == "event" or (func["trig"] == "state" and bool(func.get("also_event")))
        # ---- occurrences
        occs = []
        absorbed = {}
        pending_until = None
        unsure_from = None
        g = dict(gvals)
        for rec in timeline:
            op = rec["op"]
            if op["kind"] == "set" and op["e"] in g:
                g[op["e"]] = op["s"]
            elif op["kind"] == "flag":
                g[op["name"]] = op["v"]
            elif with_event and op["kind"] == "fire" and op["type"] in (
                    [f"ev_{name}", f"ev_{name}_b"] if func.get("event_types", 1) > 1 else [f"ev_{name}"]):
                occ = {"key": ("ctx", rec["ctx"]), "now": rec["wall"], "vt": rec["vt"], "rt": rec["vt"], "g": dict(g), "exact": False,
                       "via": op["type"], "label": f"event {op['type']} id {op['data']['id']} at {rec['wall']}"}
                if func["trig"] == "state":
                    # no triggering state values: the variable reads as its current value, its .old as None; a change
                    # of the variable in the same instant makes "current" ambiguous
                    occ["new"], occ["new_a"], unsure = t_at(rec["vt"])
                    occ["old"] = None
                    if unsure and func["active"] is not None and any(r[1] == f"pyscript.t{fi}" for r in a_refs(func["active"])):
                        occ["g"] = None
                occs.append(occ)
            elif func["trig"] == "state" and op["kind"] == "set" and op["e"] == f"pyscript.t{fi}" and rec["old"] != op["s"]:
                if not hold:
                    occs.append({"key": ("val", op["s"]), "now": rec["wall"], "vt": rec["vt"], "rt": rec["vt"], "g": dict(g), "exact": False,
                                 "new": op["s"], "old": rec["old"], "new_a": op.get("a") or {}, "old_a": rec.get("old_a") or {},
                                 "via": "state",
                                 "label": f"{op['e']} {rec['old']}{rec.get('old_a') or ''}->{op['s']}{op.get('a') or ''} at {rec['wall']}"})
                    continue
                # state_hold on the "any change" form (documented): the change is delivered ``hold`` seconds later
                # with its own values; changes during that period do not restart it and are not delivered;
                # the guards are evaluated after the period, with the initial trigger variable values
                if pending_until is not None and rec["vt"] < pending_until - 0.1:
                    absorbed[("val", op["s"])] = occs[-1]["label"] if occs else "?"
                    w.probe("state_hold_absorbed_change")
                    continue
                if pending_until is not None and rec["vt"] < pending_until + 0.1 and unsure_from is None:
                    unsure_from = len(occs)  # a change at the very end of the period: from here on don't-care
                pending_until = rec["vt"] + hold
                due = w.clock.local_at(pending_until)  # what the wall clock reads ``hold`` seconds later
                occs.append({"key": ("val", op["s"]), "now": due, "vt": pending_until, "rt": pending_until,
                             "g": guards_at(pending_until, 0.15), "exact": False,
                             "new": op["s"], "old": rec["old"], "new_a": op.get("a") or {}, "old_a": rec.get("old_a") or {},
                             "held": True, "via": "state",
                             "held_across": dst is not None and rec["vt"] < vt_change < pending_until,
                             "label": f"{op['e']} {rec['old']}->{op['s']} at {rec['wall']} (state_hold over at {due})"})
        if unsure_from is not None:
            for occ in occs[unsure_from:]:
                occ["g"] = None
                occ["dc"] = True
        for occ in occs:
            if occ.get("held") and occ["vt"] > info["end"] - 0.5:
                occ["dc"] = True  # the run ended before / as the period was over
        if has_time:
            for h, m_, s_ in func.get("instants", []):
                t = dt.datetime(base.year, base.month, base.day, h, m_, s_)
                rt = vt_of_local(t)
                if rt <= info["def_vt"] + 1.0 or rt > info["end"] - 1.0:
                    continue  # not during the run
                if func.get("tt_form", "once") == "cron":
                    w.probe("cron_time_trigger")
                occ = {"key": ("tt", t), "now": t, "vt": None, "rt": rt, "g": guards_at(rt, 0.3), "exact": True,
                       "label": f"time trigger at {t}"}
                if func["trig"] == "state":
                    # no triggering state values: the variable reads as its current value, its .old as None
                    occ["new"], occ["new_a"], unsure = t_at(rt)
                    occ["old"] = None
                    if unsure:
                        occ["g"] = None
                occs.append(occ)
        if has_time and func.get("shutdown") and info.get("shutdown_vt") is not None:
            w.probe("shutdown_occurrence")
            occ = {"key": ("tt", "shutdown"), "now": info["shutdown_wall"], "vt": info["shutdown_vt"], "rt": info["shutdown_vt"],
                   "g": guards_at(info["shutdown_vt"], 0.3), "exact": False, "shutdown": True,
                   "label": f"shutdown time trigger (script reloaded) at {info['shutdown_wall']}"}
            if func["trig"] == "state":
                occ["new"], occ["new_a"], _unsure = t_at(info["shutdown_vt"])
                occ["old"] = None
            occs.append(occ)
        occs.sort(key=lambda o: o["rt"])  # real order (the wall clock may be stepped back during the run)
        # same-instant occurrences (a burst: no loop pass between the stimuli) form a group
        first = 0
        for idx, occ in enumerate(occs):
            if abs(occ["rt"] - occs[first]["rt"]) >= 0.05:
                first = idx
            occ["grp"] = first
        for idx, occ in enumerate(occs):
            members = [o for o in occs if o["grp"] == occ["grp"]]
            occ["grp_n"] = len(members)
            occ["grp_first"] = occ["grp"] == idx
            occ["grp_last"] = members[-1] is occ
            occ["grp_vias"] = sorted({str(o.get("via")) for o in members})
        # ---- observed runs keyed like occurrences
        got = {}
        for m in trig_marks:
            raw = m["raw_kw"]
            kind = raw.get("trigger_type") if (has_time and func["trig"] != "time") or func.get("also_event") else func["trig"]
            if kind == "event":
                key = ("ctx", raw["context"].id if raw.get("context") is not None else None)
            elif kind == "state":
                key = ("val", str(raw.get("value")))
            else:
                key = ("tt", raw.get("trigger_time"))
            got.setdefault(key, []).append(m)
        deps = a_deps(func["active"])
        last_accept = None
        last_accept_rt = None
        last_accept_via = None
        last_sa_reject_rt = None
        across_seen = False  # a state_hold period of this function contained the change of the wall clock
        prev_now = None
        prev_exact_rt = info["def_vt"]
        prev_dep_vals = None
        prev_named_vals = None
        grp = None
        known_keys = set()
        for occ in occs:
            known_keys.add(occ["key"])
            now = occ["now"]
            runs = got.get(occ["key"], [])
            dontcare = bool(occ.get("dc"))
            reason = None
            if occ.get("held_across"):
                w.probe("state_hold_across_clock_change")
                across_seen = True
            if occ.get("held"):
                w.probe("state_hold_occurrence")
                if func["active"] is not None and any(r[1] == f"pyscript.t{fi}" for r in a_refs(func["active"])):
                    w.probe("state_hold_guard_on_trigger_values")
            if has_time and func["trig"] != "time":
                w.probe("combined_trigger")
                if not occ["exact"] and func["time_active"] and func["windows"]:
                    # the first event/state occurrence after a window edge was passed while the time trigger was pending
                    here, dc_a = window_verdict(func["windows"], now, startup, sun)
                    before, dc_b = window_verdict(func["windows"], prev_now or startup, startup, sun)
                    if not dc_a and not dc_b and here != before:
                        w.probe("combined_first_after_window_edge")
            if func.get("also_event"):
                w.probe("state_and_event_trigger")
            prev_now = now
            if dst:
                if occ["rt"] > vt_change:
                    w.probe("occurrence_after_clock_" + dst["dir"])
                if occ["exact"]:
                    if prev_exact_rt < vt_change <= occ["rt"]:
                        # the waiting period of the time trigger contained the change of the wall clock
                        w.probe("time_trigger_first_after_clock_change")
                    prev_exact_rt = occ["rt"]
            if occ["grp_n"] > 1:
                w.probe("burst_occurrence")
                if len(occ["grp_vias"]) > 1:
                    w.probe("burst_of_two_triggers")
            # 1. state_active
            ok = True
            if func["active"] is not None:
                if occ["g"] is None:
                    dontcare = True
                else:
                    def env(kind, ent, occ=occ):
                        if kind == "glob":
                            return occ["g"][ent]
                        if kind == "sget":
                            kind = "v"  # state.get('domain.name'): the current value
                        if ent == f"pyscript.t{fi}" and func["trig"] == "state":
                            val = occ["new"] if kind == "v" else occ["old"]
                            attrs = occ.get("new_a") if kind == "v" else occ.get("old_a")
                            return None if val is None else (val, attrs or {})
                        if kind == "old":
                            return None
                        val = occ["g"].get(ent)
                        return None if val is None else (val, {})
                    if any(r[0] in ("old", "oldattr") for r in a_refs(func["active"])):
                        w.probe("state_active_old_used")
                    if deps:
                        # the expression depends on something that is no state variable named in it
                        w.probe("state_active_non_entity_dependency")
                        dep_vals = [occ["g"][dname] for _k, dname in deps]
                        named_vals = [env("v" if r[0] in ("v", "attr") else "old", r[1]) for r in a_refs(func["active"])]
                        if prev_dep_vals is not None and dep_vals != prev_dep_vals and named_vals == prev_named_vals:
                            # ... and only that has changed since the previous occurrence of the function
                            w.probe("only_non_entity_dependency_changed")
                        prev_dep_vals, prev_named_vals = dep_vals, named_vals
                    try:
                        value = a_eval(func["active"], env)
                    except X.EvalError:
                        value = False  # logged, treated as false
                    if (func["trig"] == "state" and occ.get("via") == "state"
                            and any(r[0] == "attr" and r[1] == f"pyscript.t{fi}" for r in a_refs(func["active"]))):
                        # the attribute of the triggering value is used ...
                        latest_a = t_at(occ["rt"] + 0.05)[1]
                        if latest_a != (occ.get("new_a") or {}):
                            # ... and the variable has changed again (with another attribute value) in the same instant
                            # or during the state_hold period: the triggering value is not the latest one
                            w.probe("trigger_attribute_changed_again_before_evaluation")

                            def env_latest(kind, ent, occ=occ, latest_a=latest_a, env=env):
                                if kind == "v" and ent == f"pyscript.t{fi}":
                                    return (occ["new"], latest_a)
                                return env(kind, ent)
                            try:
                                alt = a_eval(func["active"], env_latest)
                            except X.EvalError:
                                alt = False
                            occ["attr_alt"] = bool(alt) != bool(value)  # reading the latest attribute explains a wrong verdict
                    if any(kind == "sget" for kind, _n in deps):
                        def env_noget(kind, ent, env=env):
                            if kind == "sget":
                                raise X.EvalError("state.get is not callable")
                            return env(kind, ent)
                        try:
                            alt = a_eval(func["active"], env_noget)
                        except X.EvalError:
                            alt = False
                        occ["sget_alt"] = bool(alt) != bool(value)  # a failing call of state.get() explains a wrong verdict
                    if not value:
                        ok = False
                        reason = "state_active"
                        w.probe("state_active_rejected")
                        if value is not False:
                            # "If it evaluates to False (or zero), the trigger is ignored": a falsy value that is
                            # not the constant False
                            reason = "state_active_falsy_value"
                            w.probe("state_active_falsy_non_bool")
            # 2. time windows
            if ok and func["time_active"] and func["windows"]:
                active, dc = window_verdict(func["windows"], now, startup, sun)
                if dc:
                    dontcare = True
                elif not active:
                    ok = False
                    reason = "window"
                    negs = [x for x in func["windows"] if x.get("neg")]
                    if negs:
                        w.probe("negated_window_rejected")
                if not occ["exact"] and not dc:
                    # execution cost: the evaluation happens a few passes later; an edge within 0.2 s is don't-care
                    for delta in (-0.25, 0.25):
                        act2, dc2 = window_verdict(func["windows"], now + dt.timedelta(seconds=delta), startup, sun)
                        if dc2 or act2 != active:
                            dontcare = True
                if occ["exact"] and not dc:
                    # now-relative window edges are only known to a few loop passes (the definition instant)
                    act3, dc3 = window_verdict(func["windows"], now, startup + dt.timedelta(seconds=0.1), sun)
                    if dc3 or act3 != active:
                        dontcare = True
                if occ["exact"]:
                    for win in func["windows"]:
                        if win["type"] == "range":
                            for key in ("start", "end"):
                                if _edge_at(win[key], now.date(), sun) == now:
                                    w.probe("occurrence_on_window_end")
            if _has_sun(func["windows"]) and func["time_active"]:
                w.probe("sun_window")
            # 3. hold_off
            grp_free = False
            if func["hold_off"] and occ["grp_n"] > 1:
                # several occurrences in the same instant: which of them is "the first" is not defined - exactly one of
                # those that pass the other guards runs (if no earlier hold-off period is still running)
                if occ["grp_first"]:
                    grp = {"mode": "free", "elig": [], "void": False, "ran": False}
                    if last_accept_rt is not None:
                        gap = occ["rt"] - last_accept_rt
                        if abs(gap - func["hold_off"]) < 0.3:
                            grp["mode"] = "dc"
                        elif gap < func["hold_off"]:
                            grp["mode"] = "held"
                if grp["mode"] == "dc":
                    dontcare = True
                grp_free = grp["mode"] == "free"
                if len(occ["grp_vias"]) > 1:
                    w.probe("burst_of_two_triggers_with_hold_off")
                    if suspending and _has_sun(func["windows"]):
                        w.probe("burst_of_two_triggers_hold_off_suspending_guard")
            if ok and func["hold_off"] and last_accept is not None and not dontcare and not grp_free:
                # "less than N seconds after": elapsed seconds, whatever the wall clock was set to in between
                gap = occ["rt"] - last_accept_rt
                across = dst is not None and last_accept_rt < vt_change < occ["rt"]
                if abs(gap - func["hold_off"]) < 0.3:
                    dontcare = True
                elif gap < func["hold_off"]:
                    ok = False
                    reason = "hold_off"
                    w.probe("hold_off_rejected")
                    if func.get("event_types", 1) > 1 and occ.get("via") != last_accept_via:
                        # the last accepted occurrence came through the function's other trigger of the same type
                        reason = "hold_off_not_shared_between_triggers"
                        w.probe("hold_off_other_trigger_of_same_type")
                    if across:
                        w.probe("hold_off_rejected_across_clock_change")
                elif across and gap < 3600.0:
                    w.probe("hold_off_over_across_clock_change")
            if any(x.get("neg") for x in func["windows"]) and any(not x.get("neg") for x in func["windows"]):
                w.probe("positive_and_negative_mixed")
            if sum(1 for x in func["windows"] if x.get("neg")) >= 2:
                w.probe("several_negated")
            if any(x["type"] == "cron" for x in func["windows"]):
                w.probe("cron_window")

            def wraps(x, day=now.date()):
                a_, b_ = _edge_at(x["start"], day, sun), _edge_at(x["end"], day, sun)
                return x["type"] == "range" and x["start"]["date"]["k"] == "none" and a_ is not None and b_ is not None and a_ > b_

            if any(x["type"] == "range" and wraps(x) for x in func["windows"]):
                w.probe("wrapping_window")
            if dst and dst["dir"] == "forward":
                skipped0 = zone.to_local(_change_utc(dst)) - dt.timedelta(hours=1)
                if any(x["type"] == "range" and any(skipped0 <= C._time_on_day(x[key]["time"], now.date(), None)  # pylint: disable=protected-access
                                                    < skipped0 + dt.timedelta(hours=1) for key in ("start", "end"))
                       for x in func["windows"]):
                    w.probe("window_edge_in_skipped_hour")
            if dontcare:
                if runs:
                    last_accept, last_accept_rt, last_accept_via = now, occ["rt"], occ.get("via")
                if grp_free:
                    grp["void"] = True
            elif ok and grp_free:
                grp["elig"].append((occ, runs))
            elif ok:
                n_acc += 1
                if len(runs) != 1:
                    pattern = _pattern(func)
                    cls = "C07.accepted_occurrence_did_not_run" if not runs else "C07.ran_twice"
                    why = ""
                    if (not runs and func.get("time_active_first") and func["hold_off"] and last_sa_reject_rt is not None
                            and occ["rt"] - last_sa_reject_rt < func["hold_off"] + 0.3):
                        # @time_active above @state_active: an occurrence that @state_active rejected was no
                        # accepted occurrence, so no hold-off period follows it
                        cls = "C07.hold_off_started_by_rejected_occurrence"
                        why = (f"; {occ['rt'] - last_sa_reject_rt:.1f} s earlier an occurrence was rejected by "
                               f"@state_active, the last accepted one was at {last_accept}")
                    if not runs and occ.get("sget_alt"):
                        # the call of state.get() in the expression failed (logged), the expression counted as false
                        cls = "C07.state_active_builtin_function_not_callable"
                    if not runs and occ.get("attr_alt"):
                        # the attribute the expression read was the one of a later change of the same instant
                        cls = "C07.state_active_attribute_not_of_triggering_value"
                    if across_seen and cls == "C07.accepted_occurrence_did_not_run":
                        # this occurrence, or an earlier one whose delivery the implementation may still be waiting for
                        cls = "C07.state_hold_across_clock_change"
                    viol(cls, {"pattern": pattern},
                         f"{desc}: {occ['label']} passes every guard but ran {len(runs)} times (guards g={occ['g']}){why}",
                         occ["vt"] or 0.0)
                if runs:  # (reported above if it did not run; later hold_off decisions follow the implementation)
                    last_accept, last_accept_rt, last_accept_via = now, occ["rt"], occ.get("via")
            else:
                n_rej += 1
                if reason.startswith("state_active"):
                    last_sa_reject_rt = occ["rt"]
                    if func.get("time_active_first") and func["hold_off"]:
                        w.probe("state_active_rejected_below_hold_off")
                if runs:
                    if occ.get("shutdown"):
                        w.probe("shutdown_occurrence_rejected")
                        reason = "shutdown_ran_unguarded"
                    if reason == "state_active" and occ.get("sget_alt"):
                        reason = "state_active_builtin_function_not_callable"
                    if reason == "state_active" and occ.get("attr_alt"):
                        reason = "state_active_attribute_not_of_triggering_value"
                    viol("C07.state_hold_across_clock_change" if across_seen and reason in ("window", "state_active", "hold_off")
                         else "C07." + reason, {"pattern": _pattern(func)},
                         f"{desc}: {occ['label']} must be rejected by {reason} (guards g={occ['g']}, last accepted "
                         f"{last_accept}) but the function ran", runs[0]["vt"])
                    last_accept, last_accept_rt, last_accept_via = now, occ["rt"], occ.get("via")  # the implementation accepted it: follow it for later hold_off decisions
                    if grp_free:
                        grp["void"] = True
            if grp_free and occ["grp_last"]:
                ran = [(o, r) for o, r in grp["elig"] if r]
                if ran:
                    last_accept, last_accept_rt, last_accept_via = ran[0][0]["now"], ran[0][0]["rt"], ran[0][0].get("via")
                if grp["elig"] and not grp["void"]:
                    n_acc += 1
                    n_rej += len(grp["elig"]) - 1
                    labels = "; ".join(o["label"] for o, _r in grp["elig"])
                    if len(grp["elig"]) > 1:
                        w.probe("hold_off_rejected")
                        w.probe("hold_off_decides_within_burst")
                    if not ran:
                        cls = "C07.accepted_occurrence_did_not_run"
                        if all(o.get("sget_alt") for o, _r in grp["elig"]):
                            cls = "C07.state_active_builtin_function_not_callable"
                        elif all(o.get("attr_alt") for o, _r in grp["elig"]):
                            cls = "C07.state_active_attribute_not_of_triggering_value"
                        viol(cls, {"pattern": _pattern(func)},
                             f"{desc}: of the same-instant occurrences [{labels}] that pass every guard none ran "
                             f"(last accepted {last_accept})", occ["vt"] or 0.0)
                    elif any(len(r) > 1 for _o, r in ran):
                        viol("C07.ran_twice", {"pattern": _pattern(func)},
                             f"{desc}: of the same-instant occurrences [{labels}] one ran more than once", occ["vt"] or 0.0)
                    elif len(ran) > 1:
                        two = len({str(o.get("via")) for o, _r in ran}) > 1
                        viol("C07.hold_off_same_instant_occurrences",
                             {"pattern": _pattern(func), "triggers": "different" if two else "same"},
                             f"{desc}: {len(ran)} of the same-instant occurrences [{labels}] ran: all of them passed the "
                             f"hold_off test before the first was recorded as accepted", ran[1][1][0]["vt"])
        for key, ms in got.items():
            if key in absorbed:
                viol("C07.state_hold_across_clock_change" if across_seen else "C07.state_hold_delivered_other_change", {},
                     f"{desc}: ran with the values of {key}, a change during the state_hold period started by "
                     f"{absorbed[key]} (the arguments and guard values are those of the change that started it): "
                     f"{ms[0]['kw']}", ms[0]["vt"])
            elif key not in known_keys:
                viol("C07.guard_started_run", {"trigger": func["trig"]},
                     f"{desc}: ran for {key} which is no occurrence of its trigger: {ms[0]['kw']}", ms[0]["vt"])
    if spec["no_trigger_func"]:
        w.probe("guard_without_trigger")
        own = [m for m in w.marks if m["args"][0] == "guarded_only" and "direct" not in m["raw_kw"]]
        if own:
            viol("C07.guard_started_run", {"trigger": "none"}, f"a function with guards but no trigger ran: {own[0]['kw']}")
        n_direct = sum(1 for r in info["occ"] if r["op"]["kind"] == "direct")
        got_d = [m for m in w.marks if m["args"][0] == "guarded_only" and "direct" in m["raw_kw"]]
        if len(got_d) != n_direct:
            viol("C07.guard_affected_direct_call", {"trigger": "none"},
                 f"direct calls of a guarded function without trigger: {len(got_d)} of {n_direct} ran")
    violations.sort(key=lambda v: v.get("t", 0.0))
    return violations, n_acc >= 1 and n_rej >= 1, {"accepted": n_acc, "rejected": n_rej}


def _pattern(func: dict) -> str:
    pos = sum(1 for x in func["windows"] if not x.get("neg"))
    neg = sum(1 for x in func["windows"] if x.get("neg"))
    parts = []
    if pos and neg:
        parts.append("positive+negative")
    elif neg >= 2:
        parts.append("several_negative")
    elif neg:
        parts.append("one_negative")
    elif pos >= 2:
        parts.append("several_positive")
    elif pos:
        parts.append("one_positive")
    if func["hold_off"]:
        parts.append("hold_off")
    if func["active"] is not None:
        parts.append("state_active")
    return "+".join(parts) or "no_guard"
