"""C16 - state variables read and write Home Assistant state faithfully.

Workload: a generated pyscript file with 1-3 ``@service`` functions ("writers").  Each writer
runs a generated straight-line sequence of state-variable operations written with STATIC dotted
names in the source text (so ``ast_name`` / ``ast_attribute`` / ``recurse_assign`` / ``ast_delete``
run), separated by ``task.sleep`` so that the writers and an external writer (the harness calling
``hass.states.async_set`` / ``async_remove`` on the virtual clock) interleave.

Every operation reports its value or exception through ``sim.mark``; the harness-side mark hook
photographs ``hass.states`` at the same instant.  Each operation is atomic on the event loop (this
is asserted with a pre-marker: same loop pass), so the recorded order of marks and external writes
IS the linearisation.  The oracle steps a dictionary model (entity -> state string, attributes,
last_changed / last_updated / last_reported on the virtual clock) through that order and compares,
after every step, the value / exception type of the operation and the whole photographed state
machine with the model.  This is model conformance along simulated multi-writer interleavings.

Attribute names: besides the two ordinary names, about a third of the runs give the entities REAL attributes
named like the virtual fields (entity_id / last_changed / last_updated / last_reported, as Home Assistant's group
entities have), set externally, initially and from the script in every write form; reads by dotted name and
state.get must then still yield the virtual field, snapshots hide the real attribute, state.getattr(name) shows it.
Two more situations sit behind steer coins because the unchanged code violates the property there (classes
C16.setattr_param_name and C16.aliasing): attributes named like the parameters of state.set (value,
new_attributes, var_name) written with ``DOMAIN.name.attr = v`` / state.setattr, and a script that changes, in
place, a list/dict attribute value it has read (``mut``), which must leave the state machine and earlier snapshots
alone.

Bindings that change (``dyn``, 30% of the runs): the operations of a writer sit in a ``for`` loop of 1-3 rounds, so
the very same statements are evaluated again, and the Python variable whose name equals a state domain is bound, bound
to another object and deleted WHILE the writers run: the global one (``light``) through two helper functions any writer
may call (another task changes the binding between two evaluations of a statement), the local one (``switch``) by
plain assignment / ``del`` inside the writer.  In 40% of these runs one writer function is called a second time,
possibly while its first invocation still runs: two tasks evaluate the same statements, each with its own local
variables and captured snapshots.  Whether ``light.l3`` / ``switch.k4`` is the attribute of the Python object or the
state variable is decided by the oracle from the binding at the instant of each evaluation.
"""

from __future__ import annotations

import copy
import json
import random
import traceback

from ..common import base_result, gen_cfg, gen_delay, wait_op
from ..world import HarnessError, World

PROPERTY = "C16"
LEVEL = "exploration"
RULE = (
    "seeded generation of (script with 1-3 @service writers x straight-line sequences of read / capture / "
    "re-inspect / assign / attribute-assign / state.set (value x new_attributes x keywords, positional and "
    "keyword forms, snapshot as value) / state.setattr / del / state.delete / state.exist / state.names / "
    "state.getattr / in-place change of a list/dict attribute value that was read (steer coin, 25% of runs) over 2-3 "
    "entities x 2 attributes + 2 shadowed names, values str/int/float/bool/None/list/dict; in 35% of the runs 1-2 "
    "additional REAL attributes named like the virtual fields (initial, external, and written from script), in 20% "
    "(steer coin) attributes named like the parameters of state.set; in 30% of the runs (dyn) the writers' operations "
    "are the body of a loop of 1-3 rounds (same statements evaluated again) and the global / local Python variable named "
    "like a state domain is bound, re-bound and deleted by the writers themselves between those evaluations (global: by "
    "any writer, through helper functions; local: in the writer), with plain read / assign / del / attribute read / "
    "attribute assign by dotted name on those names, and in 40% of those runs one writer function is invoked a second "
    "time (overlapping or later: same statements, separate local variables); "
    "optional native services of the same names, optional @state_trigger on the busiest names; "
    "an external writer and stalls on the virtual clock; writer start and per-operation timing: same pass, few "
    "passes, 0.25 s grid); distinct = scenario digest; non-trivial = at least 2 script writes that changed the "
    "state machine and at least 2 reads judged against the model"
)
ASSUMPTIONS = [
    "HA core is trusted: the model of StateMachine.async_set (str(value); identical state+attributes (Python ==) "
    "only moves last_reported; last_changed moves with the state string; last_updated with state or attributes) "
    "is asserted on the external writes too: there a timestamp-only mismatch is a harness error, a state/attribute "
    "mismatch means the integration disturbed a write it did not make (C16.external_write)",
    "each script operation is atomic on the event loop (asserted per operation: pre-marker and mark in the same "
    "loop pass), so the order of marks is the linearisation; what is explored is interleaving of whole operations",
    "a non-None value reaches HA as str(value) ('all state variable values are coerced into strings')",
    "value None (assignment of None, state.set(value=None), empty snapshot slot) means 'omitted'; for plain "
    "assignment of None the string 'None' is accepted as well; an omitted value on a missing entity, "
    "setattr/attribute-assign on a missing entity and deleting a missing entity/attribute are don't-care in "
    "outcome (ok or exception) but must leave the other facts as stated (no change on exception)",
    "a snapshot (StateVal) given as the value without new_attributes: resulting attributes may be the target's "
    "(kept) or the snapshot's; both are accepted (documentation is silent), keywords are merged on top",
    "new_attributes and keyword attributes in one call never name the same key (open which one wins)",
    "snapshot contents are observed through attribute access (getattr) on the object the script holds, the names "
    "probed are the generated attribute names and the four virtual fields",
    "the virtual fields take precedence over real attributes of the same name for DOMAIN.name.FIELD, "
    "state.get('DOMAIN.name.FIELD') and on snapshots (docs/reference.rst), state.getattr(name) returns the real "
    "attributes; state.getattr(snapshot) is compared without keys named like virtual fields, state.exist of a "
    "virtual field without a real attribute of that name only has to answer with a bool, and a snapshot given as "
    "the value may carry its real attributes of those names or not (all three: documentation is silent)",
    "an attribute is an attribute whatever its name: `DOMAIN.name.value = v` / state.setattr('DOMAIN.name.value', v) "
    "(and new_attributes, var_name) must change only that attribute; such names are never passed as keyword "
    "arguments of state.set (its signature reserves them)",
    "a value obtained by a read belongs to the script: changing it in place (list.append, dict item assignment) must "
    "not change Home Assistant's state machine nor a snapshot captured earlier ('a captured snapshot never changes "
    "afterwards'); consequences of a reported aliasing on snapshots are classified C16.aliasing by value",
    "names with other than 1-2 dots, entity ids that HA would reject and states longer than 255 characters are "
    "not generated",
    "attribute reads/writes by dotted name on a name that collides with a service, and anything but plain "
    "read/assign/del through a shadowing Python variable, are not generated (documentation is silent); in runs with "
    "changing bindings `NAME.x.attr` / `NAME.x.attr = v` are generated too: while NAME is bound they are plain Python on "
    "the value of NAME.x (always a str/int/float/bool/None/list/dict here, so AttributeError and no write)",
    "precedence is decided at every evaluation from the bindings of that instant: a global that was deleted is no "
    "variable any more (the state / service name applies again); a name that is LOCAL to the function (assigned "
    "somewhere in it) but not bound at the moment may resolve to the state variable or raise NameError / "
    "UnboundLocalError without effect (Python would raise, the documentation is silent): both accepted; `del` of a "
    "variable that is not bound may raise or not",
]
TIERS = {
    "quick": {"runs": 2400, "chunk": 75, "max_ops": 30},
    "thorough": {"runs": 40000, "chunk": 250, "max_ops": 40},
}
REACH_PROBES = [
    "two_writers_one_entity", "snapshot_reread_after_write", "delete_then_read", "stateval_as_value",
    "new_attributes_replace", "service_name_shadows_state", "local_shadows_state", "global_shadows_state",
    "reported_only_write", "missing_attr_read", "ext_write_between_script_ops", "kw_merge_keeps_other",
    "omitted_value_kept", "same_pass_two_writers", "eq_but_other_type_attr",
    "virtual_named_attr_read", "virtual_named_attr_written", "attr_named_like_set_param", "read_value_mutated_in_place",
    "stmt_reevaluated_after_bind", "stmt_reevaluated_after_unbind", "stmt_reevaluated_after_rebind",
    "stmt_reevaluated_same_binding", "global_binding_changed_by_other_task", "state_name_after_unbind",
    "stmt_reevaluated_by_other_invocation",
]
SHRINK_LISTS = [["ops"], ["spec", "writers"], ["spec", "writers", "*", "ops"]]

ENT_POOL = ["pyscript.e0", "sensor.s1", "pyscript.e2"]
COLLIDE_ENT = "pyscript.e2"
G_ENT, G_DOM, G_ATTR, G_INIT = "light.l3", "light", "l3", "GV"
L_ENT, L_DOM, L_ATTR, L_INIT = "switch.k4", "switch", "k4", "LV"
ALL_ENTS = ENT_POOL + [G_ENT, L_ENT]
ATTRS = ["a0", "a1"]
VIRTUAL = ["entity_id", "last_changed", "last_updated", "last_reported"]
N_SLOTS = 2

# attribute names that are also parameter names of state.set(var_name, value=None, new_attributes=None, **kwargs):
# legal attribute names for `DOMAIN.name.attr = v` / state.setattr / reads / del, but not usable as keyword attributes
SETPARAM_ATTRS = ["value", "new_attributes", "var_name"]

VALUES = ["on", "off", "5", "", "unknown", 0, 1, 5, -3, 1.0, 1.5, True, False, None, [1, "x"], [], {"k": 1}, {}]
EQ_VALUES = [0, False, 1, True, 1.0]
MUT_ITEM = "m"
MUTABLE_VALUES = [[1, "x"], [], {"k": 1}, {}, [[2]], {"k": [3]}]
EXT_STATES = ["on", "off", "5", "1", "", "idle"]


def J(val) -> str:
    """Strict canonical form (distinguishes 1 / 1.0 / True)."""
    return json.dumps(val, sort_keys=True, default=repr)


# ------------------------------------------------------------------ generation
def _gen_val(rng: random.Random):
    if rng.random() < 0.2:
        return rng.choice(EQ_VALUES)  # equal under ==, different type: HA keeps the old attributes
    return copy.deepcopy(rng.choice(VALUES))


def _gen_attrs(rng: random.Random, p: float = 0.55, xattrs=()) -> dict:
    out = {a: _gen_val(rng) for a in ATTRS if rng.random() < p}
    for a in xattrs:  # extra attribute names of this run (drawn only when there are any: old streams unchanged)
        if rng.random() < 0.5:
            out[a] = _gen_val(rng)
    return out


def _pick_attr(rng: random.Random, xattrs=()) -> str:
    if xattrs and rng.random() < 0.45:
        return rng.choice(list(xattrs))
    return rng.choice(ATTRS)


def _gen_set(rng: random.Random, ent: str, captured: list[int], xattrs=()) -> dict:
    """state.set in one of its argument combinations."""
    kwsafe = [a for a in xattrs if a not in SETPARAM_ATTRS]  # usable as keyword arguments of state.set
    vm = rng.choice(["omit", "pos", "pos", "kw"])
    val = {"m": vm}
    if vm != "omit":
        roll = rng.random()
        if roll < 0.15:
            val["v"] = None
        elif roll < 0.4 and captured:
            val["slot"] = rng.choice(captured)
        else:
            val["v"] = _gen_val(rng)
    nm = rng.choice(["omit", "omit", "kw", "kw", "pos"])
    if nm == "pos" and vm != "pos":
        nm = "kw"
    na = {"m": nm}
    if nm != "omit":
        na["v"] = None if rng.random() < 0.15 else _gen_attrs(rng, 0.45, xattrs)
    kw = {}
    if rng.random() < 0.5:
        free = [a for a in ATTRS + kwsafe if not (isinstance(na.get("v"), dict) and a in na["v"])]
        for a in free:
            if rng.random() < 0.6:
                kw[a] = _gen_val(rng)
    return {"k": "set", "e": ent, "val": val, "na": na, "kw": kw}


def _gen_wop(rng: random.Random, ents: list[str], hot: str | None, svc: list[str], shadow_names: list[str],
             captured: list[int], shadow_del: bool = True, xattrs=(), mut: bool = False, dyn_names=()) -> dict:
    """One writer operation (without timing). ``captured``: slots that hold a snapshot so far (updated).

    ``dyn_names``: those of ``shadow_names`` whose Python variable is bound / deleted while the writers run."""
    rattrs = ATTRS + ATTRS + VIRTUAL + list(xattrs) * 2  # attribute names for reads
    roll = rng.random()
    if shadow_names and roll < (0.6 if dyn_names else 0.12):
        ent = rng.choice(shadow_names)
        if ent in dyn_names:
            roll2 = rng.random()
            if roll2 < 0.18:
                return {"k": "bind", "e": ent, "v": _gen_val(rng)}
            if roll2 < 0.34:
                return {"k": "unbind", "e": ent}
            if roll2 < 0.48 and ent not in svc:
                # `NAME.x.attr` by dotted name: the state attribute, or plain Python on the variable's attribute
                if rng.random() < 0.5:
                    return {"k": "read_attr", "e": ent, "attr": rng.choice(rattrs)}
                return {"k": "attr_assign", "e": ent, "attr": _pick_attr(rng, xattrs), "v": _gen_val(rng)}
        kind = rng.choice(["read", "read", "read", "assign", "assign", "del" if shadow_del else "read"])
        op = {"k": kind, "e": ent}
        if kind == "assign":
            op["v"] = _gen_val(rng)
        if kind == "del":
            op["via"] = "stmt"
        return op
    pool = ents + [G_ENT, L_ENT]
    weights = [6.0] * len(ents) + [1.0, 1.0]
    ent = hot if (hot is not None and rng.random() < 0.55) else rng.choices(pool, weights)[0]
    by_name_ok = ent not in shadow_names  # by-name forms through a shadowing variable: only the three above
    is_coll = ent in svc
    attr = _pick_attr(rng, xattrs)
    kind = rng.choices(
        ["read", "cap", "insp", "insp_attr", "read_attr", "get", "assign", "attr_assign", "set", "setattr",
         "del", "exist", "names", "getattr", "svc_call", "mut"],
        [7, 6, 8, 4, 7, 7, 9, 8, 16, 5, 6, 5, 3, 5, 5 if (is_coll and by_name_ok) else 0, 5 if mut else 0],
    )[0]
    if kind in ("insp", "insp_attr") and not captured:
        kind = "cap"
    if kind == "read":
        if not by_name_ok:
            return {"k": "get", "name": ent}
        return {"k": "read", "e": ent}
    if kind == "cap":
        via = "get" if (is_coll or not by_name_ok) else rng.choice(["name", "get"])
        slot = rng.randrange(N_SLOTS)
        if slot not in captured:
            captured.append(slot)
        return {"k": "cap", "e": ent, "slot": slot, "via": via}
    if kind == "insp":
        return {"k": "insp", "slot": rng.choice(captured)}
    if kind == "insp_attr":
        return {"k": "insp_attr", "slot": rng.choice(captured), "attr": rng.choice(ATTRS + VIRTUAL + list(xattrs))}
    if kind == "mut":
        # read an attribute and change the value that was read in place (list.append / dict item assignment)
        via = "get" if (is_coll or not by_name_ok) else rng.choice(["name", "get"])
        return {"k": "mut", "e": ent, "attr": rng.choice(ATTRS), "via": via}
    if kind == "read_attr":
        at = rng.choice(rattrs)
        if is_coll or not by_name_ok:
            return {"k": "get", "name": f"{ent}.{at}"}
        return {"k": "read_attr", "e": ent, "attr": at}
    if kind == "get":
        if rng.random() < 0.5:
            return {"k": "get", "name": ent}
        return {"k": "get", "name": f"{ent}.{rng.choice(rattrs)}"}
    if kind == "assign":
        if not by_name_ok:
            return _gen_set(rng, ent, captured, xattrs)
        if captured and rng.random() < 0.25:
            return {"k": "assign", "e": ent, "slot": rng.choice(captured)}
        return {"k": "assign", "e": ent, "v": _gen_val(rng)}
    if kind == "attr_assign":
        if is_coll or not by_name_ok:
            return {"k": "setattr", "e": ent, "attr": attr, "v": _gen_val(rng)}
        return {"k": "attr_assign", "e": ent, "attr": attr, "v": _gen_val(rng)}
    if kind == "set":
        return _gen_set(rng, ent, captured, xattrs)
    if kind == "setattr":
        return {"k": "setattr", "e": ent, "attr": attr, "v": _gen_val(rng)}
    if kind == "del":
        op = {"k": "del", "e": ent, "via": rng.choice(["stmt", "func"])}
        if rng.random() < 0.5:
            op["attr"] = attr
        if not by_name_ok or (is_coll and "attr" in op):
            op["via"] = "func"
        return op
    if kind == "exist":
        return {"k": "exist", "name": ent if rng.random() < 0.5 else f"{ent}.{attr}"}
    if kind == "names":
        return {"k": "names", "dom": rng.choice([None, "pyscript", "sensor", "light"]), "m": rng.choice(["pos", "kw"])}
    if kind == "getattr":
        if captured and rng.random() < 0.3:
            return {"k": "getattr", "slot": rng.choice(captured)}
        return {"k": "getattr", "e": ent}
    return {"k": "svc_call", "e": ent}


def gen(rng: random.Random, tier: str) -> dict:
    cfg = gen_cfg(rng)
    cfg["exec_latency_ms"] = [0.0, 0.0]  # no executor jobs on this path
    ents = ENT_POOL[: rng.choice([2, 3, 3])]
    svc = []  # names of native HA services registered by the harness before the writers start
    if COLLIDE_ENT in ents and rng.random() < 0.5:
        svc.append(COLLIDE_ENT)
    if rng.random() < 0.25:
        svc += [G_ENT, L_ENT]  # the shadowed names are service names as well: variables win over both
    gshadow = rng.random() < 0.3
    # `del` through a shadowing variable is a known finding (it goes to the state machine); most runs steer
    # clear of it so that everything after it in a run keeps being judged
    shadow_del = rng.random() < 0.35
    # extra attribute names of this run: real attributes named like the virtual fields (as Home Assistant's group
    # entities have: 'entity_id' is the member list) ...
    xattrs: list[str] = []
    if rng.random() < 0.35:
        xattrs += rng.sample(VIRTUAL, rng.choice([1, 1, 2]))
    # ... and (steer coin: a finding on the unchanged tree, most runs stay clear of it) attributes named like the
    # parameters of state.set
    if rng.random() < 0.2:
        xattrs += rng.sample(SETPARAM_ATTRS, rng.choice([1, 2]))
    # in-place mutation of attribute values that were read (steer coin, same reason)
    mut = rng.random() < 0.25
    # bindings that change while the writers run + the writers' statements evaluated several times (loop)
    dyn = rng.random() < 0.3
    initial = {}
    for ent in ents:
        if rng.random() < 0.6:
            initial[ent] = [rng.choice(EXT_STATES), _gen_attrs(rng, 0.55, xattrs)]
    for ent in (G_ENT, L_ENT):
        if rng.random() < 0.8:
            initial[ent] = [rng.choice(EXT_STATES), _gen_attrs(rng, 0.3, xattrs)]
    if mut:
        for ent in sorted(initial):
            if rng.random() < 0.6:
                initial[ent][1][rng.choice(ATTRS)] = copy.deepcopy(rng.choice(MUTABLE_VALUES))
    cfg["initial_states"] = initial
    max_ops = TIERS[tier]["max_ops"]
    n_w = rng.choice([1, 2, 2, 3])
    total = rng.randint(8, max_ops)
    n_ext = rng.randint(0, max(1, total // 4))
    hot = rng.choice(ents) if rng.random() < 0.6 else None
    burst_p = rng.choice([0.2, 0.35, 0.6])
    writers = []
    share = max(2, (total - n_ext) // n_w)
    for wi in range(n_w):
        lshadow = rng.random() < 0.3
        ldyn = dyn and rng.random() < 0.5
        rounds = rng.choice([1, 2, 2, 2, 3]) if dyn else 1
        dyn_names = ([G_ENT] if dyn else []) + ([L_ENT] if ldyn else [])
        shadow_names = ([G_ENT] if gshadow or dyn else []) + ([L_ENT] if lshadow or ldyn else [])
        wops = []
        captured: list[int] = []
        n_ops = rng.randint(max(2, share // 2), share)
        if rounds > 1:
            n_ops = max(4, (n_ops * 3) // (2 * rounds))  # the loop multiplies them
        for _ in range(n_ops):
            op = gen_delay(rng, burst_p=burst_p, max_steps=4)
            op.update(_gen_wop(rng, ents, hot, svc, shadow_names, captured, shadow_del, xattrs, mut, dyn_names))
            wops.append(op)
        wr = {"name": f"w{wi}", "lshadow": lshadow, "ops": wops}
        if dyn:
            wr.update({"ldyn": ldyn, "rounds": rounds})
        writers.append(wr)
    ops = []
    for wr in writers:
        op = gen_delay(rng, burst_p=0.5, max_steps=3)
        op.update({"kind": "start", "w": wr["name"]})
        ops.append(op)
    if dyn and rng.random() < 0.4:
        # the same function runs a second time, possibly while its first invocation is still running: the same
        # statements are evaluated by two tasks, each with its own local variables
        op = gen_delay(rng, burst_p=0.3, max_steps=6)
        op.update({"kind": "start", "w": rng.choice(writers)["name"], "inv": 1})
        first = next(i for i, o in enumerate(ops) if o["w"] == op["w"])
        ops.insert(rng.randint(first + 1, len(ops)), op)
    for _ in range(n_ext):
        op = gen_delay(rng, burst_p=0.2, max_steps=6)
        roll = rng.random()
        ent = hot if (hot is not None and rng.random() < 0.5) else rng.choice(ents + [G_ENT, L_ENT])
        if roll < 0.15:
            op.update({"kind": "remove", "e": ent})
        elif roll < 0.25:
            op.update({"kind": "stall", "s": rng.choice([0.01, 0.2, 1.5])})
        else:
            op.update({"kind": "set", "e": ent, "s": rng.choice(EXT_STATES), "a": _gen_attrs(rng, 0.55, xattrs)})
        ops.insert(rng.randint(1, len(ops)), op)
    return {
        "cfg": cfg,
        "spec": {"ents": ents, "svc": svc, "gshadow": gshadow, "trig": rng.random() < 0.4, "writers": writers,
                 "xattrs": xattrs, "mut": mut, "gdyn": dyn},
        "ops": ops,
    }


# ------------------------------------------------------------------ rendering
def _val_src(spec: dict) -> str:
    if "slot" in spec:
        return f"s{spec['slot']}"
    return repr(spec.get("v"))


def _op_src(op: dict) -> list[str]:
    """Statements of one operation; the value to report is left in ``r``."""
    k = op["k"]
    if k == "read":
        return [f"r = {op['e']}"]
    if k == "cap":
        rhs = op["e"] if op["via"] == "name" else f"state.get({op['e']!r})"
        return [f"s{op['slot']} = None", f"s{op['slot']} = {rhs}", f"r = s{op['slot']}"]
    if k == "insp":
        return [f"r = s{op['slot']}"]
    if k == "insp_attr":
        return [f"r = s{op['slot']}.{op['attr']}"]
    if k == "read_attr":
        return [f"r = {op['e']}.{op['attr']}"]
    if k == "mut":
        rhs = f"{op['e']}.{op['attr']}" if op["via"] == "name" else f"state.get({op['e'] + '.' + op['attr']!r})"
        return [f"r = {rhs}", "if isinstance(r, list):", f"    r.append({MUT_ITEM!r})", "elif isinstance(r, dict):",
                f"    r[{MUT_ITEM!r}] = 1"]
    if k == "get":
        return [f"r = state.get({op['name']!r})"]
    if k == "assign":
        return [f"{op['e']} = {_val_src(op)}", "r = None"]
    if k == "attr_assign":
        return [f"{op['e']}.{op['attr']} = {op['v']!r}", "r = None"]
    if k == "set":
        args = [repr(op["e"])]
        val, na = op["val"], op["na"]
        if val["m"] == "pos":
            args.append(_val_src(val))
        if na["m"] == "pos" and val["m"] == "pos":
            args.append(repr(na["v"]))
        if val["m"] == "kw":
            args.append("value=" + _val_src(val))
        if na["m"] == "kw" or (na["m"] == "pos" and val["m"] != "pos"):
            args.append("new_attributes=" + repr(na["v"]))
        for key, v in sorted(op["kw"].items()):
            args.append(f"{key}={v!r}")
        return [f"r = state.set({', '.join(args)})"]
    if k == "setattr":
        return [f"r = state.setattr({op['e'] + '.' + op['attr']!r}, {op['v']!r})"]
    if k == "del":
        name = op["e"] + ("." + op["attr"] if "attr" in op else "")
        if op["via"] == "stmt":
            return [f"del {name}", "r = None"]
        return [f"r = state.delete({name!r})"]
    if k == "exist":
        return [f"r = state.exist({op['name']!r})"]
    if k == "names":
        if op["dom"] is None:
            return ["r = state.names()"]
        if op["m"] == "kw":
            return [f"r = state.names(domain={op['dom']!r})"]
        return [f"r = state.names({op['dom']!r})"]
    if k == "getattr":
        if "slot" in op:
            return [f"r = state.getattr(s{op['slot']})"]
        return [f"r = state.getattr({op['e']!r})"]
    if k == "svc_call":
        return [f"r = {op['e']}(tag={op.get('tag', 0)!r})"]
    if k == "bind":
        if op["e"] == G_ENT:
            return [f"gbind({op['v']!r})", "r = None"]
        return [f"{L_DOM} = SimpleNamespace({L_ATTR}={op['v']!r})", "r = None"]
    if k == "unbind":
        if op["e"] == G_ENT:
            return ["gunbind()", "r = None"]
        return [f"del {L_DOM}", "r = None"]
    raise HarnessError(f"unknown op kind {k}")


def render(scn: dict) -> dict:
    spec = scn["spec"]
    lines = ["from types import SimpleNamespace", ""]
    if spec["gshadow"]:
        lines += [f"{G_DOM} = SimpleNamespace({G_ATTR}={G_INIT!r})", ""]
    if spec.get("gdyn"):
        # any writer (another task) can bind, re-bind and delete the global variable named like the state domain
        lines += ["def gbind(v):", f"    global {G_DOM}", f"    {G_DOM} = SimpleNamespace({G_ATTR}=v)", "",
                  "def gunbind():", f"    global {G_DOM}", f"    del {G_DOM}", ""]
    if spec.get("trig"):
        # a state trigger on the busiest names switches on pyscript's notify bookkeeping inside state.set/delete
        lines += [f"@state_trigger({spec['ents'][0]!r}, {spec['ents'][1] + '.a0'!r})", "def trig(**kw):", "    pass", ""]
    for wr in spec["writers"]:
        name = wr["name"]
        inv = ", inv" if "rounds" in wr else ""  # which invocation of the function this is (given by the caller)
        lines += ["@service", f"def {name}({'inv=0' if inv else ''}):", "    P = sim.get('pre')"]
        for slot in range(N_SLOTS):
            lines.append(f"    s{slot} = None")
        if wr["lshadow"]:
            lines.append(f"    {L_DOM} = SimpleNamespace({L_ATTR}={L_INIT!r})")
        lines.append(f"    sim.mark('begin', {name!r}{inv})")
        ind, rnd = "    ", ""
        if "rounds" in wr:
            # the same statements are evaluated `rounds` times
            lines.append(f"    for rnd in range({wr['rounds']}):")
            ind, rnd = "        ", ", rnd"
        for oi, op in enumerate(wr["ops"]):
            if op.get("dt", 0.0) > 0.0:
                lines.append(f"{ind}task.sleep({op['dt']!r})")
            elif op.get("passes", 0) > 0:
                lines += [f"{ind}task.sleep(0)"] * op["passes"]
            lines.append(f"{ind}P({name!r}, {oi}{rnd}{inv})")
            lines.append(f"{ind}try:")
            src = _op_src(dict(op, tag=f"{name}:{oi}"))
            lines += [ind + "    " + s for s in src]
            lines.append(f"{ind}    sim.mark('op', {name!r}, {oi}, 'ok', r{rnd}{inv})")
            lines.append(f"{ind}except Exception as exc:")
            lines.append(f"{ind}    sim.mark('op', {name!r}, {oi}, 'exc', exc{rnd}{inv})")
        lines.append(f"    sim.mark('done', {name!r}{inv})")
        lines.append("")
    return {"pyscript/c16.py": "\n".join(lines) + "\n"}


def normalize(scn: dict) -> dict | None:
    names = {wr["name"] for wr in scn["spec"]["writers"]}
    scn["ops"] = [op for op in scn["ops"] if op["kind"] != "start" or op["w"] in names]
    started = {op["w"] for op in scn["ops"] if op["kind"] == "start"}
    scn["spec"]["writers"] = [wr for wr in scn["spec"]["writers"] if wr["name"] in started]
    if not scn["spec"]["writers"]:
        return None
    return scn


def simplify(scn: dict):
    for i, op in enumerate(scn["ops"]):
        if op.get("passes") or op.get("dt", 0.0) not in (0.0, 0.25):
            cand = copy.deepcopy(scn)
            cand["ops"][i].pop("passes", None)
            cand["ops"][i]["dt"] = 0.25
            yield cand
        if op["kind"] == "set" and op.get("a"):
            cand = copy.deepcopy(scn)
            cand["ops"][i]["a"] = {}
            yield cand
    for wi, wr in enumerate(scn["spec"]["writers"]):
        if wr["lshadow"] and not any(op.get("e") == L_ENT for op in wr["ops"]):
            cand = copy.deepcopy(scn)
            cand["spec"]["writers"][wi]["lshadow"] = False
            yield cand
        for oi, op in enumerate(wr["ops"]):
            if op.get("passes") or op.get("dt", 0.0) not in (0.0, 0.25):
                cand = copy.deepcopy(scn)
                cand["spec"]["writers"][wi]["ops"][oi].pop("passes", None)
                cand["spec"]["writers"][wi]["ops"][oi]["dt"] = 0.25
                yield cand
            if op["k"] == "set":
                if op["kw"]:
                    cand = copy.deepcopy(scn)
                    cand["spec"]["writers"][wi]["ops"][oi]["kw"] = {}
                    yield cand
                if op["na"]["m"] != "omit":
                    cand = copy.deepcopy(scn)
                    cand["spec"]["writers"][wi]["ops"][oi]["na"] = {"m": "omit"}
                    yield cand
    if scn["spec"]["gshadow"] and not any(
        op.get("e") == G_ENT for wr in scn["spec"]["writers"] for op in wr["ops"]
    ):
        cand = copy.deepcopy(scn)
        cand["spec"]["gshadow"] = False
        yield cand
    # fewer rounds of a writer's loop; a second invocation turned into the first
    for wi, wr in enumerate(scn["spec"]["writers"]):
        if wr.get("rounds", 1) > 1:
            cand = copy.deepcopy(scn)
            cand["spec"]["writers"][wi]["rounds"] -= 1
            yield cand
    for i, op in enumerate(scn["ops"]):
        if op["kind"] == "start" and op.get("inv") and not any(
                o["kind"] == "start" and o["w"] == op["w"] and not o.get("inv") for o in scn["ops"]):
            cand = copy.deepcopy(scn)
            cand["ops"][i].pop("inv")
            yield cand
    if scn["spec"].get("trig"):
        cand = copy.deepcopy(scn)
        cand["spec"]["trig"] = False
        yield cand
    if scn["spec"].get("svc"):
        cand = copy.deepcopy(scn)
        cand["spec"]["svc"] = []
        yield cand
    # the extra attribute names, one at a time: a name no writer operation mentions is dropped everywhere
    for name in scn["spec"].get("xattrs", []):
        if not any(_op_mentions(op, name) for wr in scn["spec"]["writers"] for op in wr["ops"]):
            cand = copy.deepcopy(scn)
            cand["spec"]["xattrs"] = [a for a in cand["spec"]["xattrs"] if a != name]
            for pair in (cand["cfg"].get("initial_states") or {}).values():
                pair[1].pop(name, None)
            for op in cand["ops"]:
                if op["kind"] == "set" and op.get("a"):
                    op["a"].pop(name, None)
            yield cand
    # in-place mutation of a read value: back to a plain read; the feature off when no operation uses it
    for wi, wr in enumerate(scn["spec"]["writers"]):
        for oi, op in enumerate(wr["ops"]):
            if op["k"] == "mut":
                cand = copy.deepcopy(scn)
                cop = cand["spec"]["writers"][wi]["ops"][oi]
                cop["k"] = "get"
                cop["name"] = f"{cop.pop('e')}.{cop.pop('attr')}"
                cop.pop("via", None)
                yield cand
    if scn["spec"].get("mut") and not any(op["k"] == "mut" for wr in scn["spec"]["writers"] for op in wr["ops"]):
        cand = copy.deepcopy(scn)
        cand["spec"]["mut"] = False
        yield cand
    for ent, (_s, attrs) in (scn["cfg"].get("initial_states") or {}).items():
        if len(attrs) > 1:
            for name in attrs:
                cand = copy.deepcopy(scn)
                del cand["cfg"]["initial_states"][ent][1][name]
                yield cand
    if scn["cfg"].get("initial_states"):
        for ent in list(scn["cfg"]["initial_states"]):
            cand = copy.deepcopy(scn)
            del cand["cfg"]["initial_states"][ent]
            yield cand
        for ent, (_s, attrs) in scn["cfg"]["initial_states"].items():
            if attrs:
                cand = copy.deepcopy(scn)
                cand["cfg"]["initial_states"][ent][1] = {}
                yield cand
    for key, val in (("timer_late_ms", 0.0), ("drift", 0.0), ("cost_us", 50), ("legacy", False)):
        if scn["cfg"].get(key) != val:
            cand = copy.deepcopy(scn)
            cand["cfg"][key] = val
            yield cand


def _op_mentions(op: dict, name: str) -> bool:
    """Does a writer operation name the attribute ``name``?"""
    if op.get("attr") == name or op.get("name", "").endswith("." + name):
        return True
    if op["k"] == "set":
        return name in op["kw"] or (isinstance(op["na"].get("v"), dict) and name in op["na"]["v"])
    return False


# ------------------------------------------------------------------ world with the photographing mark hook
_MISSING = object()
_TAINT = object()


class C16World(World):
    """World whose ``sim.mark`` also photographs the state machine and inspects the reported value."""

    def __init__(self, cfg, files):
        super().__init__(cfg, files)
        self.steps: list[dict] = []
        self.pre_iter: dict = {}
        self.hook_errors: list[str] = []
        self.svc_calls: list[dict] = []
        self.attr_names: list[str] = list(ATTRS)  # attribute names probed on snapshots (never the virtual fields)

    # -- observation helpers
    def now(self):
        from homeassistant.util import dt as dt_util

        return dt_util.utc_from_timestamp(self.clock.utc_ts())

    def photo(self) -> dict:
        out = {}
        for ent in ALL_ENTS:
            st = self.hass.states.get(ent)
            if st is None:
                out[ent] = None
            else:
                out[ent] = {"s": st.state, "a": copy.deepcopy(dict(st.attributes)), "lc": st.last_changed,
                            "lu": st.last_updated, "lr": st.last_reported}
        return out

    def inspect(self, val) -> dict:
        """What the script holds, observed through the public surface of the object."""
        if val is None:
            return {"t": "none"}
        if isinstance(val, bool):
            return {"t": "bool", "v": val}
        if isinstance(val, str):
            if type(val) is str:  # pylint: disable=unidiomatic-typecheck
                return {"t": "str", "v": val}
            out = {"t": "SV", "s": str(val), "a": {}}
            for name in self.attr_names:
                got = getattr(val, name, _MISSING)
                if got is not _MISSING:
                    out["a"][name] = copy.deepcopy(got)
            for name, key in (("entity_id", "eid"), ("last_changed", "lc"), ("last_updated", "lu"),
                              ("last_reported", "lr")):
                out[key] = getattr(val, name, None)
            return out
        if isinstance(val, BaseException):
            return {"t": "exc", "type": type(val).__name__, "msg": str(val)[:160]}
        if callable(val):
            return {"t": "callable"}
        import datetime as dt

        if isinstance(val, dt.datetime):
            return {"t": "dt", "v": val}
        if isinstance(val, (int, float, list, dict, tuple)):
            return {"t": "val", "v": copy.deepcopy(val)}
        return {"t": "obj", "type": type(val).__name__}

    def _mark(self, *args, **kwargs) -> None:
        super()._mark(*args, **kwargs)
        try:
            if args and args[0] == "op":
                self.steps.append({
                    "k": "op", "w": args[1], "i": args[2], "r": args[5] if len(args) > 5 else 0,
                    "inv": args[6] if len(args) > 6 else 0, "st": args[3],
                    "res": self.inspect(args[4]),
                    "now": self.now(), "iter": self.loop.iterations, "photo": self.photo(),
                    "names": sorted(self.hass.states.async_entity_ids()), "t": self.vts(),
                })
            elif args and args[0] in ("begin", "done"):
                self.steps.append({"k": args[0], "w": args[1], "inv": args[2] if len(args) > 2 else 0, "t": self.vts(),
                                   "iter": self.loop.iterations})
        except Exception:  # pylint: disable=broad-except
            self.hook_errors.append(traceback.format_exc())

    def pre(self, wname, oi, rnd=0, inv=0) -> None:
        self.pre_iter[(wname, oi, rnd, inv)] = self.loop.iterations

    def record_ext(self, op: dict) -> None:
        self.steps.append({"k": "ext", "op": op, "now": self.now(), "iter": self.loop.iterations,
                           "photo": self.photo(), "t": self.vts()})


# ------------------------------------------------------------------ run
def warmup() -> None:
    scn = gen(random.Random(1), "quick")
    run(scn)


def run(scn: dict) -> dict:
    spec = scn["spec"]
    # the world gets its own copy: attribute values handed to Home Assistant are shared with the state machine, and a
    # script that changes such a value in place must not change the scenario
    w = C16World(copy.deepcopy(scn["cfg"]), render(scn))
    w.attr_names = list(ATTRS) + [a for a in spec.get("xattrs", []) if a not in VIRTUAL]
    horizon = 1.0 + max([wr.get("rounds", 1) * sum(op.get("dt", 0.0) for op in wr["ops"])
                         for wr in spec["writers"]] + [0.0])

    async def driver(w: C16World):
        from homeassistant.core import callback

        await w.settle()
        w.natives["pre"] = w.pre
        for name in spec["svc"]:
            @callback
            def handler(call, _name=name):
                w.svc_calls.append(dict(call.data, _svc=_name))

            w.hass.services.async_register(*name.split("."), handler)
        w.steps.append({"k": "init", "photo": w.photo(), "t": w.vts()})
        for op in scn["ops"]:
            await wait_op(w, op)
            kind = op["kind"]
            if kind == "start":
                await w.call_service("pyscript", op["w"], {"inv": op["inv"]} if "inv" in op else {}, blocking=False)
            elif kind == "set":
                w.set_state(op["e"], op["s"], copy.deepcopy(op.get("a") or {}))
                w.record_ext(op)
            elif kind == "remove":
                w.remove_state(op["e"])
                w.record_ext(op)
            elif kind == "stall":
                w.loop.stall(op["s"])
                w.fault("stall")
            else:
                raise HarnessError(f"unknown external op {kind}")
        await w.settle(horizon)
        await w.settle(1.0)

    w.run(driver)
    if w.hook_errors:
        raise HarnessError("mark hook failed:\n" + w.hook_errors[0])
    violations, nontrivial, extra = oracle(w, scn)
    return base_result(w, violations, nontrivial, extra)


# ------------------------------------------------------------------ model
def ha_apply(model: dict, ent: str, state: str, attrs: dict, now) -> str:
    """Home Assistant's StateMachine.async_set on the model. Returns what moved."""
    old = model.get(ent)
    if old is None:
        model[ent] = {"s": state, "a": copy.deepcopy(attrs), "lc": now, "lu": now, "lr": now}
        return "created"
    same_state = old["s"] == state
    same_attr = old["a"] == attrs
    if same_state and same_attr:
        old["lr"] = now
        return "reported"
    model[ent] = {
        "s": state,
        "a": old["a"] if same_attr else copy.deepcopy(attrs),
        "lc": old["lc"] if same_state else now,
        "lu": now,
        "lr": now,
    }
    return "changed"


def entry_diff(exp, got) -> list[str]:
    """Fields in which two model entries (or None) differ."""
    if exp is None and got is None:
        return []
    if exp is None or got is None:
        return ["exists"]
    out = []
    if exp["s"] != got["s"]:
        out.append("state")
    if J(exp["a"]) != J(got["a"]):
        out.append("attrs")
    for key in ("lc", "lu", "lr"):
        if exp[key] != got[key]:
            out.append(key)
    return out


def _fmt(entry) -> str:
    if entry is None:
        return "<missing>"
    return (f"({entry['s']!r}, {J(entry['a'])}, lc={entry['lc'].isoformat()}, lu={entry['lu'].isoformat()}, "
            f"lr={entry['lr'].isoformat()})")


def _set_combo(op: dict) -> str:
    val, na = op["val"], op["na"]
    vpart = "omit" if val["m"] == "omit" else ("snapshot" if "slot" in val else ("None" if val.get("v") is None else "value"))
    npart = "omit" if na["m"] == "omit" else ("None" if na["v"] is None else ("{}" if not na["v"] else "dict"))
    return f"value={vpart},new_attributes={npart},kw={'yes' if op['kw'] else 'no'}"


# ------------------------------------------------------------------ oracle
def oracle(w: C16World, scn: dict):  # noqa: C901  pylint: disable=too-many-branches,too-many-statements,too-many-locals
    spec = scn["spec"]
    writers = {wr["name"]: wr for wr in spec["writers"]}
    started = [(op["w"], op.get("inv", 0)) for op in scn["ops"] if op["kind"] == "start"]

    def wkey_of(name, inv):
        return name if inv == 0 else f"{name}#{inv}"
    violations: list[dict] = []

    def viol(cls, sig, detail, t):
        violations.append({"class": f"C16.{cls}", "sig": sig, "detail": detail, "t": t})

    # ---- every started writer ran to its end, every operation reported exactly once
    done = {(st["w"], st["inv"]) for st in w.steps if st["k"] == "done"}
    for inst in started:
        if inst not in done:
            raise HarnessError(f"writer {inst} did not finish (begin/done steps: "
                               f"{[(s['k'], s['w'], s['inv']) for s in w.steps if s['k'] in ('begin', 'done')]})")
    seen_ops = [(st["w"], st["inv"], st["i"], st["r"]) for st in w.steps if st["k"] == "op"]
    want_ops = sorted((name, inv, oi, rnd) for name, inv in set(started) for oi in range(len(writers[name]["ops"]))
                      for rnd in range(writers[name].get("rounds", 1)))
    if sorted(seen_ops) != want_ops:
        raise HarnessError(f"operations reported {sorted(seen_ops)} != generated {want_ops}")

    model: dict = {}
    # the Python variables named like a state domain: "obj" = attributes of the object bound at the moment (None = not
    # bound), "ser" = serial number of that binding, "by" = the writer that made / removed it
    gbind = {"obj": {G_ATTR: G_INIT} if spec["gshadow"] else None, "ser": 0, "by": None}
    lbind = {wkey_of(name, inv): {"obj": {L_ATTR: L_INIT} if writers[name]["lshadow"] else None, "ser": 0,
                                  "by": wkey_of(name, inv)} for name, inv in started}
    # is `switch` a local name of the writer's function (assigned or deleted somewhere in its body)?
    l_is_local = {name: wr["lshadow"] or any(op["k"] in ("bind", "unbind") and op.get("e") == L_ENT for op in wr["ops"])
                  for name, wr in writers.items()}
    node_seen: dict = {}  # (writer, op index) -> identity of the binding (None = unbound) at its previous evaluation
    node_last_inv: dict = {}  # (writer, op index) -> the invocation that evaluated the statement last
    slots: dict = {}  # (writer, slot) -> {"insp":…, "ent":…, "entry": model entry at capture}
    deleted: set = set()
    last_write: dict = {}  # ent -> (actor, iter)
    stats = {"writes": 0, "reads": 0, "ext": 0, "ops": 0, "exc_expected": 0}
    last_actor = None
    expected_svc_tags = []

    def check_photo(step, op_desc, classify):
        """Compare the photographed state machine with the model; resync on mismatch."""
        bad = False
        for ent in ALL_ENTS:
            got = step["photo"][ent]
            diff = entry_diff(model.get(ent), got)
            if diff:
                bad = True
                cls, sig = classify(ent, diff, model.get(ent), got)
                if cls is None:
                    raise HarnessError(f"model of HA disagrees with HA after {op_desc}: {ent} expected "
                                       f"{_fmt(model.get(ent))} got {_fmt(got)}")
                viol(cls, sig, f"after {op_desc}: hass.states[{ent}] = {_fmt(got)}, expected {_fmt(model.get(ent))} "
                               f"(differs in {diff})", step["t"])
                if got is None:
                    model.pop(ent, None)
                else:
                    model[ent] = copy.deepcopy(got)
        return bad

    for step in w.steps:
        kind = step["k"]
        if kind == "init":
            for ent, entry in step["photo"].items():
                if entry is not None:
                    model[ent] = copy.deepcopy(entry)
            continue
        if kind in ("begin", "done"):
            continue
        now = step["now"]
        if kind == "ext":
            op = step["op"]
            stats["ext"] += 1
            if op["kind"] == "set":
                moved = ha_apply(model, op["e"], str(op["s"]), op.get("a") or {}, now)
                if moved == "reported":
                    w.probe("reported_only_write")
                deleted.discard(op["e"])
            else:
                if model.pop(op["e"], None) is not None:
                    deleted.add(op["e"])
            def classify_ext(ent_, diff, exp, got, _op=op):
                if not [f for f in diff if f not in ("lc", "lu", "lr")]:
                    return (None, None)  # only the clock model disagrees: harness problem
                return ("external_write", {"op": "external_" + _op["kind"], "fields": "+".join(diff),
                                           "same_entity": ent_ == _op["e"]})

            check_photo(step, f"external {op['kind']} {op['e']}", classify_ext)
            if last_actor not in (None, "ext"):
                w.probe("ext_write_between_script_ops")
            prev = last_write.get(op["e"])
            if prev and prev[0] != "ext" and step["iter"] - prev[1] <= 6:
                w.probe("two_writers_one_entity")
            last_write[op["e"]] = ("ext", step["iter"])
            last_actor = "ext"
            continue

        # ---------------------------------------------------------------- a script operation
        wname, oi, rnd = step["w"], step["i"], step["r"]
        wkey = wkey_of(wname, step["inv"])  # the invocation: owner of the local variables and captured snapshots
        wr = writers[wname]
        op = wr["ops"][oi]
        k = op["k"]
        st, res = step["st"], step["res"]
        t = step["t"]
        stats["ops"] += 1
        if k != "svc_call" and w.pre_iter.get((wname, oi, rnd, step["inv"])) != step["iter"]:
            raise HarnessError(f"operation {wkey}:{oi} (round {rnd}) {k} was not atomic: pre-marker in pass "
                               f"{w.pre_iter.get((wname, oi, rnd, step['inv']))}, mark in pass {step['iter']}")
        src = "; ".join(_op_src(dict(op, tag=f"{wname}:{oi}"))[:2])
        desc = f"{wkey}:{oi} `{src}`" + (f" (round {rnd + 1} of the loop)" if "rounds" in wr else "")
        if last_actor is not None and last_actor != wkey and last_actor != "ext":
            prev_iter = stats.get("last_iter")
            if prev_iter == step["iter"]:
                w.probe("same_pass_two_writers")
        stats["last_iter"] = step["iter"]
        last_actor = wkey
        exc_type = res.get("type") if st == "exc" else None
        got_txt = f"raised {exc_type}: {res.get('msg')}" if st == "exc" else f"returned {_res_txt(res)}"

        ent = op.get("e")
        if k in ("get", "exist"):
            parts = op["name"].split(".")
            ent = f"{parts[0]}.{parts[1]}"
            attr = parts[2] if len(parts) == 3 else None
        else:
            attr = op.get("attr")
        cur = model.get(ent) if ent else None
        brec = gbind if ent == G_ENT else lbind[wkey] if ent == L_ENT else None
        bwhich, battr = ("global", G_ATTR) if ent == G_ENT else ("local", L_ATTR)

        # ------------------------------------------------------------ the variable is bound / deleted
        if k in ("bind", "unbind"):
            sig = {"op": k, "shadow": bwhich}
            was_bound = brec["obj"] is not None
            if k == "bind" or was_bound:
                if st != "ok":
                    # plain Python on a plain variable; what it holds now is not judged
                    viol("precedence", sig, f"{desc}: {'binding' if k == 'bind' else 'deleting'} the {bwhich} Python "
                         f"variable {got_txt}", t)
                    brec["obj"] = {battr: _TAINT}
                else:
                    brec["obj"] = {battr: copy.deepcopy(op["v"])} if k == "bind" else None
                brec["ser"] += 1
                brec["by"] = wkey
            # deleting a variable that is not bound: may raise or not; nothing changes

            def classify_bind(ent_, diff, exp, got, _sig=sig):
                return ("precedence", dict(_sig, effect="state_machine_changed"))

            check_photo(step, desc, classify_bind)
            continue

        shadow = None
        node_ctx = None  # what happened to the binding since this very statement was evaluated last
        by_dotted_name = brec is not None and (
            (k in ("read", "assign", "del") and op.get("via", "stmt") == "stmt") or k in ("read_attr", "attr_assign"))
        if by_dotted_name:
            bound = brec["obj"] is not None
            if bound:
                shadow = (bwhich, brec["obj"], battr)
            ser_now = (bwhich if bwhich == "global" else wkey, brec["ser"]) if bound else None
            if (wname, oi) in node_seen:
                ser_prev = node_seen[(wname, oi)]
                if ser_prev is None and ser_now is not None:
                    node_ctx = "reevaluated_after_bind"
                elif ser_prev is not None and ser_now is None:
                    node_ctx = "reevaluated_after_unbind"
                elif ser_prev != ser_now:
                    node_ctx = "reevaluated_after_rebind"
                else:
                    node_ctx = "reevaluated_same_binding"
                w.probe("stmt_" + node_ctx)
                if node_ctx != "reevaluated_same_binding" and bwhich == "global" and brec["by"] != wkey:
                    w.probe("global_binding_changed_by_other_task")
                if bwhich == "local" and node_last_inv.get((wname, oi)) != wkey:
                    w.probe("stmt_reevaluated_by_other_invocation")
            node_last_inv[(wname, oi)] = wkey
            node_seen[(wname, oi)] = ser_now
            if not bound and brec["ser"] > 0 and cur is not None:
                w.probe("state_name_after_unbind")
        nsig = {"stmt": node_ctx} if node_ctx not in (None, "reevaluated_same_binding") else {}

        def classify_none(ent_, diff, exp, got, _k=k, _desc=desc, _nsig=nsig):
            # an operation that must not touch the state machine did
            return ("unexpected_write", dict({"op": _k, "fields": "+".join(diff)}, **_nsig))

        classify = classify_none

        # ------------------------------------------------------------ a local name that is not bound at the moment
        if by_dotted_name and shadow is None and bwhich == "local" and l_is_local[wname] and st == "exc" and \
                exc_type in ("NameError", "UnboundLocalError"):
            # Python raises for it, pyscript's documentation is silent: accepted, but then without any effect
            check_photo(step, desc, classify)
            continue

        # ------------------------------------------------------------ shadowing Python variables
        if shadow is not None:
            which, obj, oattr = shadow
            if cur is not None:
                w.probe("local_shadows_state" if which == "local" else "global_shadows_state")
            sig = dict({"op": k, "shadow": which}, **nsig)
            if k in ("read_attr", "attr_assign"):
                # plain Python on the value of the variable's attribute (str/int/float/bool/None/list/dict, or the
                # attribute is gone): there is no such attribute to read, and none can be set
                if oattr in obj and obj[oattr] is _TAINT:
                    pass
                elif st != "exc" or exc_type != "AttributeError":
                    viol("precedence", sig, f"{desc}: `{ent.split('.')[0]}` is a {which} Python variable whose "
                         f"attribute {oattr} is {obj.get(oattr, '<deleted>')!r}; expected AttributeError (plain Python), "
                         f"but the operation {got_txt}", t)
            elif k == "read":
                if oattr in obj and obj[oattr] is _TAINT:
                    pass
                elif oattr in obj:
                    if st != "ok" or res["t"] == "SV" or J(res.get("v")) != J(obj[oattr]) or \
                            (obj[oattr] is None) != (res["t"] == "none"):
                        viol("precedence", sig, f"{desc}: `{ent.split('.')[0]}` is a {which} Python variable whose "
                             f"attribute is {obj[oattr]!r}, but the read {got_txt}", t)
                else:
                    if st != "exc" or exc_type != "AttributeError":
                        viol("precedence", sig, f"{desc}: attribute was deleted from the {which} Python variable, "
                             f"expected AttributeError, but the read {got_txt}", t)
            elif k == "assign":
                if st != "ok":
                    viol("precedence", sig, f"{desc}: assignment through {which} variable {got_txt}", t)
                else:
                    obj[oattr] = copy.deepcopy(op.get("v"))
            elif k == "del":
                if oattr in obj and st != "ok":
                    viol("precedence", sig, f"{desc}: `{ent.split('.')[0]}` is a {which} Python variable with attribute "
                         f"{oattr}; del of that attribute {got_txt}", t)
                # deleting an attribute that is already gone: AttributeError in Python; outcome not judged

            def classify_shadow(ent_, diff, exp, got, _sig=sig, _which=which):
                return ("precedence", _sig)

            wrote = check_photo(step, desc, classify_shadow)
            if k == "del" and oattr in obj:
                if wrote or st != "ok":
                    obj[oattr] = _TAINT  # the del went elsewhere: what the variable holds now is not judged
                else:
                    del obj[oattr]
            continue

        # ------------------------------------------------------------ service name collision
        is_coll = ent in spec["svc"]
        if is_coll and k in ("read", "svc_call"):
            if cur is not None:
                w.probe("service_name_shadows_state")
            sig = dict({"op": k, "shadow": "service"}, **nsig)
            if k == "read":
                if st != "ok" or res["t"] != "callable":
                    viol("precedence", sig, f"{desc}: a service {ent} exists, the name must resolve to the service, "
                         f"but the read {got_txt}", t)
            else:
                if st != "ok":
                    viol("precedence", sig, f"{desc}: a service {ent} exists, the call {got_txt}", t)
                else:
                    expected_svc_tags.append((ent, f"{wname}:{oi}", desc, t))
            check_photo(step, desc, classify)
            continue
        if k == "svc_call":
            # no service of that name: outcome is not specified; must not write
            check_photo(step, desc, classify)
            continue

        # ------------------------------------------------------------ reads
        if k in ("read", "cap", "read_attr", "get", "mut"):
            via = "name" if k in ("read", "read_attr") or (k in ("cap", "mut") and op["via"] == "name") else "state.get"
            want_attr = attr if k in ("read_attr", "get", "mut") else None
            if cur is None:
                case, exp_exc = "missing_entity", "NameError"
            elif want_attr is not None and want_attr not in VIRTUAL and want_attr not in cur["a"]:
                case, exp_exc = "missing_attr", "AttributeError"
                w.probe("missing_attr_read")
            else:
                case, exp_exc = ("attr" if want_attr else "entity"), None
            sig = dict({"op": "read", "via": via, "case": case}, **nsig)
            if cur is None and ent in deleted:
                w.probe("delete_then_read")
            if exp_exc is not None:
                stats["exc_expected"] += 1
                if st != "exc" or exc_type != exp_exc:
                    viol("read_exception", dict(sig, got=exc_type or "value"),
                         f"{desc}: {ent} is {_fmt(cur)}; expected {exp_exc}, but the read {got_txt}", t)
            elif st != "ok":
                viol("read_exception", dict(sig, got=exc_type), f"{desc}: {ent} is {_fmt(cur)}; the read {got_txt}", t)
            else:
                stats["reads"] += 1
                if want_attr is None:
                    _judge_snapshot(viol, sig, desc, ent, cur, res, t)
                elif want_attr in VIRTUAL:
                    # the virtual fields take precedence over a real attribute of the same name
                    exp_v = {"entity_id": ent, "last_changed": cur["lc"], "last_updated": cur["lu"],
                             "last_reported": cur["lr"]}[want_attr]
                    got_v = res.get("v")
                    if got_v != exp_v or (want_attr == "entity_id" and res["t"] != "str"):
                        if want_attr in cur["a"]:
                            viol("virtual_field", dict(sig, field=want_attr, real_attr_same_name=True),
                                 f"{desc}: {ent} is {_fmt(cur)}; `{want_attr}` is a virtual field and takes precedence "
                                 f"over the entity's attribute of that name: expected {exp_v!r}, the read {got_txt}", t)
                        else:
                            cls = "read_value" if want_attr == "entity_id" else "timestamps"
                            viol(cls, dict(sig, field=want_attr), f"{desc}: expected {exp_v!r}, the read {got_txt}", t)
                    elif want_attr in cur["a"]:
                        w.probe("virtual_named_attr_read")
                else:
                    exp_v = _mutated(cur["a"][want_attr]) if k == "mut" else cur["a"][want_attr]
                    if J(_plain(res)) != J(exp_v) or res["t"] == "SV":
                        viol("read_value", sig, f"{desc}: attribute is {cur['a'][want_attr]!r}, the read {got_txt}", t)
            if k == "cap":
                if st == "ok" and res["t"] == "SV":
                    slots[(wkey, op["slot"])] = {"insp": res, "ent": ent, "entry": copy.deepcopy(cur), "alias": {}}
                else:
                    slots.pop((wkey, op["slot"]), None)
            if k == "mut" and exp_exc is None and st == "ok" and isinstance(cur["a"][want_attr], (list, dict)):
                # the script changed, in place, the value it had read: that is its own object; neither the state
                # machine nor snapshots captured earlier may change
                w.probe("read_value_mutated_in_place")
                pre_j, post = J(cur["a"][want_attr]), _mutated(cur["a"][want_attr])
                post_j = J(post)

                def classify_alias(ent_, diff, exp, got, _a=want_attr, _post_j=post_j, _via=via):
                    if diff == ["attrs"]:
                        wrong = [key for key in sorted(set(exp["a"]) | set(got["a"]))
                                 if (key in exp["a"]) != (key in got["a"]) or J(exp["a"].get(key)) != J(got["a"].get(key))]
                        if all(key in got["a"] and J(got["a"][key]) == _post_j for key in wrong):
                            return ("aliasing", {"op": "mutate_read_value", "effect": "state_machine"})
                    return ("unexpected_write", {"op": "mut", "fields": "+".join(diff)})

                if check_photo(step, desc, classify_alias):
                    # snapshots that carried the same value may share the object: what they show from now on is
                    # classified as the same aliasing (C16.aliasing) rather than as a spontaneous snapshot change
                    for key_ in sorted(slots):
                        held_ = slots[key_]
                        for aname, aval in held_["insp"]["a"].items():
                            if J(aval) == pre_j or pre_j in held_["alias"].get(aname, []):
                                held_["alias"].setdefault(aname, []).append(post_j)
                continue
            check_photo(step, desc, classify)
            continue

        # ------------------------------------------------------------ captured snapshots
        if k in ("insp", "insp_attr"):
            held = slots.get((wkey, op["slot"]))
            if held is not None:
                live = model.get(held["ent"])
                if entry_diff(held["entry"], live):
                    w.probe("snapshot_reread_after_write")
                sig = {"op": k}
                if k == "insp":
                    stats["reads"] += 1
                    fields = _insp_diff(held["insp"], res) if st == "ok" else ["raised"]
                    if fields == ["attrs"] and _alias_only(held, res["a"]):
                        viol("aliasing", {"op": "mutate_read_value", "effect": "snapshot"},
                             f"{desc}: snapshot of {held['ent']} captured as {_res_txt(held['insp'])} now {got_txt}: "
                             f"it shares a list/dict with a value that was read separately and changed in place", t)
                    elif fields:
                        viol("snapshot_mutated", dict(sig, fields="+".join(fields)),
                             f"{desc}: snapshot of {held['ent']} captured as {_res_txt(held['insp'])} now "
                             f"{got_txt}", t)
                else:
                    name = op["attr"]
                    insp = held["insp"]
                    key = {"entity_id": "eid", "last_changed": "lc", "last_updated": "lu", "last_reported": "lr"}.get(name)
                    if key is not None:
                        ok = st == "ok" and res.get("v") == insp[key]
                        exp_txt = repr(insp[key])
                    elif name in insp["a"]:
                        ok = st == "ok" and J(_plain(res)) == J(insp["a"][name])
                        exp_txt = repr(insp["a"][name])
                    else:
                        ok = st == "exc" and exc_type == "AttributeError"
                        exp_txt = "AttributeError"
                    if not ok and st == "ok" and key is None and J(_plain(res)) in held["alias"].get(name, []):
                        viol("aliasing", {"op": "mutate_read_value", "effect": "snapshot"},
                             f"{desc}: snapshot of {held['ent']} captured as {_res_txt(insp)} now has {name} = "
                             f"{_res_txt(res)}: it shares the list/dict with a value that was read separately and "
                             f"changed in place", t)
                    elif not ok:
                        viol("snapshot_mutated", dict(sig, fields=name if key is None else key),
                             f"{desc}: snapshot of {held['ent']} captured as {_res_txt(insp)}; expected {exp_txt}, "
                             f"but it {got_txt}", t)
            check_photo(step, desc, classify)
            continue

        # ------------------------------------------------------------ exist / names / getattr
        if k == "exist":
            exp_v = cur is not None and (attr is None or attr in cur["a"])
            if cur is not None and attr in VIRTUAL and attr not in cur["a"]:
                # a virtual field without a real attribute of that name: readable, but is it "an attribute that
                # exists"? open; it must answer with a bool
                if st != "ok" or res["t"] != "bool":
                    viol("exist", {"op": "state.exist", "what": "virtual", "expected": "bool"},
                         f"{desc}: {ent} is {_fmt(cur)}; expected True or False, but it {got_txt}", t)
            elif st != "ok" or res["t"] != "bool" or res["v"] != exp_v:
                viol("exist", {"op": "state.exist", "what": "attr" if attr else "entity", "expected": exp_v}, f"{desc}: {ent} is {_fmt(cur)}; expected {exp_v}, but it {got_txt}", t)
            else:
                stats["reads"] += 1
            check_photo(step, desc, classify)
            continue
        if k == "names":
            dom = op["dom"]
            exp_v = [n for n in step["names"] if dom is None or n.startswith(dom + ".")]
            # exp_v is HA's own listing at this instant; that HA agrees with the model is checked by the photo
            got_v = res.get("v") if st == "ok" and res["t"] == "val" else None
            if not isinstance(got_v, list) or sorted(got_v) != exp_v:
                viol("names", {"op": "state.names", "domain": "none" if dom is None else "given"},
                     f"{desc}: expected {exp_v}, but it {got_txt}", t)
            else:
                stats["reads"] += 1
            check_photo(step, desc, classify)
            continue
        if k == "getattr":
            if "slot" in op:
                held = slots.get((wkey, op["slot"]))
                if held is not None:
                    exp_v = held["insp"]["a"]
                    # whether a snapshot still knows real attributes named like the virtual fields is open
                    got_v = ({key: val for key, val in res["v"].items() if key not in VIRTUAL}
                             if st == "ok" and res["t"] == "val" and isinstance(res["v"], dict) else None)
                    if got_v is not None and J(got_v) != J(exp_v) and _alias_only(held, got_v):
                        viol("aliasing", {"op": "mutate_read_value", "effect": "snapshot"},
                             f"{desc}: snapshot captured as {_res_txt(held['insp'])}; state.getattr {got_txt}: it shares "
                             f"a list/dict with a value that was read separately and changed in place", t)
                    elif got_v is None or J(got_v) != J(exp_v):
                        viol("getattr", {"op": "state.getattr", "arg": "snapshot"},
                             f"{desc}: snapshot captured as {_res_txt(held['insp'])}; expected {exp_v}, but it {got_txt}", t)
                    else:
                        stats["reads"] += 1
            else:
                if cur is None:
                    ok = st == "ok" and res["t"] == "none"
                else:
                    ok = st == "ok" and res["t"] == "val" and J(res["v"]) == J(cur["a"])
                if not ok:
                    viol("getattr", {"op": "state.getattr", "arg": "missing" if cur is None else "name"},
                         f"{desc}: {ent} is {_fmt(cur)}, but it {got_txt}", t)
                else:
                    stats["reads"] += 1
            check_photo(step, desc, classify)
            continue

        # ------------------------------------------------------------ writes
        # candidates: list of (state or None = any, attrs) acceptable outcomes; [] = no change
        cands: list = []
        may_raise = False  # outcome (ok / exception) not specified
        primary_kw: dict = {}
        if k in ("assign", "set"):
            if k == "assign":
                vspec = {"m": "pos", **({"slot": op["slot"]} if "slot" in op else {"v": op.get("v")})}
                na, kw = {"m": "omit"}, {}
            else:
                vspec, na, kw = op["val"], op["na"], op["kw"]
            primary_kw = kw
            held = slots.get((wkey, vspec["slot"])) if "slot" in vspec else None
            if "slot" in vspec and held is not None:
                w.probe("stateval_as_value")
                values = [held["insp"]["s"]]
            elif vspec["m"] == "omit" or "slot" in vspec or vspec.get("v") is None:
                if cur is not None:
                    values = [cur["s"]]
                    w.probe("omitted_value_kept")
                    if k == "assign":
                        values.append("None")
                else:
                    values = [None]  # any value; raising is acceptable too
                    may_raise = True
            else:
                values = [str(vspec["v"])]
            old_attrs = cur["a"] if cur is not None else {}
            if na["m"] != "omit" and na["v"] is not None:
                bases = [na["v"]]
                if any(key not in na["v"] and key not in kw for key in old_attrs):
                    w.probe("new_attributes_replace")
            else:
                bases = [old_attrs]
                if held is not None:
                    bases.append(held["insp"]["a"])
                    if held["entry"] is not None and J(held["entry"]["a"]) != J(held["insp"]["a"]):
                        bases.append(held["entry"]["a"])  # with its real attributes named like virtual fields
                    for aname in sorted(held.get("alias", {})):
                        # a snapshot known (and reported) to share a value that was changed in place
                        for alt in held["alias"][aname]:
                            bases.append(dict(held["insp"]["a"], **{aname: json.loads(alt)}))
                if kw and any(key not in kw for key in old_attrs):
                    w.probe("kw_merge_keeps_other")
            for val in values:
                for base in bases:
                    merged = copy.deepcopy(base)
                    merged.update(copy.deepcopy(kw))
                    cands.append((val, merged))
        elif k in ("attr_assign", "setattr"):
            if cur is None:
                may_raise = True
                cands.append((None, {attr: copy.deepcopy(op["v"])}))
            else:
                merged = copy.deepcopy(cur["a"])
                merged[attr] = copy.deepcopy(op["v"])
                cands.append((cur["s"], merged))
                if attr in cur["a"] and cur["a"][attr] == op["v"] and J(cur["a"][attr]) != J(op["v"]):
                    w.probe("eq_but_other_type_attr")
        elif k == "del":
            if cur is None or (attr is not None and attr not in cur["a"]):
                may_raise = True  # deleting what does not exist: ok or exception, nothing changes
            elif attr is None:
                cands.append("remove")
            else:
                merged = copy.deepcopy(cur["a"])
                del merged[attr]
                cands.append((cur["s"], merged))
        else:
            raise HarnessError(f"oracle: unknown op kind {k}")

        combo = _set_combo(op) if k == "set" else None
        opname = {"assign": "assign", "set": "state.set", "attr_assign": "attr_assign", "setattr": "state.setattr",
                  "del": "del" if op.get("via") == "stmt" else "state.delete"}[k]
        sig = dict({"op": opname}, **nsig)
        if combo:
            sig["args"] = combo
        if k == "assign":
            sig["value"] = "snapshot" if "slot" in op and slots.get((wkey, op["slot"])) else (
                "None" if op.get("v") is None else type(op["v"]).__name__)
        if k == "del":
            sig["what"] = "attr" if attr else "entity"

        before = copy.deepcopy(cur)
        # an attribute named like a parameter of state.set: judged like any attribute, reported under its own class
        if cur is not None and (attr in VIRTUAL or any(key in VIRTUAL for key in primary_kw) or (
                k == "set" and isinstance(op["na"].get("v"), dict) and any(key in VIRTUAL for key in op["na"]["v"]))):
            w.probe("virtual_named_attr_written")
        param_attr = k in ("attr_assign", "setattr") and attr in SETPARAM_ATTRS
        if param_attr and cur is not None:
            w.probe("attr_named_like_set_param")
        if st == "exc":
            if not may_raise and param_attr:
                viol("setattr_param_name", dict(sig, attr=attr),
                     f"{desc}: {ent} was {_fmt(cur)}; setting the attribute `{attr}` {got_txt}", t)
            elif not may_raise:
                viol("op_exception", dict(sig, exc=exc_type), f"{desc}: {ent} was {_fmt(cur)}; the operation {got_txt}", t)
            # an operation that raised must not have changed anything
            outcomes = [before]
        else:
            outcomes = []
            if not cands:
                outcomes.append(before)
            for cand in cands:
                trial = {ent: copy.deepcopy(before)} if before is not None else {}
                if cand == "remove":
                    trial.pop(ent, None)
                else:
                    val, attrs = cand
                    if val is None:
                        got_e = step["photo"][ent]
                        val = got_e["s"] if got_e is not None else "?"
                    ha_apply(trial, ent, val, attrs, now)
                outcomes.append(trial.get(ent))
            if may_raise:
                outcomes.append(before)  # silently doing nothing is as acceptable as raising
        got_e = step["photo"][ent]
        chosen = outcomes[0]
        for out in outcomes:
            if not entry_diff(out, got_e):
                chosen = out
                break
        if chosen is None:
            if model.pop(ent, None) is not None:
                deleted.add(ent)
                stats["writes"] += 1
        else:
            if entry_diff(before, chosen):
                stats["writes"] += 1
                if not [f for f in entry_diff(before, chosen) if f != "lr"]:
                    w.probe("reported_only_write")
            model[ent] = copy.deepcopy(chosen)
            deleted.discard(ent)
        if st == "ok" and k in ("set", "setattr") and res["t"] != "none":
            viol("op_result", sig, f"{desc}: returned {_res_txt(res)} instead of None", t)

        def classify_write(ent_, diff, exp, got, _k=k, _sig=sig, _ent=ent, _attr=attr, _op=op, _before=before,
                           _kw=primary_kw, _param_attr=param_attr):
            if ent_ != _ent:
                return ("unexpected_write", {"op": _sig["op"], "fields": "+".join(diff)})
            if _param_attr and "exists" not in diff:
                return ("setattr_param_name", dict(_sig, attr=_attr))
            if "exists" in diff:
                if _k == "del":
                    return ("delete", _sig)
                return ("set_value" if _k == "set" else "assign_value" if _k == "assign" else "setattr_value",
                        dict(_sig, fields="exists"))
            if "state" in diff:
                if _k == "assign":
                    return ("assign_value", _sig)
                if _k == "set":
                    omitted = _op["val"]["m"] == "omit" or ("slot" not in _op["val"] and _op["val"].get("v") is None)
                    return ("set_omitted_value" if omitted else "set_value", _sig)
                if _k == "del":
                    return ("delete", _sig)
                return ("setattr_value_changed", _sig)
            if "attrs" in diff:
                exp_a, got_a = exp["a"], got["a"]
                keys = sorted(set(exp_a) | set(got_a))
                wrong = [key for key in keys if (key in exp_a) != (key in got_a) or J(exp_a.get(key)) != J(got_a.get(key))]
                if _k == "assign":
                    return ("assign_attrs_lost", _sig)
                if _k in ("attr_assign", "setattr"):
                    if any(key != _attr for key in wrong):
                        return ("setattr_other_attr_changed", _sig)
                    return ("setattr_value", _sig)
                if _k == "del":
                    return ("delete", _sig)
                na_given = _op["na"]["m"] != "omit" and _op["na"]["v"] is not None
                if any(key not in _kw for key in wrong):
                    return ("set_new_attributes" if na_given else "set_attrs_not_kept", _sig)
                return ("set_kw_merge", _sig)
            return ("timestamps", dict(_sig, fields="+".join(diff)))

        check_photo(step, desc, classify_write)
        prev = last_write.get(ent)
        if prev and prev[0] != wkey and step["iter"] - prev[1] <= 6:
            w.probe("two_writers_one_entity")
        last_write[ent] = (wkey, step["iter"])

    # ---- service calls that were accepted must have reached the service
    got_tags = [(c.get("_svc"), c.get("tag")) for c in w.svc_calls]
    for name, tag, desc, t in expected_svc_tags:
        if (name, tag) not in got_tags:
            viol("precedence", {"op": "svc_call", "shadow": "service", "effect": "not_called"},
                 f"{desc}: the call returned but service {name} was never invoked with tag {tag}", t)

    violations.sort(key=lambda v: v.get("t", 0.0))
    nontrivial = stats["writes"] >= 2 and stats["reads"] >= 2
    extra = {"script_ops": stats["ops"], "ext_ops": stats["ext"], "writes": stats["writes"], "reads": stats["reads"],
             "exc_expected": stats["exc_expected"], "writers": len(set(started))}
    return violations, nontrivial, extra


def _mutated(val):
    """The value after the in-place change of a `mut` operation (a new object)."""
    if isinstance(val, list):
        return copy.deepcopy(val) + [MUT_ITEM]
    if isinstance(val, dict):
        return dict(copy.deepcopy(val), **{MUT_ITEM: 1})
    return copy.deepcopy(val)


def _alias_only(held: dict, got_attrs: dict) -> bool:
    """Does a snapshot differ from its capture only in values known to be shared with an in-place change?"""
    cap = held["insp"]["a"]
    if sorted(cap) != sorted(got_attrs):
        return False
    wrong = [key for key in cap if J(cap[key]) != J(got_attrs[key])]
    return bool(wrong) and all(J(got_attrs[key]) in held.get("alias", {}).get(key, []) for key in wrong)


def _plain(res: dict):
    """The plain Python value a result inspection stands for (None when it has none)."""
    if res["t"] in ("val", "str", "bool", "dt"):
        return res["v"]
    if res["t"] == "SV":
        return res["s"]
    return None


def _res_txt(res: dict) -> str:
    if res["t"] == "SV":
        return (f"snapshot({res['s']!r}, {J(res['a'])}, entity_id={res['eid']!r}, lc={_iso(res['lc'])}, "
                f"lu={_iso(res['lu'])}, lr={_iso(res['lr'])})")
    if res["t"] in ("val", "str", "bool"):
        return f"{res['v']!r}"
    if res["t"] == "dt":
        return _iso(res["v"])
    if res["t"] == "none":
        return "None"
    if res["t"] == "exc":
        return f"{res['type']}({res['msg']!r})"
    return f"<{res['t']}>"


def _iso(val) -> str:
    return val.isoformat() if hasattr(val, "isoformat") else repr(val)


def _insp_diff(a: dict, b: dict) -> list[str]:
    """Fields in which two inspections of a snapshot differ."""
    if b.get("t") != "SV":
        return ["type"]
    out = []
    if a["s"] != b["s"]:
        out.append("state")
    if J(a["a"]) != J(b["a"]):
        out.append("attrs")
    for key in ("eid", "lc", "lu", "lr"):
        if a[key] != b[key]:
            out.append(key)
    return out


def _judge_snapshot(viol, sig, desc, ent, cur, res, t) -> None:
    """A read of the whole state variable must be a str snapshot equal to the model entry."""
    if res["t"] != "SV":
        if res["t"] == "str" and res["v"] == cur["s"]:
            viol("read_value", dict(sig, field="not_a_snapshot"),
                 f"{desc}: returned a plain str without attributes/virtual fields", t)
        else:
            viol("read_value", dict(sig, field="type"), f"{desc}: {ent} is {_fmt(cur)}, read returned {_res_txt(res)}", t)
        return
    bad = []
    if res["s"] != cur["s"]:
        bad.append("state")
    # the four virtual fields hide a real attribute of the same name on a snapshot (judged through eid/lc/lu/lr)
    if J(res["a"]) != J({key: val for key, val in cur["a"].items() if key not in VIRTUAL}):
        bad.append("attrs")
    if res["eid"] != ent:
        bad.append("entity_id")
    if bad:
        viol("read_value", dict(sig, field="+".join(bad)),
             f"{desc}: {ent} is {_fmt(cur)}, read returned {_res_txt(res)}", t)
    tbad = [name for key, name in (("lc", "last_changed"), ("lu", "last_updated"), ("lr", "last_reported"))
            if res[key] != cur[key]]
    if tbad:
        viol("timestamps", dict(sig, field="+".join(tbad)),
             f"{desc}: {ent} is {_fmt(cur)}, read returned {_res_txt(res)}", t)
