"""C15 - task.wait_until returns for the first qualifying trigger and always cleans up.

Workload: one service calls task.wait_until with a generated mix of state / event / MQTT / webhook / time
conditions, timeout (None, 0, T), state_check_now, state_hold, state_hold_false; timed occurrences (0.25 s
grid; timers off the grid) before, during and after the call; filters that raise.

Oracle: the reference "first qualifying occurrence after the call" (state part through sim.holdmodel) gives
the return dictionary class, payload and instant; 'timeout' / 'none' rules; then the census of
subscriptions, bus listeners, webhook/MQTT registrations, tasks and timers must equal the census taken before
the call - on every exit path.

Fault enumeration: the scenario is re-run with the waiting task cancelled at every loop pass between the
call and its return (capped in the quick tier), through the reaper or a raw Task.cancel().
"""

from __future__ import annotations

import copy
import datetime as dt
import json
import random

from ..common import base_result, gen_cfg
from ..holdmodel import timeline
from ..world import World

PROPERTY = "C15"
LEVEL = "fault_enumeration"
RULE = (
    "seeded generation of one task.wait_until call (1-4 condition kinds, timeout None/0/T, check_now/hold/hold_false) "
    "with <=15 timed occurrences around it; per scenario one fault-free run plus one run per cancellation point = "
    "every loop pass between the call and its return (capped at 30 evenly spread points in quick, complete in "
    "thorough); distinct = scenario digest; non-trivial = the wait had >= 2 condition kinds or a hold, and a "
    "cancellation landed while it was subscribed"
)
ASSUMPTIONS = [
    "occurrences are on a 0.25 s grid, timers (timeout, once(now+T), hold, hold_false) off the grid by >= 0.07 s, so "
    "the first qualifying occurrence is never decided by a tie; with timeout=0 and an immediately true state "
    "condition either result is accepted",
    "when a condition's expression raises before the first qualifying occurrence the return value is don't-care "
    "(the property only requires clean-up on that path)",
    "State.notify_var_last (last notified values) is not part of the census; empty per-variable tables count as absent",
]
TIERS = {
    "quick": {"runs": 320, "chunk": 10, "max_points": 30, "chunk_timeout": 900},
    "thorough": {"runs": 4000, "chunk": 40, "max_points": 100000, "chunk_timeout": 3600},
}
REACH_PROBES = ["cancel_while_subscribed", "timeout_fired", "time_trigger_fired", "event_returned", "state_returned",
                "mqtt_returned", "webhook_returned", "none_returned", "filter_raised", "occurrence_before_call",
                "hold_in_wait", "timeout_zero", "immediate_check_now", "second_waiter_woke_on_same_occurrence"]
SHRINK_LISTS = [["ops"], ["spec", "conds"]]
GRID = 0.25
EXPR = "pyscript.v == '1'"


def gen(rng: random.Random, tier: str) -> dict:
    cfg = gen_cfg(rng)
    cfg["drift"] = 0.0
    kinds = rng.sample(["state", "event", "mqtt", "webhook", "time"], rng.choice([1, 1, 2, 2, 3, 4]))
    conds = []
    for kind in sorted(kinds):
        cond = {"kind": kind}
        if kind == "state":
            cond.update({"check_now": rng.choice([None, None, False, True]),
                         "hold": rng.choice([None, None, 0.6, 1.1]),
                         "hold_false": rng.choice([None, None, None, 0.4])})
        elif kind in ("event", "mqtt", "webhook"):
            cond["filter"] = rng.choice([None, None, "n>1", "raise"])
        else:
            cond["spec"] = rng.choice(["once(now + 1.42s)", "once(now + 2.17s)", "once(now - 5s)",
                                       "period(now + 1.42s, 0.7s)"])
        conds.append(cond)
    timeout = rng.choice([None, None, 0, 0.97, 1.93])
    initial_v = rng.choice(["0", "1"])
    cfg["initial_states"] = {"pyscript.v": [initial_v, {}], "pyscript.u": ["0", {}]}
    ops = []
    k = -rng.choice([0, 2, 3])
    sid = 0
    for _ in range(rng.randint(2, 15 if tier == "thorough" else 12)):
        k += rng.choice([0, 1, 1, 2, 3])
        roll = rng.random()
        sid += 1
        data = {"n": rng.randint(0, 3), "kind": rng.choice(["a", "7"]), "id": sid}
        if roll < 0.35:
            ops.append({"k": k, "kind": "set", "e": "pyscript.v", "s": rng.choice(["0", "1", "2"])})
        elif roll < 0.45:
            ops.append({"k": k, "kind": "set", "e": "pyscript.u", "s": rng.choice(["0", "1"])})
        elif roll < 0.65:
            ops.append({"k": k, "kind": "fire", "type": rng.choice(["ev_w", "ev_w", "ev_other"]), "data": data})
        elif roll < 0.8:
            ops.append({"k": k, "kind": "mqtt", "topic": rng.choice(["t/w", "t/w", "t/other"]),
                        "payload": json.dumps(data, sort_keys=True)})
        elif roll < 0.95:
            ops.append({"k": k, "kind": "webhook", "id": "hook_w", "payload": data})
        else:
            ops.append({"k": k, "kind": "stall", "s": 0.02})
    # a second task that sits in its own wait_until on the same event type / topic / webhook id the whole time and
    # scribbles over the dictionary it is handed: what one waiter does with its result is not the other's business
    spec = {"conds": conds, "timeout": timeout, "buddy": rng.random() < 0.4}
    fault = {"mode": "enumerate", "via": rng.choice(["reaper", "raw"]), "iter": None}
    return {"cfg": cfg, "spec": spec, "fault": fault, "ops": ops, "max_points": TIERS[tier]["max_points"]}


def _flt_src(flt, kind):
    if kind == "event":
        var = {"n": "n", "kind": "kind"}
    elif kind == "mqtt":
        var = {"n": "payload_obj['n']", "kind": "payload_obj['kind']"}
    else:
        var = {"n": "payload['n']", "kind": "payload['kind']"}
    return f"{var['n']} > 1" if flt == "n>1" else f"int({var['kind']}) >= 0"


def _call_src(spec: dict) -> str:
    kw = []
    for cond in spec["conds"]:
        kind = cond["kind"]
        if kind == "state":
            kw.append(f"state_trigger={EXPR!r}")
            if cond["check_now"] is not None:
                kw.append(f"state_check_now={cond['check_now']}")
            if cond["hold"] is not None:
                kw.append(f"state_hold={cond['hold']}")
            if cond["hold_false"] is not None:
                kw.append(f"state_hold_false={cond['hold_false']}")
        elif kind == "time":
            kw.append(f"time_trigger={cond['spec']!r}")
        else:
            target = {"event": "ev_w", "mqtt": "t/w", "webhook": "hook_w"}[kind]
            if cond["filter"]:
                kw.append(f"{kind}_trigger=[{target!r}, {_flt_src(cond['filter'], kind)!r}]")
            else:
                kw.append(f"{kind}_trigger={target!r}")
    if spec["timeout"] is not None:
        kw.append(f"timeout={spec['timeout']}")
    return f"task.wait_until({', '.join(kw)})"


def render(scn: dict) -> dict:
    lines = [
        "@service",
        "def waiter():",
        "    sim.mark('w', 'pre', me=task.current_task())",
        "    try:",
        f"        ret = {_call_src(scn['spec'])}",
        "        sim.mark('w', 'ret', **ret)",
        "    except Exception as exc:",
        "        sim.mark('w', 'exc', name=type(exc).__name__)",
        "",
    ]
    if scn["spec"].get("buddy"):
        lines += [
            "@time_trigger('startup')",
            "def buddy():",
            "    while True:",
            "        got = task.wait_until(event_trigger='ev_w', mqtt_trigger='t/w', webhook_trigger='hook_w')",
            "        got.clear()",
            "        got['scribbled'] = True",
            "        sim.mark('buddy', 'woke')",
            "",
        ]
    return {"pyscript/c15.py": "\n".join(lines) + "\n"}


def normalize(scn: dict) -> dict | None:
    if not scn["spec"]["conds"] and scn["spec"]["timeout"] is None:
        return None
    return scn


def simplify(scn: dict):
    if scn["spec"]["timeout"] is not None:
        cand = copy.deepcopy(scn)
        cand["spec"]["timeout"] = None
        yield cand
    if scn["spec"].get("buddy"):
        cand = copy.deepcopy(scn)
        cand["spec"]["buddy"] = False
        yield cand
    for ci, cond in enumerate(scn["spec"]["conds"]):
        for key in ("hold", "hold_false", "check_now", "filter"):
            if cond.get(key) is not None:
                cand = copy.deepcopy(scn)
                cand["spec"]["conds"][ci][key] = None
                yield cand
    for key, val in (("timer_late_ms", 0.0), ("cost_us", 50), ("exec_latency_ms", [0.0, 0.0]), ("set_order_salt", 0)):
        if scn["cfg"].get(key) != val:
            cand = copy.deepcopy(scn)
            cand["cfg"][key] = val
            yield cand


def warmup() -> None:
    scn = gen(random.Random(1), "quick")
    scn["fault"] = {"mode": "none", "via": "raw", "iter": None}
    run(scn)


# ------------------------------------------------------------------ execution
def _census(w: World) -> dict:
    import asyncio

    cen = w.census()
    out = {k: cen[k] for k in ("listeners", "webhooks", "mqtt_subs", "timers", "event_notify", "mqtt_notify",
                               "webhook_notify", "our_tasks", "task2cb", "task2context")}
    out["state_notify"] = {k: v for k, v in cen["state_notify"].items() if v}
    out["all_tasks"] = sum(1 for t in asyncio.all_tasks(w.loop) if not t.done())
    return out


def execute(scn: dict, k_cancel: int | None) -> dict:
    spec = scn["spec"]
    w = World(scn["cfg"], render(scn))
    obs: dict = {"task": None, "cancel": None, "stim": []}
    via = scn["fault"]["via"]

    def do_cancel():
        from custom_components.pyscript.function import Function

        task = obs["task"]
        done = task.done() if task else None
        returned = any(m["args"][:2] in (["w", "ret"], ["w", "exc"]) for m in w.marks)
        if obs.get("end_iter") is not None:
            return  # the scenario is over (tear-down): not a cancellation point
        obs["cancel"] = {"iter": w.loop.iterations, "vt": w.loop.vt, "done": done, "returned": returned}
        if task is None or done or returned:
            return
        w.fault("cancel_at_iter")
        w.probe("cancel_while_subscribed")
        if via == "reaper":
            Function.reaper_cancel(task)
        else:
            task.cancel()

    def hook(rec):
        if rec["args"][:2] == ["w", "pre"]:
            obs["task"] = rec["task_obj"]
            obs["pre_iter"] = w.loop.iterations
            obs["t0"] = rec["vt"]
            obs["wall0"] = rec["wall"]
            if k_cancel is not None:
                w.loop.at_iteration(k_cancel, do_cancel)
        elif rec["args"][:1] == ["w"]:
            obs["ret_iter"] = w.loop.iterations

    w.mark_hook = hook

    async def driver(w: World):
        from homeassistant.core import Context

        await w.started()
        await w.drain()
        obs["census0"] = _census(w)
        base = w.loop.vt
        obs["base"] = base
        ops = sorted(scn["ops"], key=lambda op: op["k"])
        t_call = base + 1.0
        called = False

        async def call_now():
            nonlocal called
            called = True
            await w.call_service("pyscript", "waiter", {}, blocking=False)

        for op in ops:
            target = t_call + op["k"] * GRID
            if not called and target >= t_call:
                if t_call > w.loop.vt:
                    await w.sleep(t_call - w.loop.vt)
                await call_now()
                await w.passes(3)
            if target > w.loop.vt:
                await w.sleep(target - w.loop.vt)
            rec = {"vt": w.loop.vt, "op": op}
            if op["kind"] == "set":
                w.set_state(op["e"], op["s"], {})
            elif op["kind"] == "fire":
                ctx = Context()
                rec["ctx"] = ctx.id
                w.fire(op["type"], op["data"], context=ctx)
            elif op["kind"] == "mqtt":
                w.mqtt_publish(op["topic"], op["payload"])
            elif op["kind"] == "webhook":
                import asyncio

                try:
                    await w.webhook_post(op["id"], op["payload"])
                except (Exception, asyncio.CancelledError) as exc:  # pylint: disable=broad-except
                    # the handler pyscript registered raised into Home Assistant's webhook dispatcher
                    rec["exc"] = repr(exc)
                    w.ha_exceptions.append({"vt": w.vts(), "message": f"webhook handler raised {type(exc).__name__}",
                                            "exc": repr(exc)})
                    w.trace.append(["ha_err", w.vts(), "webhook", type(exc).__name__])
            elif op["kind"] == "stall":
                w.loop.stall(op["s"])
                w.fault("stall")
            obs["stim"].append(rec)
        if not called:
            if t_call > w.loop.vt:
                await w.sleep(t_call - w.loop.vt)
            await call_now()
        last = max([op["k"] for op in ops] + [0])
        await w.sleep(max(t_call + last * GRID, w.loop.vt) + 5.0 - w.loop.vt)
        obs["end_iter"] = w.loop.iterations - 2  # cancellations must land before the final sleep is over
        await w.drain()
        obs["finished"] = obs["task"] is not None and obs["task"].done()
        obs["census1"] = _census(w)
        obs["end"] = w.loop.vt

    w.run(driver)
    obs["w"] = w
    return obs


# ------------------------------------------------------------------ reference
def expected(scn: dict, obs: dict, dev: frozenset = frozenset()):
    """Return (list of acceptable outcomes, dontcare flag). An outcome is (t, kind, payload-or-None).
    ``dev``: explanatory deviations of the state part (sim.holdmodel.DEVIATIONS), used only for labelling."""
    spec = scn["spec"]
    w = obs["w"]
    t0 = obs["t0"]
    cands = []
    raised_at = None
    conds = {c["kind"]: c for c in spec["conds"]}
    stim = [s for s in obs["stim"] if s["vt"] > t0 - 1e-9]
    if any(s["vt"] <= t0 for s in obs["stim"]):
        w.probe("occurrence_before_call")
    immediate = []
    # ---- state
    if "state" in conds:
        cond = conds["state"]
        val = scn["cfg"]["initial_states"]["pyscript.v"][0]
        evals = []
        for s in obs["stim"]:
            op = s["op"]
            if op["kind"] == "set" and op["e"] == "pyscript.v":
                if s["vt"] <= t0:
                    val = op["s"]
                    continue
        cur = val
        for s in stim:
            op = s["op"]
            if op["kind"] == "set" and op["e"] == "pyscript.v" and op["s"] != cur:
                args = {"trigger_type": "state", "var_name": "pyscript.v", "value": ["SV", op["s"], {}],
                        "old_value": ["SV", cur, {}]}
                evals.append({"t": s["vt"], "truth": op["s"] == "1", "args": args})
                cur = op["s"]
        check_now = True if cond["check_now"] is None else cond["check_now"]
        fires = timeline(t0, val == "1", evals, check_now, cond["hold"], cond["hold_false"], obs["end"], first_only=True,
                         dev=dev)
        if cond["hold"]:
            w.probe("hold_in_wait")
        for f in fires:
            cands.append((f["t"], "state", f["args"]))
            if f["t"] <= t0 + 1e-9:
                immediate.append("state")
                w.probe("immediate_check_now")
    # ---- event / mqtt / webhook
    for kind, target_key, target in (("event", "type", "ev_w"), ("mqtt", "topic", "t/w"), ("webhook", "id", "hook_w")):
        if kind not in conds:
            continue
        flt = conds[kind]["filter"]
        for s in stim:
            op = s["op"]
            if op["kind"] != {"event": "fire", "mqtt": "mqtt", "webhook": "webhook"}[kind] or op[target_key] != target:
                continue
            data = op["data"] if kind == "event" else (json.loads(op["payload"]) if kind == "mqtt" else op["payload"])
            if flt == "raise":
                try:
                    int(data["kind"])
                except ValueError:
                    if raised_at is None or s["vt"] < raised_at:
                        raised_at = s["vt"]
                        w.probe("filter_raised")
                    break
            elif flt == "n>1" and not data["n"] > 1:
                continue
            if kind == "event":
                payload = {"trigger_type": "event", "event_type": "ev_w", **data}
            elif kind == "mqtt":
                payload = {"trigger_type": "mqtt", "topic": "t/w", "payload": op["payload"], "qos": 0, "retain": False,
                           "payload_obj": data}
            else:
                payload = {"trigger_type": "webhook", "webhook_id": "hook_w", "payload": data}
            cands.append((s["vt"], kind, payload))
            break
    # ---- time
    has_future_time = False
    if "time" in conds:
        spec_t = conds["time"]["spec"]
        if "now + 1.42s" in spec_t:
            cands.append((t0 + 1.42, "time", None))
            has_future_time = True
        elif "now + 2.17s" in spec_t:
            cands.append((t0 + 2.17, "time", None))
            has_future_time = True
    # ---- timeout
    if spec["timeout"] is not None:
        cands.append((t0 + spec["timeout"], "timeout", {"trigger_type": "timeout"}))
        if spec["timeout"] == 0:
            w.probe("timeout_zero")
    only_time = set(conds) == {"time"}
    if only_time and not has_future_time and spec["timeout"] is None:
        return [(t0, "none", {"trigger_type": "none"})], False
    if not cands:
        return [], raised_at is not None
    cands.sort(key=lambda c: c[0])
    first_t = cands[0][0]
    if raised_at is not None and raised_at <= first_t + 1e-9:
        return [], True
    ok = [c for c in cands if c[0] <= first_t + 1e-6]
    return ok, False


def _outcome(scn: dict, obs: dict, rets: list, excs: list, kinds: list, dev: frozenset) -> list:
    """Mismatches between the observed return and the reference first qualifying occurrence."""
    w = obs["w"]
    out = []
    exp, dontcare = expected(scn, obs, dev)
    slack = 0.08 + w.cfg["timer_late_ms"] * 1e-3 + 80 * w.loop.cost
    if dontcare:
        return out
    if not exp:
        if rets or excs:
            out.append(("C15.unexpected_return", {"kinds": "+".join(kinds)},
                        f"{_call_src(scn['spec'])} returned {[m['kw'] for m in rets + excs]} although no condition "
                        f"occurred after the call"))
        return out
    if len(rets) != 1:
        out.append(("C15.no_return", {"want": exp[0][1], "timeout": scn["spec"]["timeout"] == 0 and "zero" or "other"},
                    f"{_call_src(scn['spec'])} returned {len(rets)} times (exceptions {[m['kw'] for m in excs]}); expected "
                    f"{exp[0][1]} at +{exp[0][0] - obs['t0']:.3f}s"))
        return out
    got = rets[0]
    if not dev and scn["spec"].get("buddy") and any(
            m["args"][:2] == ["buddy", "woke"] and abs(m["vt"] - got["vt"]) < 0.05 for m in w.marks):
        w.probe("second_waiter_woke_on_same_occurrence")
    got_kw = {k: v for k, v in got["kw"].items() if k != "context"}
    tt = got_kw.get("trigger_type")
    match = next((cand for cand in exp if cand[1] == tt), None)
    if not dev:
        w.probe({"timeout": "timeout_fired", "time": "time_trigger_fired", "event": "event_returned",
                 "state": "state_returned", "mqtt": "mqtt_returned", "webhook": "webhook_returned",
                 "none": "none_returned"}.get(tt, "other_returned"))
    if match is None:
        out.append(("C15.wrong_trigger", {"want": exp[0][1], "got": str(tt)},
                    f"{_call_src(scn['spec'])} returned {got_kw} at +{got['vt'] - obs['t0']:.3f}s; the first "
                    f"qualifying occurrence is {exp[0][1]} at +{exp[0][0] - obs['t0']:.3f}s"))
        return out
    dtm = got["vt"] - match[0]
    if not -1e-6 <= dtm <= slack:
        out.append(("C15.return_time", {"want": match[1]},
                    f"{_call_src(scn['spec'])} returned {tt} at +{got['vt'] - obs['t0']:.3f}s, expected at "
                    f"+{match[0] - obs['t0']:.3f}s"))
    if match[2] is not None and got_kw != w.norm(match[2]):
        out.append(("C15.return_payload", {"want": match[1]},
                    f"{_call_src(scn['spec'])} returned {got_kw}, expected {w.norm(match[2])}"))
    if match[1] == "time":
        ttime = got["raw_kw"].get("trigger_time")
        want_wall = obs["wall0"] + dt.timedelta(seconds=match[0] - obs["t0"])
        if not isinstance(ttime, dt.datetime) or abs((ttime - want_wall).total_seconds()) > 0.2:
            out.append(("C15.return_payload", {"want": "time"},
                        f"trigger_time {ttime!r} is not the denoted instant {want_wall!r}"))
    return out


def _short(val, other):
    """Only the entries of a census table that differ from the other side."""
    if isinstance(val, dict) and isinstance(other, dict):
        return {k: v for k, v in val.items() if other.get(k) != v}
    return val


def judge(scn: dict, obs: dict, sub: str) -> list:
    w = obs["w"]
    out = []
    cancel = obs.get("cancel")
    landed = bool(cancel and cancel["done"] is False and not cancel["returned"])
    exit_path = "cancelled" if landed else "return"

    def viol(cls, sig, detail):
        out.append({"class": cls, "sig": {"subsystem": sub, **sig}, "detail": detail, "t": 0.0})

    rets = [m for m in w.marks if m["args"][:2] == ["w", "ret"]]
    excs = [m for m in w.marks if m["args"][:2] == ["w", "exc"]]
    kinds = sorted(c["kind"] for c in scn["spec"]["conds"])
    if obs.get("t0") is None:
        viol("C15.not_called", {}, "the waiter service never started")
        return out
    if excs:
        exit_path = "exception"
    # ---- outcome (fault-free path only)
    if not landed:
        found = _outcome(scn, obs, rets, excs, kinds, frozenset())
        if found:
            # label: does an already recorded deviation of the state part (C05 findings) explain it?
            import itertools

            from ..holdmodel import DEVIATIONS

            if sub == "new":
                cands = [d for d in DEVIATIONS if d != "wait_until_init_false_does_not_start_false_period"]
            else:
                cands = ["wait_until_init_false_does_not_start_false_period"]
            why = "unexplained"
            if "state" in kinds:
                for size in range(1, len(cands) + 1):
                    hit = None
                    for combo in itertools.combinations(cands, size):
                        if not _outcome(scn, obs, rets, excs, kinds, frozenset(combo)):
                            hit = combo
                            break
                    if hit:
                        why = "+".join(hit)
                        break
            for cls, sig, detail in found:
                if why != "unexplained":
                    sig = {"why": why}
                viol(cls, sig, detail)
    # ---- the task must be over and everything released
    if not obs["finished"]:
        exp, dontcare = expected(scn, obs) if not landed else ([], True)
        if landed or exp:
            viol("C15.task_never_finished", {"exit": exit_path}, "the waiting task is still alive 5 s after the last occurrence")
        return out
    c0, c1 = obs["census0"], obs["census1"]
    leaked = sorted(k for k in c0 if c0[k] != c1[k])
    if leaked:
        viol("C15.leak_after_exit", {"exit": exit_path},
             f"{_call_src(scn['spec'])} exit={exit_path}" + (f" (cancel via {scn['fault']['via']} at pass "
             f"+{scn['fault'].get('iter')})" if landed else "") + ": census before the call "
             f"{ {k: c0[k] for k in leaked} } != after the task ended { {k: c1[k] for k in leaked} }")
    if w.ha_exceptions:
        viol("C15.escaped_to_ha", {"exit": exit_path}, f"Home Assistant logged/handled: {w.ha_exceptions[:2]}")
    return out


def run(scn: dict) -> dict:
    fault = scn["fault"]
    sub = "legacy" if scn["cfg"]["legacy"] else "new"
    base = execute(scn, None)
    w0 = base["w"]
    violations = judge(scn, base, sub)
    n_points = landed = 0
    patch = None
    agg_f: dict = {}
    agg_r: dict = {}
    iters = w0.loop.iterations
    sim_s = w0.loop.vt - w0.clock.vt0
    if not violations and fault["mode"] != "none" and base.get("pre_iter") is not None:
        last = min(base.get("ret_iter") or base["end_iter"], base["end_iter"])
        span = max(1, min(last - base["pre_iter"] + 2, base["end_iter"] - base["pre_iter"] - 1, 400))
        if fault["mode"] == "single":
            points = [fault["iter"]]
        else:
            points = list(range(1, span + 1))
            cap = scn.get("max_points") or 30
            if len(points) > cap:
                stride = len(points) / cap
                points = sorted({points[int(i * stride)] for i in range(cap)})
        for k in points:
            scn_k = dict(scn, fault=dict(fault, iter=k))
            obs = execute(scn_k, k)
            n_points += 1
            ww = obs["w"]
            for key, val in ww.faults.items():
                agg_f[key] = agg_f.get(key, 0) + val
            for key, val in ww.reach.items():
                agg_r[key] = agg_r.get(key, 0) + val
            iters += ww.loop.iterations
            sim_s += ww.loop.vt - ww.clock.vt0
            if obs["cancel"] and obs["cancel"]["done"] is False and not obs["cancel"]["returned"]:
                landed += 1
            vs = judge(scn_k, obs, sub)
            if vs:
                violations = vs
                patch = {"fault": {"mode": "single", "via": fault["via"], "iter": k}}
                break
    rich = len(scn["spec"]["conds"]) >= 2 or any(c.get("hold") for c in scn["spec"]["conds"])
    res = base_result(w0, violations, bool(rich and landed), {"cancel_points": n_points, "cancel_landed": landed})
    for k, v in agg_f.items():
        res["faults"][k] = res["faults"].get(k, 0) + v
    for k, v in agg_r.items():
        res["reach"][k] = res["reach"].get(k, 0) + v
    res["iterations"] = iters
    res["sim_seconds"] = round(sim_s, 3)
    if patch:
        res["scn_patch"] = patch
    return res


def evidence_extra(lines: list) -> dict:
    pts = sum((ln.get("extra") or {}).get("cancel_points", 0) for ln in lines)
    landed = sum((ln.get("extra") or {}).get("cancel_landed", 0) for ln in lines)
    return {"cancel_points_enumerated": pts, "cancellations_landed_on_waiting_task": landed,
            "executions": pts + len(lines)}
